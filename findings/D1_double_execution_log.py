"""D1 (C10): every fill reaches the logger twice."""
from _common import CountingLogger, base_config, run, verdict


class Obs(CountingLogger):
    pass


lg = Obs()
r = run(base_config(steps=40), seed=1, logger=lg)
# fills as seen by the agents == number of distinct ExecutionLog objects
distinct = len({id(x) for x in lg.executions})
n = lg.counts.get("execution", 0)
verdict(n == distinct and n > 0, f"process_execution_log calls={n} distinct fills={distinct}")
