"""D6 (C09): a TradingHaltRule that never halted switches order execution ON in a
session configured without order execution."""
from _common import CountingLogger, base_config, run, verdict

cfg = base_config(steps=30, with_execution=False)
cfg["simulation"]["sessions"].append({
    "sessionName": "1", "iterationSteps": 10, "withOrderPlacement": True, "withOrderExecution": True,
    "withPrint": False, "maxNormalOrders": 3, "events": ["Halt"]})
cfg["Halt"] = {"class": "TradingHaltRule", "targetMarkets": ["Market"], "triggerChangeRate": 0.5,
               "haltingTimeLength": 3, "enabled": True}
lg = CountingLogger()
r = run(cfg, seed=1, logger=lg)
early = sorted({e.time for e in lg.executions if e.time < 30})
verdict(not early, f"fills recorded during the non-execution session at times {early[:8]}{'...' if len(early) > 8 else ''} ({len([e for e in lg.executions if e.time < 30])} fills)")
