"""D7 (C20), MarketMakerAgent: quotes a target market it cannot access."""
import copy
from _common import base_config, run, verdict

cfg = base_config(steps=30)
cfg["MarketB"] = copy.deepcopy(cfg["Market"])
cfg["simulation"]["markets"] = ["Market", "MarketB"]
cfg["FCNAgents"]["markets"] = ["Market", "MarketB"]
cfg["MM"] = {"class": "MarketMakerAgent", "numAgents": 1, "markets": ["Market"], "assetVolume": 50, "cashAmount": 10000,
             "targetMarket": "MarketB", "netInterestSpread": 0.02, "orderTimeLength": 2}
cfg["simulation"]["agents"] = ["FCNAgents", "MM"]
try:
    r = run(cfg, seed=1)
    verdict(False, "run completed although the market maker quotes an inaccessible market")
except KeyError as e:
    verdict(False, f"KeyError {e!r}: market maker traded on a market it has no access to")
except ValueError as e:
    verdict(True, f"rejected at setup: {e}")
