"""D3 (C18), market generator: from/to of length 2."""
from _common import base_config, run, verdict

cfg = base_config()
cfg["Market"]["from"] = 0
cfg["Market"]["to"] = 1
try:
    r = run(cfg)
    names = [m.name for m in r.simulator.markets]
    verdict(len(names) == 2 and len(set(names)) == 2, f"markets={names}")
except ValueError as e:
    verdict(False, f"from=0,to=1 -> ValueError: {e}")
