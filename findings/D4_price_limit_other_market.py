"""D4 (C15): PriceLimitRule aborts the run on the first order for a non-target market."""
from _common import base_config, run, verdict

cfg = base_config(n_markets=2, steps=10)
cfg["simulation"]["sessions"][0]["events"] = ["PriceLimit"]
cfg["PriceLimit"] = {"class": "PriceLimitRule", "targetMarkets": ["Market-0"], "triggerChangeRate": 0.05, "enabled": True}
try:
    r = run(cfg, seed=2)
    m1 = r.simulator.name2market["Market-1"]
    verdict(sum(m1.get_n_buy_orders()) + sum(m1.get_n_sell_orders()) > 0, "orders accepted on the non-target market")
except AssertionError as e:
    verdict(False, f"AssertionError raised for an order of a non-target market: {e!r}")
