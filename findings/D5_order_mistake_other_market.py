"""D5 (C14): OrderMistakeShock replaces an order of a market that is not its target."""
import copy
from _common import CountingLogger, base_config, run, verdict

bad = []
for seed in range(1, 9):
    cfg = base_config(steps=6)
    cfg["MarketB"] = copy.deepcopy(cfg["Market"])
    cfg["simulation"]["markets"] = ["Market", "MarketB"]
    cfg["AgentsB"] = copy.deepcopy(cfg["FCNAgents"])
    cfg["AgentsB"]["markets"] = ["MarketB"]
    cfg["simulation"]["agents"] = ["FCNAgents", "AgentsB"]
    cfg["simulation"]["sessions"][0]["events"] = ["Mistake"]
    cfg["Mistake"] = {"class": "OrderMistakeShock", "target": "Market", "triggerTime": 3, "priceChangeRate": -0.05,
                      "orderVolume": 7777, "orderTimeLength": 5, "enabled": True}
    lg = CountingLogger()
    r = run(cfg, seed=seed, logger=lg)
    target_id = r.simulator.name2market["Market"].market_id
    for o in lg.orders:
        if o.volume == 7777 and o.market_id != target_id:
            bad.append((seed, o.market_id, o.time))
verdict(not bad, f"shock orders that landed on a non-target market (seed, market_id, time): {bad}")
