"""D7 (C20): ArbitrageAgent emits component orders for markets it cannot access."""
import copy
from _common import base_config, run, verdict

cfg = base_config(n_markets=2, steps=30)
cfg["Index"] = {"class": "IndexMarket", "tickSize": 0.00001, "marketPrice": 290.0, "outstandingShares": 25000,
                "markets": ["Market-0", "Market-1"]}
cfg["simulation"]["markets"] = ["Market", "Index"]
cfg["FCNAgents"]["markets"] = ["Market", "Index"]
cfg["Arb"] = {"class": "ArbitrageAgent", "numAgents": 2, "markets": ["Index"], "assetVolume": 50, "cashAmount": 150000,
              "orderVolume": 1, "orderThresholdPrice": 1.0}
cfg["simulation"]["agents"] = ["FCNAgents", "Arb"]
try:
    r = run(cfg, seed=1)
    bad = []
    verdict(True, "run completed")
except KeyError as e:
    verdict(False, f"KeyError {e!r}: arbitrage agent traded on a market it has no access to")
