"""D3 (C18): a group declared with from/to of length 2 cannot be created (duplicate names)."""
from _common import base_config, run, verdict

cfg = base_config()
del cfg["FCNAgents"]["numAgents"]
cfg["FCNAgents"]["from"] = 0
cfg["FCNAgents"]["to"] = 1
try:
    r = run(cfg)
    names = [a.name for a in r.simulator.agents]
    verdict(len(names) == 2 and len(set(names)) == 2, f"agents={names}")
except ValueError as e:
    verdict(False, f"from=0,to=1 -> ValueError: {e}")
