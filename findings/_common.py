"""Shared helpers for the reproduction scripts of the genuine defects D1-D8.

These scripts are documentation of the findings (DESIGN.md section 6): each exits 1 on the
defective tree and 0 on the repaired one.  They execute pams and are therefore NOT part of
any registered check (the checks are static); they were used once to confirm that a
reported rule violation is a genuine defect before a `fix:` commit was made.

Run:  cd /repo && /venv/bin/python -W ignore /verif/findings/D1_double_execution_log.py
"""
import copy
import random
import sys

sys.path.insert(0, "/repo")

from pams.logs.base import Logger  # noqa: E402
from pams.runners.sequential import SequentialRunner  # noqa: E402


def base_config(n_markets=1, steps=20, with_execution=True):
    cfg = {
        "simulation": {
            "markets": ["Market"],
            "agents": ["FCNAgents"],
            "sessions": [
                {
                    "sessionName": "0",
                    "iterationSteps": steps,
                    "withOrderPlacement": True,
                    "withOrderExecution": with_execution,
                    "withPrint": False,
                    "maxNormalOrders": 3,
                }
            ],
        },
        "Market": {
            "class": "Market",
            "tickSize": 0.00001,
            "marketPrice": 300.0,
            "outstandingShares": 25000,
        },
        "FCNAgents": {
            "class": "FCNAgent",
            "numAgents": 30,
            "markets": ["Market"],
            "assetVolume": 50,
            "cashAmount": 10000,
            "fundamentalWeight": {"expon": [1.0]},
            "chartWeight": {"expon": [0.0]},
            "noiseWeight": {"expon": [1.0]},
            "meanReversionTime": {"uniform": [50, 100]},
            "noiseScale": 0.001,
            "timeWindowSize": [100, 200],
            "orderMargin": [0.0, 0.1],
        },
    }
    if n_markets > 1:
        cfg["Market"]["numMarkets"] = n_markets
    return cfg


class CountingLogger(Logger):
    def __init__(self):
        super().__init__()
        self.counts = {}
        self.executions = []
        self.orders = []

    def _c(self, k):
        self.counts[k] = self.counts.get(k, 0) + 1

    def process_order_log(self, log):
        self._c("order")
        self.orders.append(log)

    def process_cancel_log(self, log):
        self._c("cancel")

    def process_execution_log(self, log):
        self._c("execution")
        self.executions.append(log)

    def process_expiration_log(self, log):
        self._c("expiration")


def run(cfg, seed=1, logger=None, classes=()):
    runner = SequentialRunner(
        settings=copy.deepcopy(cfg), prng=random.Random(seed), logger=logger
    )
    for c in classes:
        runner.class_register(c)
    runner._setup()
    runner._run()
    return runner


def verdict(ok, msg):
    print(("OK: " if ok else "DEFECT: ") + msg)
    sys.exit(0 if ok else 1)
