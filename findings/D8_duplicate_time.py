"""D8 (C13): a hook whose time list repeats a time is invoked twice for one occurrence."""
import sys
from _common import base_config, run, verdict
sys.path.insert(0, "/repo")
from pams.events import EventABC, EventHook

calls = []


class Twice(EventABC):
    def hook_registration(self):
        return [EventHook(event=self, hook_type="session", is_before=True, time=[0, 0])]

    def hooked_before_session(self, simulator, session):
        calls.append(session.session_id)


cfg = base_config(steps=3)
cfg["simulation"]["sessions"][0]["events"] = ["Ev"]
cfg["Ev"] = {"class": "Twice"}
run(cfg, classes=[Twice])
verdict(calls == [0], f"hooked_before_session calls for one session start: {calls}")
