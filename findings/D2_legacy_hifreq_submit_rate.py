"""D2 (C18): legacy key hifreqSubmitRate sets the wrong parameter."""
import random
import warnings
from _common import verdict
import sys
sys.path.insert(0, "/repo")
from pams.session import Session

warnings.simplefilter("ignore")
base = {"sessionName": "s", "iterationSteps": 1, "withOrderPlacement": True, "withOrderExecution": True, "withPrint": False}
a = Session(0, random.Random(0), 0, None, "a"); a.setup(dict(base, highFrequencySubmitRate=0.25))
b = Session(1, random.Random(0), 0, None, "b"); b.setup(dict(base, hifreqSubmitRate=0.25))
ok = (a.high_frequency_submission_rate, a.max_high_frequency_orders) == (b.high_frequency_submission_rate, b.max_high_frequency_orders)
verdict(ok, f"new key -> rate={a.high_frequency_submission_rate}, cap={a.max_high_frequency_orders}; legacy key -> rate={b.high_frequency_submission_rate}, cap={b.max_high_frequency_orders}")
