"""L0 loader: parse every module of the analysed package into tables.

Nothing is imported or executed: sources are read (optionally through an in-memory
overlay used by the self-test) and parsed with `ast`.
"""
from __future__ import annotations

import ast
import hashlib
import os
from dataclasses import dataclass, field
from typing import Dict, Iterable, List, Optional, Tuple


class AnalysisError(Exception):
    """The analysis itself cannot proceed (vanished anchor, unrecognised idiom).

    Never reported as a violation: the driver prints ANALYSIS-ERROR and exits 2.
    """


def default_root() -> str:
    return os.environ.get("PAMS_ROOT", "/repo/pams")


@dataclass
class FuncInfo:
    qualname: str  # "Class.method", "module:function" or "<outer qualname>.<nested>"
    name: str
    node: ast.FunctionDef
    module: "ModuleInfo"
    cls: Optional["ClassInfo"] = None
    outer: Optional["FuncInfo"] = None
    nested: Dict[str, "FuncInfo"] = field(default_factory=dict)

    @property
    def file(self) -> str:
        return self.module.relpath

    @property
    def params(self) -> List[str]:
        a = self.node.args
        return [x.arg for x in a.posonlyargs + a.args + a.kwonlyargs]

    @property
    def is_property(self) -> bool:
        return any(
            isinstance(d, ast.Name) and d.id == "property" for d in self.node.decorator_list
        )

    @property
    def is_static(self) -> bool:
        return any(
            isinstance(d, ast.Name) and d.id == "staticmethod"
            for d in self.node.decorator_list
        )

    @property
    def is_abstract(self) -> bool:
        return any(
            isinstance(d, ast.Name) and d.id == "abstractmethod"
            for d in self.node.decorator_list
        )

    def __repr__(self) -> str:
        return f"<Func {self.qualname}>"

    def __hash__(self) -> int:
        return hash(self.qualname)

    def __eq__(self, other: object) -> bool:
        return isinstance(other, FuncInfo) and other.qualname == self.qualname


@dataclass
class ClassInfo:
    name: str
    node: ast.ClassDef
    module: "ModuleInfo"
    bases: List[str]
    methods: Dict[str, FuncInfo] = field(default_factory=dict)
    class_annotations: Dict[str, ast.expr] = field(default_factory=dict)

    def __repr__(self) -> str:
        return f"<Class {self.name}>"


@dataclass
class ModuleInfo:
    name: str  # dotted, e.g. pams.market
    path: str
    relpath: str  # e.g. pams/market.py
    source: str
    tree: ast.Module
    imports: Dict[str, str] = field(default_factory=dict)  # local name -> dotted target
    functions: Dict[str, FuncInfo] = field(default_factory=dict)
    classes: Dict[str, ClassInfo] = field(default_factory=dict)


class Program:
    def __init__(self, root: Optional[str] = None, overlay: Optional[Dict[str, str]] = None):
        self.root = os.path.abspath(root or default_root())
        self.pkg = os.path.basename(self.root)
        self.overlay = dict(overlay or {})
        self.modules: Dict[str, ModuleInfo] = {}
        self.classes: Dict[str, ClassInfo] = {}
        self.functions: Dict[str, FuncInfo] = {}
        self._dups: List[str] = []
        self._load()

    # ------------------------------------------------------------------ loading
    def _iter_files(self) -> Iterable[str]:
        for d, dirs, files in os.walk(self.root):
            dirs[:] = sorted(x for x in dirs if x != "__pycache__")
            for f in sorted(files):
                if f.endswith(".py"):
                    yield os.path.join(d, f)

    def _load(self) -> None:
        files = list(self._iter_files())
        if not files:
            raise AnalysisError(f"no python sources under {self.root}")
        parent = os.path.dirname(self.root)
        for path in files:
            rel = os.path.relpath(path, parent)
            src = self.overlay.get(rel)
            if src is None:
                with open(path, encoding="utf-8") as fh:
                    src = fh.read()
            try:
                import warnings

                with warnings.catch_warnings():
                    warnings.simplefilter("ignore")
                    tree = ast.parse(src, filename=rel)
            except SyntaxError as e:
                raise AnalysisError(f"cannot parse {rel}: {e}")
            modname = rel[:-3].replace(os.sep, ".")
            if modname.endswith(".__init__"):
                modname = modname[: -len(".__init__")]
            mi = ModuleInfo(modname, path, rel, src, tree)
            self.modules[modname] = mi
        # a pure rename of a private method/attribute is read under the name the rules use
        from . import renames

        self.renames: Dict[str, str] = renames.canonicalise(
            {mi.relpath: mi.tree for mi in self.modules.values()}
        )
        # loops spelled with an explicit iterator, index or flag are read as the for / while-True loops they are
        from . import desugar

        self.desugared: int = 0
        if not os.environ.get("PAMSA_NO_DESUGAR"):
            for mi in self.modules.values():
                self.desugared += desugar.desugar_module(mi.tree)
        for mi in self.modules.values():
            self._index_module(mi)
        if self._dups:
            raise AnalysisError(
                f"class names are not unique in the package: {sorted(self._dups)}"
            )

    def _index_module(self, mi: ModuleInfo) -> None:
        is_pkg = mi.path.endswith("__init__.py")
        for node in mi.tree.body:
            if isinstance(node, ast.Import):
                for a in node.names:
                    mi.imports[a.asname or a.name.split(".")[0]] = a.name
            elif isinstance(node, ast.ImportFrom):
                base = node.module or ""
                if node.level:
                    parts = mi.name.split(".")
                    if not is_pkg:
                        parts = parts[:-1]
                    parts = parts[: len(parts) - (node.level - 1)]
                    base = ".".join(parts + ([node.module] if node.module else []))
                for a in node.names:
                    mi.imports[a.asname or a.name] = f"{base}.{a.name}"
            elif isinstance(node, ast.FunctionDef):
                fi = FuncInfo(f"{mi.name}:{node.name}", node.name, node, mi)
                mi.functions[node.name] = fi
                self.functions[fi.qualname] = fi
                self._index_nested(fi)
            elif isinstance(node, ast.ClassDef):
                bases = []
                for b in node.bases:
                    if isinstance(b, ast.Name):
                        bases.append(b.id)
                    elif isinstance(b, ast.Attribute):
                        bases.append(b.attr)
                ci = ClassInfo(node.name, node, mi, bases)
                if node.name in self.classes:
                    self._dups.append(node.name)
                self.classes[node.name] = ci
                mi.classes[node.name] = ci
                for sub in node.body:
                    if isinstance(sub, ast.FunctionDef):
                        fi = FuncInfo(f"{node.name}.{sub.name}", sub.name, sub, mi, ci)
                        ci.methods[sub.name] = fi
                        self.functions[fi.qualname] = fi
                        self._index_nested(fi)
                    elif isinstance(sub, ast.AnnAssign) and isinstance(sub.target, ast.Name):
                        ci.class_annotations[sub.target.id] = sub.annotation

    def _index_nested(self, outer: FuncInfo) -> None:
        for node in ast.walk(outer.node):
            if node is outer.node:
                continue
            if isinstance(node, ast.FunctionDef):
                # only direct nesting level is needed in pams
                fi = FuncInfo(
                    f"{outer.qualname}.{node.name}", node.name, node, outer.module, outer.cls, outer
                )
                outer.nested[node.name] = fi
                self.functions[fi.qualname] = fi

    # ------------------------------------------------------------------ queries
    def func(self, qualname: str) -> FuncInfo:
        f = self.functions.get(qualname)
        if f is None:
            raise AnalysisError(f"anchor function {qualname} not found")
        return f

    def cls(self, name: str) -> ClassInfo:
        c = self.classes.get(name)
        if c is None:
            raise AnalysisError(f"anchor class {name} not found")
        return c

    def has_func(self, qualname: str) -> bool:
        return qualname in self.functions

    def mro(self, name: str) -> List[str]:
        """Linearisation by depth-first, left-to-right, duplicates removed keeping the
        last occurrence (adequate for the single/diamond-free hierarchies of pams)."""
        out: List[str] = []

        def walk(n: str) -> None:
            if n not in self.classes:
                return
            out.append(n)
            for b in self.classes[n].bases:
                walk(b)

        walk(name)
        seen = set()
        res = []
        for n in reversed(out):
            if n not in seen:
                seen.add(n)
                res.append(n)
        res.reverse()
        # put the class itself first
        if name in res:
            res.remove(name)
            res.insert(0, name)
        return res

    def is_subclass(self, name: str, base: str) -> bool:
        return base in self.mro(name)

    def subclasses(self, base: str, strict: bool = False) -> List[str]:
        return sorted(
            n for n in self.classes if self.is_subclass(n, base) and not (strict and n == base)
        )

    def lookup_method(self, clsname: str, meth: str) -> Optional[FuncInfo]:
        for c in self.mro(clsname):
            f = self.classes[c].methods.get(meth)
            if f is not None:
                return f
        return None

    def lookup_super_method(self, clsname: str, meth: str) -> Optional[FuncInfo]:
        for c in self.mro(clsname)[1:]:
            f = self.classes[c].methods.get(meth)
            if f is not None:
                return f
        return None

    def overrides(self, clsname: str, meth: str) -> List[FuncInfo]:
        """Definitions of `meth` in strict subclasses of clsname."""
        out = []
        for c in self.subclasses(clsname, strict=True):
            f = self.classes[c].methods.get(meth)
            if f is not None:
                out.append(f)
        return out

    def all_functions(self) -> List[FuncInfo]:
        return [self.functions[k] for k in sorted(self.functions)]

    def digest(self) -> str:
        h = hashlib.sha1()
        for name in sorted(self.modules):
            h.update(name.encode())
            h.update(self.modules[name].source.encode())
        return h.hexdigest()

    def stats(self) -> Dict[str, int]:
        return {
            "modules": len(self.modules),
            "classes": len(self.classes),
            "functions": len(self.functions),
        }


def qual_site(f: FuncInfo, node: Optional[ast.AST] = None) -> Dict[str, object]:
    d: Dict[str, object] = {"file": f.file, "function": f.qualname}
    if node is not None and hasattr(node, "lineno"):
        d["line"] = node.lineno  # informational only; never part of a key
    return d
