"""L8 self-test of the checker (thorough tier): mutants, benign twins and seeded changes.

Everything here is static: variants of the *current* tree are built as in-memory source
overlays (AST rewrites, or the committed seeded patches applied textually) and analysed by
the same rules; no variant is ever imported or executed.

 * seeded changes (/verif/seeded/<P><x>/patch.diff, confirmed behaviour-breaking by running
   their demonstrations once, outside the checks): every one that still applies must be
   reported as a VIOLATION of its property;
 * benign twins (semantics-preserving AST rewrites of the anchored functions): none may be
   reported as a VIOLATION; an ANALYSIS-ERROR on a twin is counted as an unrecognised idiom;
 * generic mutants (comparator flips, negated conditions, deleted statements, swapped
   constants, +/- swaps inside the anchored functions): the kill ratio is measured and
   reported; it gates only through the per-property floor recorded in selftest_floors.json.
"""
from __future__ import annotations

import ast
import copy
import json
import os
import random
import re
import sys
from concurrent.futures import ProcessPoolExecutor
from typing import Any, Dict, Iterable, List, Optional, Tuple

HERE = os.path.dirname(os.path.abspath(__file__))
VERIF = os.path.dirname(HERE)

from .loader import Program, default_root  # noqa: E402


# --------------------------------------------------------------------------- anchored functions
def anchored_functions(prop: str, root: Optional[str]) -> Tuple[List[str], Dict[str, str]]:
    from .driver import load_rules, run_rules
    from .kit import Ctx

    load_rules()
    program = Program(root)
    ctx = Ctx(program)
    run_rules(ctx, prop, "quick")
    quals = set(ctx._funcs_seen)
    for i in ctx.instances:
        q = i.site.get("function")
        if q:
            quals.add(q)
    quals = {q for q in quals if q in program.functions}
    sources = {m.relpath: m.source for m in program.modules.values()}
    return sorted(quals), sources


# --------------------------------------------------------------------------- AST rewriting
class _Rewriter(ast.NodeTransformer):
    """apply `fn` to the k-th node (in ast.walk order of the function) satisfying `pred`"""

    def __init__(self, target: ast.AST, replacement: Any):
        self.target = target
        self.replacement = replacement

    def visit(self, node: ast.AST) -> Any:
        if node is self.target:
            return self.replacement
        return self.generic_visit(node)


def _find_func(tree: ast.Module, qual: str) -> Optional[ast.FunctionDef]:
    parts = qual.split(":")[-1].split(".")
    if ":" in qual:
        parts = [qual.split(":")[1]]
    nodes: List[ast.AST] = [tree]
    cur: Optional[ast.AST] = tree
    for p in parts:
        nxt = None
        for n in ast.walk(cur) if not isinstance(cur, ast.Module) else cur.body:
            if isinstance(n, (ast.FunctionDef, ast.ClassDef)) and n.name == p and n is not cur:
                nxt = n
                break
        if nxt is None:
            return None
        cur = nxt
    return cur if isinstance(cur, ast.FunctionDef) else None


_FLIP = {ast.Lt: ast.LtE, ast.LtE: ast.Lt, ast.Gt: ast.GtE, ast.GtE: ast.Gt, ast.Eq: ast.NotEq, ast.NotEq: ast.Eq, ast.Is: ast.IsNot, ast.IsNot: ast.Is, ast.In: ast.NotIn, ast.NotIn: ast.In}


def _is_docstring(stmt: ast.stmt) -> bool:
    return isinstance(stmt, ast.Expr) and isinstance(stmt.value, ast.Constant) and isinstance(stmt.value.value, str)


def gen_mutants(tree: ast.Module, qual: str) -> Iterable[Tuple[str, ast.Module]]:
    fn = _find_func(tree, qual)
    if fn is None:
        return
    nodes = [n for n in ast.walk(fn)]
    for idx, n in enumerate(nodes):
        # never touch error messages / docstrings
        if isinstance(n, ast.Compare) and len(n.ops) == 1 and type(n.ops[0]) in _FLIP:
            new = copy.deepcopy(n)
            new.ops = [_FLIP[type(n.ops[0])]()]
            yield f"{qual}: compare#{idx} {type(n.ops[0]).__name__}->{type(new.ops[0]).__name__} @{getattr(n, 'lineno', 0)}", _apply(tree, n, new)
        elif isinstance(n, ast.If):
            new = copy.deepcopy(n)
            new.test = ast.UnaryOp(op=ast.Not(), operand=copy.deepcopy(n.test))
            yield f"{qual}: if#{idx} negated @{n.lineno}", _apply(tree, n, new)
        elif isinstance(n, (ast.Expr, ast.Assign, ast.AugAssign, ast.AnnAssign)) and not _is_docstring(n) and not (isinstance(n, ast.AnnAssign) and n.value is None):
            if isinstance(n, ast.Expr) and isinstance(n.value, ast.Call) and (ast.unparse(n.value.func).startswith("warnings.") or ast.unparse(n.value.func) == "print"):
                continue
            yield f"{qual}: stmt#{idx} deleted `{ast.unparse(n)[:50]}` @{n.lineno}", _apply(tree, n, ast.Pass())
        elif isinstance(n, ast.Constant) and isinstance(n.value, bool):
            yield f"{qual}: const#{idx} {n.value}->{not n.value} @{getattr(n, 'lineno', 0)}", _apply(tree, n, ast.Constant(value=not n.value))
        elif isinstance(n, ast.BinOp) and isinstance(n.op, (ast.Add, ast.Sub)):
            new = copy.deepcopy(n)
            new.op = ast.Sub() if isinstance(n.op, ast.Add) else ast.Add()
            yield f"{qual}: binop#{idx} {type(n.op).__name__}->{type(new.op).__name__} @{getattr(n, 'lineno', 0)}", _apply(tree, n, new)
        elif isinstance(n, ast.Raise) and n.exc is not None:
            yield f"{qual}: raise#{idx} removed @{n.lineno}", _apply(tree, n, ast.Pass())
        elif isinstance(n, (ast.Break, ast.Continue)):
            yield f"{qual}: {type(n).__name__.lower()}#{idx} removed @{n.lineno}", _apply(tree, n, ast.Pass())


def _apply(tree: ast.Module, target: ast.AST, replacement: ast.AST) -> ast.Module:
    t2 = copy.deepcopy(tree)
    # locate the corresponding node in the copy by position in walk order
    orig = list(ast.walk(tree))
    new = list(ast.walk(t2))
    i = next(k for k, n in enumerate(orig) if n is target)
    tgt2 = new[i]
    rep = copy.deepcopy(replacement)
    ast.copy_location(rep, tgt2)
    t2 = _Rewriter(tgt2, rep).visit(t2)
    ast.fix_missing_locations(t2)
    return t2


# --------------------------------------------------------------------------- benign twins
class _Rename(ast.NodeTransformer):
    def __init__(self, mapping: Dict[str, str]):
        self.m = mapping

    def visit_Name(self, node: ast.Name) -> ast.AST:
        if node.id in self.m:
            return ast.copy_location(ast.Name(id=self.m[node.id], ctx=node.ctx), node)
        return node

    def visit_FunctionDef(self, node: ast.FunctionDef) -> ast.AST:
        return self.generic_visit(node)

    def visit_arg(self, node: ast.arg) -> ast.AST:
        return node


def _locals_of(fn: ast.FunctionDef) -> List[str]:
    params = {a.arg for a in fn.args.posonlyargs + fn.args.args + fn.args.kwonlyargs}
    if fn.args.vararg:
        params.add(fn.args.vararg.arg)
    if fn.args.kwarg:
        params.add(fn.args.kwarg.arg)
    nested_params = set()
    for n in ast.walk(fn):
        if isinstance(n, (ast.FunctionDef, ast.Lambda)) and n is not fn:
            a = n.args
            nested_params |= {x.arg for x in a.posonlyargs + a.args + a.kwonlyargs}
    names: List[str] = []
    for n in ast.walk(fn):
        if isinstance(n, ast.Name) and isinstance(n.ctx, ast.Store) and n.id not in params and n.id not in nested_params and n.id not in names and n.id != "_":
            names.append(n.id)
    # names used as keyword arguments of the same spelling are fine (keywords are not Names)
    return names


def twin_rename(tree: ast.Module, qual: str) -> Optional[ast.Module]:
    t2 = copy.deepcopy(tree)
    fn = _find_func(t2, qual)
    if fn is None:
        return None
    loc = _locals_of(fn)
    if not loc:
        return None
    mapping = {n: f"{n}_rn" for n in loc}
    new_body = [_Rename(mapping).visit(s) for s in fn.body]
    fn.body = new_body
    ast.fix_missing_locations(t2)
    return t2


class _SwapCompare(ast.NodeTransformer):
    """a < b -> b > a (and <=, >, >=, ==, != likewise): same truth value, same evaluation of pure operands"""

    SW = {ast.Lt: ast.Gt, ast.Gt: ast.Lt, ast.LtE: ast.GtE, ast.GtE: ast.LtE, ast.Eq: ast.Eq, ast.NotEq: ast.NotEq}

    def visit_Compare(self, node: ast.Compare) -> ast.AST:
        self.generic_visit(node)
        if len(node.ops) == 1 and type(node.ops[0]) in self.SW and _pure(node.left) and _pure(node.comparators[0]):
            return ast.copy_location(ast.Compare(left=node.comparators[0], ops=[self.SW[type(node.ops[0])]()], comparators=[node.left]), node)
        return node


def _pure(e: ast.AST) -> bool:
    return not any(isinstance(n, (ast.Call, ast.Await, ast.Yield, ast.NamedExpr)) for n in ast.walk(e))


class _AugToAssign(ast.NodeTransformer):
    def visit_AugAssign(self, node: ast.AugAssign) -> ast.AST:
        if isinstance(node.target, ast.Name) or (_pure(node.target)):
            load = copy.deepcopy(node.target)
            for n in ast.walk(load):
                if hasattr(n, "ctx"):
                    n.ctx = ast.Load()
            return ast.copy_location(ast.Assign(targets=[node.target], value=ast.BinOp(left=load, op=node.op, right=node.value)), node)
        return node


class _SplitAnd(ast.NodeTransformer):
    """if a and b: S   (no else)  ->  if a: if b: S"""

    def visit_If(self, node: ast.If) -> ast.AST:
        self.generic_visit(node)
        if not node.orelse and isinstance(node.test, ast.BoolOp) and isinstance(node.test.op, ast.And) and len(node.test.values) == 2:
            inner = ast.If(test=node.test.values[1], body=node.body, orelse=[])
            return ast.copy_location(ast.If(test=node.test.values[0], body=[inner], orelse=[]), node)
        return node


class _FlipIfElse(ast.NodeTransformer):
    """if c: A else: B  ->  if not c: B else: A   (both non-empty, not an elif chain)"""

    def visit_If(self, node: ast.If) -> ast.AST:
        self.generic_visit(node)
        if node.orelse and not (len(node.orelse) == 1 and isinstance(node.orelse[0], ast.If)):
            return ast.copy_location(ast.If(test=ast.UnaryOp(op=ast.Not(), operand=node.test), body=node.orelse, orelse=node.body), node)
        return node


class _TempForReturn(ast.NodeTransformer):
    """return <expr>  ->  _ret = <expr>; return _ret"""

    def visit_FunctionDef(self, node: ast.FunctionDef) -> ast.AST:
        return node  # nested functions untouched

    def rewrite_block(self, body: List[ast.stmt]) -> List[ast.stmt]:
        out: List[ast.stmt] = []
        for s in body:
            for fld in ("body", "orelse", "finalbody"):
                if hasattr(s, fld) and isinstance(getattr(s, fld), list) and not isinstance(s, (ast.FunctionDef, ast.ClassDef)):
                    setattr(s, fld, self.rewrite_block(getattr(s, fld)))
            if isinstance(s, ast.Return) and s.value is not None and not isinstance(s.value, (ast.Name, ast.Constant)):
                out.append(ast.copy_location(ast.Assign(targets=[ast.Name(id="_ret_tw", ctx=ast.Store())], value=s.value), s))
                out.append(ast.copy_location(ast.Return(value=ast.Name(id="_ret_tw", ctx=ast.Load())), s))
            else:
                out.append(s)
        return out


def _twin_with(tree: ast.Module, qual: str, tr: ast.NodeTransformer) -> Optional[ast.Module]:
    t2 = copy.deepcopy(tree)
    fn = _find_func(t2, qual)
    if fn is None:
        return None
    before = ast.dump(fn)
    if isinstance(tr, _TempForReturn):
        fn.body = tr.rewrite_block(fn.body)
    else:
        fn.body = [tr.visit(s) for s in fn.body]
    if ast.dump(fn) == before:
        return None
    ast.fix_missing_locations(t2)
    return t2


def twin_annotations(tree: ast.Module, qual: str) -> Optional[ast.Module]:
    t2 = copy.deepcopy(tree)
    fn = _find_func(t2, qual)
    if fn is None:
        return None
    # prepend a no-op and append a trailing docstring-like comment statement
    first = 1 if fn.body and _is_docstring(fn.body[0]) else 0
    fn.body.insert(first, ast.Pass())
    ast.fix_missing_locations(t2)
    return t2


TWINS = {
    "rename-locals": twin_rename,
    "swap-compare-operands": lambda t, q: _twin_with(t, q, _SwapCompare()),
    "augassign-to-assign": lambda t, q: _twin_with(t, q, _AugToAssign()),
    "split-and": lambda t, q: _twin_with(t, q, _SplitAnd()),
    "flip-if-else": lambda t, q: _twin_with(t, q, _FlipIfElse()),
    "temp-for-return": lambda t, q: _twin_with(t, q, _TempForReturn()),
    "insert-pass": twin_annotations,
}


# seeded changes whose code leaves the fragment the rules can decide: the check must not pass
# (exit 0) on them, and it says so with an analysis error instead of guessing a verdict
OUTSIDE_MODEL = {
    "C01e": "price selection rewritten over (time, id) tuples carried across loop iterations: the decision table has no atom for a loop-carried tuple",
    "C03d": "comparator uses math.isclose: not an order-only predicate, the finite-model argument does not apply",
    "C03e": "executability decided on float tick levels: arithmetic on prices inside the predicate is outside the order-only model",
    "C16d": "refresh skipped when the recomputed mid equals the stored one: equality with stored state is not an atom of the refresh table",
    "C01g": "comparator rebuilt on helpers that call math.isclose: not an order-only predicate (shared premise C02.R1)",
    "C02f": "comparator rebuilt on key tuples with `placed_at or math.inf`: tuple slicing and truthiness of a number are outside the order-only model",
    "C04f": "cancel turned into lazy deletion (flag only, purge when the order reaches the top): the removal discipline the rules decide is gone altogether",
    "C19h": "tick level computed by multiplying with a cached reciprocal of the tick size: whether that equals price / tick_size (bit for bit) is arithmetic, not shape; the corrected version FC19h has the same shape",
    "C18f": "inheritance rewritten as self-recursion: the rule models the loop form of the chain walk only (the corrected version FC18f is refused in the same way)",
    "C15f": "hook selection memoised per (hook point, time) with invalidation in _add_event: a selection that reads a cache is not the modelled `hooks[None] ++ hooks[time]`",
    "C13j": "hook selection memoised per hook point with invalidation in _add_event (as C15f): a selection that reads a cache is not the modelled `hooks[None] ++ hooks[time]`",
    "C03f": "reaper rebuilds the queue by a filter over a list left over from the bucket loop: the rules trace single removals (`remove(order)`) to their bucket, a rebuilt queue is not modelled (the first version of the rule reported it for the wrong reason: no remove call found)",
    "C01m": "comparator works on a price sign cached at construction: `_price_sign` is not an atom of the order-only model (that it can go stale when the side is rewritten before acceptance is a fact about other code)",
    "C04n": "heap deletion by moving the last leaf into the hole with an off-by-one bound on the index: arithmetic on positions in the heap array, not shape",
    "C05j": "settlement netted per agent and applied once per agent after the pass over the fills: the rule decides the fill-by-fill form; whether the netting loses a payment (dict.update over two roles of one agent) is arithmetic on collected values (the corrected FC05j has the same shape)",
    "C07i": "class look-ups memoised in a module-level table keyed by name and registered classes: a keyed memo is refused, not reported (whether a kept entry can change an outcome is a question about its key; FC18j is a memo of the same shape that is correct)",
    "C18j": "parsed specifications memoised in a module-level table keyed by id(): as C07i; the corrected FC18j differs only in that a hit is validated against the objects it was parsed from",
    "C08j": "depth memoised per side with (orders accepted, orders resting) as the key: the getters no longer read the book directly; whether the key changes with every change of the book is not shape (FC08j keys by the price and volume objects themselves)",
    "C09j": "consultation order drawn lazily by a partial Fisher-Yates shuffle: whether randrange(n) instead of randrange(i, n) still gives a permutation is arithmetic on indices",
    "C10j": "step records built once per market and re-emitted: whether a kept record still names the running session is a question about its invalidation (FC10j validates, same shape)",
    "C10n": "pending records processed in batches whose bounds overlap by one: arithmetic on slice bounds",
    "C11j": "call backs made only for agents found in a table of `listeners` filled at registration: a conditional call back is refused; whether the skipped calls are exactly the no-op ones depends on how the table is filled (FC11j walks the MRO, same shape)",
    "C11k": "call backs made only if the agent accepts the kind of notification (new optional setting): as C11j",
    "C14j": "step hooks dispatched only at times found in a set collected at session start: a conditional trigger is refused; whether the skipped steps have no hook depends on how the set is collected (FC14j uses a live view of the registry, same shape)",
    "C01s": "round price computed once after the walk from the last pending pair instead of inside it: the rules trace the price variable the walk sets; a price derived afterwards from the list of pairs is another shape (which of two orders rested is then decided from acceptance times and the clock, not from the book's ranking)",
    "C03s": "fast path that executes one pair in place when the orders behind it no longer cross, looking at heap slot 1 only: a round that ends without the walk for another reason than `nothing executable` is refused; whether the look-ahead sees the true second-best order is a question about the heap layout",
    "C04s": "reaper pops the single bucket `time - 1` instead of scanning the keys: there is no comparison of expiry keys with the clock left for the boundary rule to read; right for unit steps, wrong for _set_time jumps",
    "C05r": "settlement moved into an overridable Agent.settle_execution that decides its side by comparing the record's ids with its own: the paths differ by id comparisons whose feasible combinations (self-trade) the rule cannot enumerate",
    "C06s": "stepping order memoised on the identity of the market list: an order kept in simulator state is refused (whether the list was extended in place since is a question about its writers)",
    "C07s": "parsed settings files memoised in a module-level dict keyed by (path, whole-second mtime, size): a keyed memo at module level is refused by C07.R4, whether a stale entry can be served is a question about the key",
    "C08s": "VWAP served from a checkpoint of closed steps kept in market state: totals kept in state are another representation of the two series; whether a step was closed too early is not decided",
    "C11r": "fills reported to the agents found in a registry keyed by order id: parties found through other fields of the record are refused (order ids are per market, so the registry can name a stranger; that is a fact about the key space)",
    "C12r": "scheduled parameter changes consumed inside _generate_next: a second loop that changes generator state is an extension the regeneration rule does not model (a consumed change is not re-queued on rewind)",
    "C13r": "periodic hooks (`every=N`) expanded to explicit times at registration: a constructor parameter of EventHook without specification, and a bucket decision that is no longer one test of the time list",
    "C13s": "triggers called only for hook points found non-empty at session start: a trigger under a condition is refused (C13.R3); whether a hook registered later is skipped depends on when the set is refreshed",
    "C14s": "per-market block of generated fundamentals kept by the simulator and re-read only when the regeneration point moved: a value from kept state / read out of the generator's storage is refused; the stale block of the second market after a shock is a question about invalidation",
    "C15s": "price range kept per market and recomputed only when the reference price changed: a path that leaves the price alone on the strength of kept state is refused; the rate going stale is a question about invalidation",
    "C16s": "halt threshold cached per market and dropped only when the halting time ran out: the comparator no longer has the modelled operands",
    "C17s": "fundamental index served from a block precomputed over the generated horizon: a value from kept state is refused; the block going stale after a shock is a question about invalidation",
    "C18s": "find_class memoises resolved names in a module-level table that is also filled from registered classes: the lookup is no longer a single expression the rule can read (forking lookup); C07.R4 refuses the module-level memo as well",
    "C19r": "price-dependent tick size from a table of bands: the grid is no longer the one tick size the rules know; the wrong band below the first bound is an index slip inside the new accessor",
    "C19s": "last resolved tick cell remembered in a class attribute: levels served from kept state are refused; the lower conversion storing the wrong level is a question about what the cell holds",
    "C20s": "half spread memoised once the fundamental is flat: a value read from kept agent state is refused; shocks moving a flat fundamental is a question about invalidation",
    "C05k": "agents may answer a fill with orders that are placed and matched at once inside a new notification helper; the fills of those nested rounds go into a list: a second settlement route, refused (the corrected shape would apply the list before telling anybody, which C05.R3 accepts)",
    "C05s": "a new settlement routine for sweeps writes cash and shares: a new function among the writers of the holdings is refused, the rule cannot tell it from FC05s, which books every fill on its own parties",
    "C09r": "the execution guards ask a new method of the session (is_order_executable) instead of reading the switch: a decision taken by new code is refused; FC09r is the same shape with the switch read inside the method",
    "C10r": "Logger.write / bulk_write keep a record only if a new overridable accepts() says so: a conditional write decided by new code is refused; whether a subclass drops records it needs depends on the overrides (FC10r has the same base-class code)",
    "C10s": "records are collected per market and handed over once per step through new helpers (_write_log, _flush_logs): new sinks and deferred writes are refused; FC10s batches only within one round and is the same shape",
    "C16r": "a new helper of the runner switches the session's execution flag and the markets' running flags at break boundaries: a new writer of the session switch is refused; FC16r re-opens only what it closed and is the same shape",
    "C17r": "index of indices: the index loops distinguish components by class; what a component of another class contributes is not stated by the rule (FC17r uses the market price for every class, same shape)",
    "C18r": "markets are also listed under the names of the entries their group inherits from; the extra filing (driven by a new parameter) and the de-duplicated id list are refused; wrong only when the parent entry is itself a listed group, which is a fact about the configuration",
    "C20j": "the gap test moved into a new helper that rounds gap and threshold to tick levels: the direction table is read off comparisons of P, I and the threshold; a decision taken by new code on rounded values is refused (that rounding can swallow a gap above the threshold is arithmetic)",
    "C20o": "the decision is taken on a new accessor IndexMarket.get_premium(): a decision taken by new code is refused; which index the premium is measured against is inside the accessor",
    "C20q": "chart-following flag moved to a class attribute and its sign cached in the constructor: the chart term no longer reads the instance's flag where the rule looks for it; whether the cached sign can go stale is a question about later writers of the flag",
    "C01q": "non-top removals re-sort the queue with a key function instead of re-heapifying: a queue kept by sort() is refused (whether the key agrees with the comparison of orders, here: where market orders go on the buy side, is a question about the key; FC01q is a correct key of the same shape)",
    "C02q": "the heap holds key tuples built around the orders, with an arrival number taken from len(queue): entries around orders are refused (FC02q is the same shape without the number)",
    "C03q": "the queue kept as a sorted list with binary-search insertion while _execution still pops with heapq: mixed maintenance is refused",
    "C04q": "expiry index migrated to a heap of (time, order) tuples: another representation of the index than the dictionary of lists the rules decide (FC04q is a correct one)",
    "C10q": "expiry records prepared when the order is booked and kept next to it: records not built during the sweep are refused (FC10q re-reads every field at the sweep, same shape)",
    "C12q": "fundamental paths moved into numpy arrays behind a `prices` property: the rules follow the stored dictionary of lists only (FC12q is the correct migration)",
    "C14q": "session start times read from a table that is filled with the previous session's length: a running table is refused (FC14q fills it with the running sum, same shape)",
    "C16q": "halt start and halt count turned into properties over a list of halt times: computed state is refused (FC16q reads the last element instead of the first, same shape)",
    "C17f": "index value memoised per time step with the guard for the still-open step off by one: a getter answering from a table kept on the index market is refused since round 8 (whether a stored value is still current is a question about the guard and the invalidation; before that the report was the one a correctly guarded memo would get)",
    "C20h": "index value memoised per time step including the still-open step: as C17f",
    "C03c": "depth view memoised per book and consulted by the executability test: the only effect on the early-return path is inside the test itself; what the memo keeps is refused (C08.R5 refuses the memo too), since its corrected sibling FC08t has the same shape",
    "C08t": "depth view memoised per book, not dropped by the expiry sweep: stores to an attribute the reference tree does not have are a memo of the view; whether every writer of the queue drops it is not decided (FC08t validates the memo against the queue on every hit)",
    "C10t": "records dispatched through a table keyed by the exact class: no isinstance chain is left for C10.R5 to read; where an unknown or derived class ends up in a table dispatch is not followed (FC10t falls back to isinstance in the table's order)",
    "C04t": "early exit of the expiry sweep decided from a cached `next expiry` kept beside the index: a reaper decision that reads other state than the index and the clock needs an invariant over every writer of the index, which is not established",
    "C09t": "order / cancel / matching blocks of both phases pulled into one helper with an early return for cancels: the two-phase block structure C09.R2 decides is gone (the helper form is not modelled)",
    "C15t": "time-0 reference price memoised per market on the rule at first use: whether a table entry still equals the market's price at time 0 is not decided (the entry goes stale while step 0 is still trading)",
    "C16t": "time-0 reference price memoised per market on the rule at the first fill: same refusal as C15t",
    "C20t": "index value memoised per time step on the index market: whether a stored value is still the weighted average of what the components show now is not decided",
    "C09q": "duplicate hooks detected through sets keyed by (hook point, time, event id): a duplicate test against another collection than event_hooks is refused (FC09q keys the set by the hook itself)",
}

# --------------------------------------------------------------------------- seeded patches
def apply_patch(sources: Dict[str, str], diff: str) -> Optional[Dict[str, str]]:
    """apply a unified diff to in-memory sources; None if a hunk does not fit"""
    out: Dict[str, str] = {}
    files = re.split(r"^diff --git .*$", diff, flags=re.M)[1:]
    for chunk in files:
        m = re.search(r"^\+\+\+ b/(.+)$", chunk, flags=re.M)
        if not m:
            continue
        path = m.group(1).strip()
        if path not in sources:
            return None
        lines = sources[path].split("\n")
        res: List[str] = []
        pos = 0
        for hm in re.finditer(r"^@@ -(\d+)(?:,(\d+))? \+(\d+)(?:,(\d+))? @@.*\n((?:[ +\-\\].*\n?|\n)*)", chunk, flags=re.M):
            start = int(hm.group(1)) - 1
            body = hm.group(5).split("\n")
            if body and body[-1] == "":
                body = body[:-1]
            # locate the hunk (allow an offset if the tree has drifted)
            old = [b[1:] for b in body if b[:1] in (" ", "-")]
            found = None
            for off in sorted(range(-60, 61), key=abs):
                s0 = start + off
                if s0 >= pos and lines[s0:s0 + len(old)] == old:
                    found = s0
                    break
            if found is None:
                return None
            res.extend(lines[pos:found])
            for b in body:
                if b[:1] == " ":
                    res.append(b[1:])
                elif b[:1] == "+":
                    res.append(b[1:])
            pos = found + len(old)
        res.extend(lines[pos:])
        out[path] = "\n".join(res)
    return out


# --------------------------------------------------------------------------- workers
def _analyse(args: Tuple[str, Optional[str], Dict[str, str], str]) -> Tuple[str, int, List[str]]:
    prop, root, overlay, label = args
    from .driver import check

    try:
        rc = check(prop, "quick", root, overlay, quiet=True, write=False)
        insts = check.last_instances  # type: ignore[attr-defined]
        viol = sorted({i.rule for i in insts if i.verdict == "VIOLATED"})
        return label, rc, viol
    except BaseException as e:  # pragma: no cover
        return label, 2, [f"crash {type(e).__name__}: {e}"]


def run_for_property(prop: str, root: Optional[str] = None, max_mutants: int = 160, workers: int = 16) -> Dict[str, Any]:
    seed = int(os.environ.get("VERIF_SEED", "0") or 0)
    quals, sources = anchored_functions(prop, root)
    program = Program(root)
    by_file: Dict[str, List[str]] = {}
    for q in quals:
        by_file.setdefault(program.functions[q].file, []).append(q)
    jobs: List[Tuple[str, Optional[str], Dict[str, str], str]] = []
    # seeds
    seed_dir = os.path.join(VERIF, "seeded")
    seeds_total = 0
    seeds_skipped: List[str] = []
    if os.path.isdir(seed_dir):
        for name in sorted(os.listdir(seed_dir)):
            if not name.startswith(prop):
                continue
            pth = os.path.join(seed_dir, name, "patch.diff")
            if not os.path.exists(pth):
                continue
            ov = apply_patch(sources, open(pth).read())
            if ov is None:
                seeds_skipped.append(name)
                continue
            seeds_total += 1
            jobs.append((prop, root, ov, f"seed:{name}"))
    # committed behaviour-preserving variants (sub-agent refactorings, corrected seeded refactorings) that touch
    # a file this property's rules look at: never a violation
    ben_dir = os.path.join(VERIF, "seeded_benign")
    if os.path.isdir(ben_dir):
        mine = set(by_file)
        for name in sorted(os.listdir(ben_dir)):
            pth = os.path.join(ben_dir, name, "patch.diff")
            if not os.path.exists(pth):
                continue
            txt = open(pth).read()
            touched = set(re.findall(r"^\+\+\+ b/(\S+)", txt, re.M))
            if not any(any(f.endswith(t) for f in mine) for t in touched):
                continue
            ov = apply_patch(sources, txt)
            if ov is None:
                continue
            jobs.append((prop, root, ov, f"twin:refactoring {name}"))
    # twins and mutants
    mutants: List[Tuple[str, str, ast.Module]] = []
    ntw = 0
    for path, qs in sorted(by_file.items()):
        try:
            tree = ast.parse(sources[path])
        except SyntaxError:
            continue
        for q in qs:
            for tname, tf in TWINS.items():
                t2 = tf(tree, q)
                if t2 is None:
                    continue
                ntw += 1
                jobs.append((prop, root, {path: ast.unparse(t2)}, f"twin:{tname}:{q}"))
            for desc, t2 in gen_mutants(tree, q):
                mutants.append((path, desc, t2))
    # a private anchored method renamed across the package: read back under the rules' name (pamsa.renames)
    from .renames import _Renamer

    for q in quals:
        cls_, _, meth = q.partition(".")
        if ":" in q or "." in meth or not meth.startswith("_") or meth.startswith("__"):
            continue
        ov: Dict[str, str] = {}
        for path, src in sources.items():
            if meth not in src:
                continue
            t = ast.parse(src)
            _Renamer({meth: meth + "_renamed"}).visit(t)
            ov[path] = ast.unparse(t)
        ntw += 1
        jobs.append((prop, root, ov, f"twin:rename-private:{q}"))
    rnd = random.Random(seed)
    if len(mutants) > max_mutants:
        mutants = rnd.sample(mutants, max_mutants)
    for path, desc, t2 in mutants:
        jobs.append((prop, root, {path: ast.unparse(t2)}, f"mutant:{desc}"))
    results: List[Tuple[str, int, List[str]]] = []
    with ProcessPoolExecutor(max_workers=min(workers, max(1, len(jobs)))) as ex:
        for r in ex.map(_analyse, jobs, chunksize=4):
            results.append(r)
    seeds_caught = [l for l, rc, v in results if l.startswith("seed:") and rc == 1]
    seeds_outside = [l for l, rc, v in results if l.startswith("seed:") and rc == 2 and l.split(":", 1)[1] in OUTSIDE_MODEL]
    seeds_missed = [l for l, rc, v in results if l.startswith("seed:") and rc != 1 and l not in seeds_outside]
    tw = [(l, rc, v) for l, rc, v in results if l.startswith("twin:")]
    tw_noisy = [(l, v) for l, rc, v in tw if rc == 1]
    tw_unrec = [l for l, rc, v in tw if rc == 2]
    mu = [(l, rc, v) for l, rc, v in results if l.startswith("mutant:")]
    killed = [l for l, rc, v in mu if rc == 1]
    unrec_m = [l for l, rc, v in mu if rc == 2]
    survived = [l for l, rc, v in mu if rc == 0]
    floors = {}
    fp = os.path.join(VERIF, "selftest_floors.json")
    if os.path.exists(fp):
        floors = json.load(open(fp))
    floor = floors.get(prop, {}).get("min_detected_ratio", 0.0)
    detected = len(killed) + len(unrec_m)
    ratio = detected / len(mu) if mu else 1.0
    ok = not seeds_missed and not tw_noisy and ratio + 1e-9 >= floor
    lines = [
        f"SELFTEST property={prop} anchored_functions={len(quals)} seeds={len(seeds_caught)}/{seeds_total} caught (skipped: {len(seeds_skipped)}) "
        f"twins={len(tw) - len(tw_noisy) - len(tw_unrec)}/{len(tw)} silent ({len(tw_unrec)} unrecognised, {len(tw_noisy)} noisy) "
        f"mutants={len(killed)} violations + {len(unrec_m)} analysis-errors / {len(mu)} (ratio {ratio:.2f}, floor {floor:.2f})"
    ]
    for l in seeds_outside:
        lines.append(f"SELFTEST-OUTSIDE-MODEL {l}: reported as analysis error (exit 2), as recorded: {OUTSIDE_MODEL[l.split(':', 1)[1]]}")
    for l in seeds_missed:
        lines.append(f"SELFTEST-MISSED seeded change not reported: {l}")
    for l, v in tw_noisy:
        lines.append(f"SELFTEST-NOISY benign twin reported as violation: {l} by {v}")
    return {
        "ok": ok, "lines": lines,
        "selftest": {
            "anchored_functions": quals, "seeds_total": seeds_total, "seeds_caught": len(seeds_caught), "seeds_missed": seeds_missed, "seeds_outside_model": seeds_outside, "seeds_skipped": seeds_skipped,
            "twins_total": len(tw), "twins_silent": len(tw) - len(tw_noisy) - len(tw_unrec), "twins_unrecognised": tw_unrec[:40], "twins_noisy": [l for l, _ in tw_noisy],
            "mutants_total": len(mu), "mutants_killed": len(killed), "mutants_analysis_error": len(unrec_m), "mutants_survived_sample": survived[:25],
            "detected_ratio": round(ratio, 3), "floor": floor,
        },
    }


if __name__ == "__main__":
    p = sys.argv[1]
    r = run_for_property(p)
    print("\n".join(r["lines"]))
    st = r["selftest"]
    if "-v" in sys.argv:
        print("unrecognised twins:", *st["twins_unrecognised"], sep="\n  ")
        print("survived mutants:", *st["mutants_survived_sample"], sep="\n  ")
