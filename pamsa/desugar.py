"""Loops spelled with `while` that are `for` loops.

The rules are stated over `for x in xs` (one pass over a collection, a break when a cap is reached).  The same
loop can be spelled with an explicit iterator or an explicit index:

  it = iter(XS); END = object()                       i = 0
  while (x := next(it, END)) is not END: BODY         while i < len(xs) [and not C]: x = xs[i]; i += 1; BODY

  while True:                                          i = a
      x = next(it, END)                                while i <= b: BODY; i += 1
      if x is END [or C]: break
      BODY                                             flag = True
                                                       while flag: ... flag = False; continue ...

Each of these is rewritten, in the parsed tree and before anything is indexed, into the `for` / `while True ... break`
form -- only when the spelling is exactly the idiom (the iterator, the index, the sentinel and the flag are used for
nothing else), so that the rewritten function is the same function.  Anything short of the idiom is left as written.
"""
from __future__ import annotations

import ast
import copy
from typing import Dict, List, Optional, Tuple


def _names(node: ast.AST, name: str, ctx=None) -> List[ast.Name]:
    return [n for n in ast.walk(node) if isinstance(n, ast.Name) and n.id == name and (ctx is None or isinstance(n.ctx, ctx))]


def _assign_target_value(st: ast.stmt) -> Tuple[Optional[str], Optional[ast.expr]]:
    if isinstance(st, ast.Assign) and len(st.targets) == 1 and isinstance(st.targets[0], ast.Name):
        return st.targets[0].id, st.value
    if isinstance(st, ast.AnnAssign) and isinstance(st.target, ast.Name) and st.value is not None:
        return st.target.id, st.value
    return None, None


def _is_call(e: Optional[ast.AST], fn: str, nargs: int) -> bool:
    return isinstance(e, ast.Call) and isinstance(e.func, ast.Name) and e.func.id == fn and len(e.args) == nargs and not e.keywords


def _simple(e: ast.AST) -> bool:
    """a name or a chain of attribute reads (evaluating it again, a few simple statements later, gives the same object)"""
    while isinstance(e, ast.Attribute):
        e = e.value
    return isinstance(e, ast.Name)


def _own_level(stmts: List[ast.stmt], kinds) -> List[ast.stmt]:
    """statements of the given kinds that belong to this loop (not to a loop nested in it, not to a nested function)"""
    out: List[ast.stmt] = []

    def walk(ss: List[ast.stmt]) -> None:
        for s in ss:
            if isinstance(s, kinds):
                out.append(s)
            if isinstance(s, (ast.For, ast.While, ast.FunctionDef, ast.AsyncFunctionDef, ast.ClassDef)):
                continue
            for fld in ("body", "orelse", "finalbody"):
                walk(getattr(s, fld, []) or [])
            for h in getattr(s, "handlers", []) or []:
                walk(h.body)

    walk(stmts)
    return out


class _Fn:
    """rewrites inside one function; `fn` is consulted for whole-function use counts"""

    def __init__(self, fn: ast.AST, module_sentinels: set):
        self.fn = fn
        self.module_sentinels = module_sentinels
        self.changed = 0

    # -------------------------------------------------------------- helpers
    def _only_uses(self, name: str, allowed: List[ast.AST]) -> bool:
        ok_ids = {id(n) for a in allowed for n in ast.walk(a)}
        return all(id(n) in ok_ids for n in _names(self.fn, name))

    def _sentinel(self, e: ast.AST, before: List[ast.stmt]) -> Optional[ast.stmt]:
        """e names a value nothing else can be: a local bound once to object(), or such a module constant"""
        if not isinstance(e, ast.Name):
            return None
        if e.id in self.module_sentinels and not _names(self.fn, e.id, ast.Store):
            return ast.Pass()
        defs = [s for s in before if _assign_target_value(s)[0] == e.id]
        if len(defs) == 1 and _is_call(_assign_target_value(defs[0])[1], "object", 0) and len(_names(self.fn, e.id, ast.Store)) == 1:
            return defs[0]
        return None

    def _between_ok(self, stmts: List[ast.stmt], lo: int, hi: int) -> bool:
        """only plain bookkeeping between the initialisation and the loop: x = <constant / object() / iter(..) / name>"""
        for s in stmts[lo + 1:hi]:
            n, v = _assign_target_value(s)
            if n is None or not (isinstance(v, (ast.Constant, ast.Name, ast.Attribute)) or _is_call(v, "object", 0) or _is_call(v, "iter", 1) or (isinstance(v, ast.List) and not v.elts)):
                return False
        return True

    # -------------------------------------------------------------- iterator form
    def _iterator_loop(self, stmts: List[ast.stmt], k: int) -> Optional[List[ast.stmt]]:
        w = stmts[k]
        assert isinstance(w, ast.While)
        if w.orelse:
            return None
        target: Optional[str] = None
        nxt: Optional[ast.Call] = None
        end: Optional[ast.AST] = None
        body = list(w.body)
        extra_break: Optional[ast.expr] = None
        t = w.test
        if isinstance(t, ast.Compare) and len(t.ops) == 1 and isinstance(t.ops[0], ast.IsNot) and isinstance(t.left, ast.NamedExpr) and _is_call(t.left.value, "next", 2):
            target, nxt, end = t.left.target.id, t.left.value, t.comparators[0]
        elif isinstance(t, ast.Constant) and t.value is True and len(body) >= 2 and isinstance(body[1], ast.If) and not body[1].orelse \
                and len(body[1].body) == 1 and isinstance(body[1].body[0], ast.Break):
            n0, v0 = _assign_target_value(body[0])
            if n0 is None or not _is_call(v0, "next", 2):
                return None
            c = body[1].test
            first = c.values[0] if isinstance(c, ast.BoolOp) and isinstance(c.op, ast.Or) else c
            if not (isinstance(first, ast.Compare) and len(first.ops) == 1 and isinstance(first.ops[0], ast.Is) and isinstance(first.left, ast.Name) and first.left.id == n0):
                return None
            target, nxt, end = n0, v0, first.comparators[0]  # type: ignore[assignment]
            if isinstance(c, ast.BoolOp):
                rest = c.values[1:]
                extra_break = rest[0] if len(rest) == 1 else ast.BoolOp(op=ast.Or(), values=rest)
            body = body[2:]
        else:
            return None
        assert nxt is not None and end is not None and target is not None
        it = nxt.args[0]
        if not isinstance(it, ast.Name) or not isinstance(nxt.args[1], ast.Name) or not isinstance(end, ast.Name) or nxt.args[1].id != end.id:
            return None
        sdef = self._sentinel(end, stmts[:k])
        if sdef is None:
            return None
        idefs = [i for i, s in enumerate(stmts[:k]) if _assign_target_value(s)[0] == it.id]
        if len(idefs) != 1 or not _is_call(_assign_target_value(stmts[idefs[0]])[1], "iter", 1):
            return None
        src = _assign_target_value(stmts[idefs[0]])[1].args[0]  # type: ignore[union-attr]
        if not self._between_ok(stmts, idefs[0], k) or not (_simple(src) or idefs[0] == k - 1 or all(_is_call(_assign_target_value(s)[1], "object", 0) for s in stmts[idefs[0] + 1:k])):
            return None
        # the iterator and the sentinel serve this loop only
        if not self._only_uses(it.id, [stmts[idefs[0]], nxt]):
            return None
        # the sentinel is only ever handed to next() as the default and compared by identity (several loops may share it)
        ok_ids = set()
        for n in ast.walk(self.fn):
            if _is_call(n, "next", 2) and isinstance(n.args[1], ast.Name):
                ok_ids.add(id(n.args[1]))
            if isinstance(n, ast.Compare) and len(n.ops) == 1 and isinstance(n.ops[0], (ast.Is, ast.IsNot)):
                ok_ids.update(id(x) for x in [n.left] + list(n.comparators) if isinstance(x, ast.Name))
        if not isinstance(sdef, ast.Pass):
            ok_ids.update(id(x) for x in ast.walk(sdef))
        if any(id(n) not in ok_ids for n in _names(self.fn, end.id)):
            return None
        if extra_break is not None:
            body = [ast.If(test=extra_break, body=[ast.Break()], orelse=[])] + body
        if not body:
            body = [ast.Pass()]
        loop = ast.For(target=ast.Name(id=target, ctx=ast.Store()), iter=src, body=body, orelse=[], type_comment=None)
        ast.copy_location(loop, w)
        out = [s for i, s in enumerate(stmts[:k]) if i != idefs[0]] + [loop] + stmts[k + 1:]
        return [ast.fix_missing_locations(s) for s in out]

    # -------------------------------------------------------------- index form
    def _index_loop(self, stmts: List[ast.stmt], k: int) -> Optional[List[ast.stmt]]:
        w = stmts[k]
        assert isinstance(w, ast.While)
        if w.orelse:
            return None
        t = w.test
        extra: Optional[ast.expr] = None
        if isinstance(t, ast.BoolOp) and isinstance(t.op, ast.And) and len(t.values) >= 2:
            rest = t.values[1:]
            extra = rest[0] if len(rest) == 1 else ast.BoolOp(op=ast.And(), values=rest)
            t = t.values[0]
        if not (isinstance(t, ast.Compare) and len(t.ops) == 1 and isinstance(t.left, ast.Name)):
            return None
        i = t.left.id
        idefs = [j for j, s in enumerate(stmts[:k]) if _assign_target_value(s)[0] == i]
        if len(idefs) != 1 or not self._between_ok(stmts, idefs[0], k):
            return None
        init = _assign_target_value(stmts[idefs[0]])[1]
        incs = [s for s in ast.walk(w) if isinstance(s, ast.AugAssign) and isinstance(s.target, ast.Name) and s.target.id == i]
        if len(incs) != 1 or not isinstance(incs[0].op, ast.Add) or not (isinstance(incs[0].value, ast.Constant) and incs[0].value.value == 1) or incs[0] not in w.body:
            return None
        inc_at = w.body.index(incs[0])
        if len(_names(self.fn, i, ast.Store)) != 2:  # the initialisation and the increment
            return None
        conts = _own_level(w.body, (ast.Continue,))
        # a `continue` before the increment would repeat the element: not the idiom
        if conts and inc_at > 1:
            return None
        if inc_at <= 1 and any(c in w.body[:inc_at] for c in conts):
            return None
        body = [s for s in w.body if s is not incs[0]]
        bound = t.comparators[0]
        if isinstance(t.ops[0], ast.Lt) and _is_call(bound, "len", 1) and _simple(bound.args[0]) and isinstance(init, ast.Constant) and init.value == 0 and not isinstance(init.value, bool):
            xs = bound.args[0]
            xs_src = ast.unparse(xs)
            # the sequence is not rebound inside the loop
            root = xs
            while isinstance(root, ast.Attribute):
                root = root.value
            if isinstance(xs, ast.Name) and any(n for n in _names(w, xs.id, ast.Store)):
                return None
            fetches = [n for n in ast.walk(w) if isinstance(n, ast.Subscript) and isinstance(n.ctx, ast.Load) and ast.unparse(n.value) == xs_src and isinstance(n.slice, ast.Name) and n.slice.id == i]
            uses = [n for n in _names(w, i, ast.Load)]
            # every use of the index inside the loop: the test, the fetches; nothing after the loop
            if len(uses) != 1 + len(fetches) or not fetches:
                return None
            if not self._only_uses(i, [stmts[idefs[0]], w]):
                return None
            # fetches must read the current element: all of them before the increment
            pre = w.body[:inc_at]
            pre_ids = {id(n) for s in pre for n in ast.walk(s)}
            if any(id(fx) not in pre_ids for fx in fetches) and inc_at != len(w.body) - 1:
                return None
            n0, v0 = _assign_target_value(body[0]) if body else (None, None)
            if n0 is not None and v0 in fetches and len(fetches) == 1:
                tgt = n0
                body = body[1:]
            else:
                tgt = f"_{i}_element"
                rep = _Replace({id(fx): tgt for fx in fetches})
                body = [rep.visit(s) for s in body]
            if extra is not None:
                body = [ast.If(test=ast.UnaryOp(op=ast.Not(), operand=extra), body=[ast.Break()], orelse=[])] + body
            if not body:
                body = [ast.Pass()]
            loop = ast.For(target=ast.Name(id=tgt, ctx=ast.Store()), iter=xs, body=body, orelse=[], type_comment=None)
        elif isinstance(t.ops[0], (ast.LtE, ast.Lt)) and extra is None and inc_at == len(w.body) - 1 and not conts:
            # i = a; while i <= b: BODY; i += 1   ->   for i in range(a, b + 1): BODY      (b not rebound in BODY)
            if not isinstance(bound, (ast.Name, ast.Constant)) or (isinstance(bound, ast.Name) and _names(w, bound.id, ast.Store)):
                return None
            if not isinstance(init, (ast.Name, ast.Constant)):
                return None
            after = [n for s in stmts[k + 1:] for n in _names(s, i)]
            if after:
                return None
            hi = bound if isinstance(t.ops[0], ast.Lt) else ast.BinOp(left=bound, op=ast.Add(), right=ast.Constant(value=1))
            loop = ast.For(target=ast.Name(id=i, ctx=ast.Store()), iter=ast.Call(func=ast.Name(id="range", ctx=ast.Load()), args=[init, hi], keywords=[]), body=body or [ast.Pass()], orelse=[], type_comment=None)
        else:
            return None
        ast.copy_location(loop, w)
        out = [s for j, s in enumerate(stmts[:k]) if j != idefs[0]] + [loop] + stmts[k + 1:]
        return [ast.fix_missing_locations(s) for s in out]

    # -------------------------------------------------------------- flag form
    def _flag_loop(self, stmts: List[ast.stmt], k: int) -> Optional[List[ast.stmt]]:
        w = stmts[k]
        assert isinstance(w, ast.While)
        if w.orelse or not isinstance(w.test, ast.Name):
            return None
        flag = w.test.id
        fdefs = [j for j, s in enumerate(stmts[:k]) if _assign_target_value(s)[0] == flag]
        if len(fdefs) != 1 or not self._between_ok(stmts, fdefs[0], k):
            return None
        v = _assign_target_value(stmts[fdefs[0]])[1]
        if not (isinstance(v, ast.Constant) and v.value is True):
            return None
        if not self._only_uses(flag, [stmts[fdefs[0]], w]):
            return None
        hits = [0]

        def rewrite(ss: List[ast.stmt]) -> Optional[List[ast.stmt]]:
            out: List[ast.stmt] = []
            j = 0
            while j < len(ss):
                s = ss[j]
                n, val = _assign_target_value(s)
                if n == flag:
                    if isinstance(val, ast.Constant) and val.value is False and j + 1 < len(ss) and isinstance(ss[j + 1], ast.Continue):
                        b = ast.Break()
                        ast.copy_location(b, s)
                        out.append(b)
                        hits[0] += 1
                        j += 2
                        continue
                    return None
                if isinstance(s, (ast.For, ast.While, ast.FunctionDef, ast.AsyncFunctionDef, ast.ClassDef)):
                    if _names(s, flag):
                        return None
                    out.append(s)
                    j += 1
                    continue
                s2 = copy.copy(s)
                for fld in ("body", "orelse", "finalbody"):
                    sub = getattr(s, fld, None)
                    if isinstance(sub, list) and sub and isinstance(sub[0], ast.stmt):
                        r = rewrite(sub)
                        if r is None:
                            return None
                        setattr(s2, fld, r)
                if getattr(s, "handlers", None):
                    hs = []
                    for h in s.handlers:
                        r = rewrite(h.body)
                        if r is None:
                            return None
                        h2 = copy.copy(h)
                        h2.body = r
                        hs.append(h2)
                    s2.handlers = hs
                out.append(s2)
                j += 1
            return out

        nb = rewrite(w.body)
        if nb is None or not hits[0] or any(_names(s, flag) for s in nb):
            return None
        loop = ast.While(test=ast.Constant(value=True), body=nb, orelse=[])
        ast.copy_location(loop, w)
        out = [s for j, s in enumerate(stmts[:k]) if j != fdefs[0]] + [loop] + stmts[k + 1:]
        return [ast.fix_missing_locations(s) for s in out]

    # -------------------------------------------------------------- driver
    def block(self, stmts: List[ast.stmt]) -> List[ast.stmt]:
        progress = True
        while progress:
            progress = False
            for k, s in enumerate(stmts):
                if not isinstance(s, ast.While):
                    continue
                for rw in (self._iterator_loop, self._index_loop, self._flag_loop):
                    try:
                        r = rw(stmts, k)
                    except (AttributeError, IndexError, TypeError):
                        r = None
                    if r is not None:
                        stmts = r
                        self.changed += 1
                        progress = True
                        break
                if progress:
                    break
        for s in stmts:
            if isinstance(s, (ast.FunctionDef, ast.AsyncFunctionDef, ast.ClassDef)):
                continue
            for fld in ("body", "orelse", "finalbody"):
                sub = getattr(s, fld, None)
                if isinstance(sub, list) and sub and isinstance(sub[0], ast.stmt):
                    setattr(s, fld, self.block(sub))
            for h in getattr(s, "handlers", []) or []:
                h.body = self.block(h.body)
        return stmts


class _Replace(ast.NodeTransformer):
    def __init__(self, m: Dict[int, str]):
        self.m = m

    def visit(self, node: ast.AST) -> ast.AST:
        if id(node) in self.m:
            return ast.copy_location(ast.Name(id=self.m[id(node)], ctx=ast.Load()), node)
        return super().visit(node)


class _ListIadd(ast.NodeTransformer):
    """xs += [e]  ->  xs.append(e);  xs += [a, b]  ->  xs.extend([a, b])   (xs a local name: only a list takes a list with +=)"""

    def __init__(self) -> None:
        self.n = 0

    def visit_AugAssign(self, node: ast.AugAssign) -> ast.AST:
        if isinstance(node.op, ast.Add) and isinstance(node.target, ast.Name) and isinstance(node.value, ast.List) and node.value.elts and not any(isinstance(e, ast.Starred) for e in node.value.elts):
            self.n += 1
            single = len(node.value.elts) == 1
            call = ast.Call(func=ast.Attribute(value=ast.Name(id=node.target.id, ctx=ast.Load()), attr="append" if single else "extend", ctx=ast.Load()),
                            args=[node.value.elts[0] if single else node.value], keywords=[])
            return ast.fix_missing_locations(ast.copy_location(ast.Expr(value=call), node))
        return node


class _MinMax(ast.NodeTransformer):
    """a if a < b else b  ->  min(b, a), and the seven siblings (operands plain names / attribute chains / numbers, so
    evaluating them once instead of twice is the same).  With min(x, y) = y if y < x else x and max(x, y) = y if y > x
    else x the strict forms are exact; the non-strict forms return the other of two equal values."""

    def __init__(self) -> None:
        self.n = 0

    @staticmethod
    def _plain(e: ast.AST) -> bool:
        if isinstance(e, ast.Constant):
            return isinstance(e.value, (int, float)) and not isinstance(e.value, bool)
        if isinstance(e, ast.UnaryOp) and isinstance(e.op, ast.USub):
            return _MinMax._plain(e.operand)
        return _simple(e)

    def visit_IfExp(self, node: ast.IfExp) -> ast.AST:
        self.generic_visit(node)
        t = node.test
        if not (isinstance(t, ast.Compare) and len(t.ops) == 1 and isinstance(t.ops[0], (ast.Lt, ast.LtE, ast.Gt, ast.GtE))):
            return node
        a, b = t.left, t.comparators[0]
        if not (self._plain(a) and self._plain(b)):
            return node
        ua, ub, ubody, uelse = ast.unparse(a), ast.unparse(b), ast.unparse(node.body), ast.unparse(node.orelse)
        if ua == ub or {ubody, uelse} != {ua, ub}:
            return node
        less = isinstance(t.ops[0], (ast.Lt, ast.LtE))
        strict = isinstance(t.ops[0], (ast.Lt, ast.Gt))
        takes_left = ubody == ua  # the operand on the left of the comparison is returned when the test holds
        fn = "min" if less == takes_left else "max"
        # order of the arguments: min/max return their first argument unless the second is strictly smaller/greater
        if takes_left:
            args = [b, a] if strict else [a, b]
        else:
            args = [a, b] if strict else [b, a]
        self.n += 1
        return ast.fix_missing_locations(ast.copy_location(ast.Call(func=ast.Name(id=fn, ctx=ast.Load()), args=args, keywords=[]), node))


def desugar_module(tree: ast.Module) -> int:
    """rewrite in place; returns the number of loops rewritten"""
    sentinels = set()
    for s in tree.body:
        n, v = _assign_target_value(s)
        if n is not None and _is_call(v, "object", 0):
            if sum(1 for x in ast.walk(tree) if isinstance(x, ast.Name) and x.id == n and isinstance(x.ctx, ast.Store)) == 1:
                sentinels.add(n)
    li = _ListIadd()
    li.visit(tree)
    mm = _MinMax()
    mm.visit(tree)
    total = li.n + mm.n
    for fn in [n for n in ast.walk(tree) if isinstance(n, (ast.FunctionDef, ast.AsyncFunctionDef))]:
        f = _Fn(fn, sentinels)
        fn.body = f.block(fn.body)
        total += f.changed
    return total
