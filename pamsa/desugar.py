"""Loops spelled with `while` that are `for` loops.

The rules are stated over `for x in xs` (one pass over a collection, a break when a cap is reached).  The same
loop can be spelled with an explicit iterator or an explicit index:

  it = iter(XS); END = object()                       i = 0
  while (x := next(it, END)) is not END: BODY         while i < len(xs) [and not C]: x = xs[i]; i += 1; BODY

  while True:                                          i = a
      x = next(it, END)                                while i <= b: BODY; i += 1
      if x is END [or C]: break
      BODY                                             flag = True
                                                       while flag: ... flag = False; continue ...

Each of these is rewritten, in the parsed tree and before anything is indexed, into the `for` / `while True ... break`
form -- only when the spelling is exactly the idiom (the iterator, the index, the sentinel and the flag are used for
nothing else), so that the rewritten function is the same function.  Anything short of the idiom is left as written.
"""
from __future__ import annotations

import ast
import copy
from typing import Dict, List, Optional, Tuple


def _names(node: ast.AST, name: str, ctx=None) -> List[ast.Name]:
    return [n for n in ast.walk(node) if isinstance(n, ast.Name) and n.id == name and (ctx is None or isinstance(n.ctx, ctx))]


def _uses(node: ast.AST, name: str) -> List[ast.Name]:
    """occurrences of the variable `name` of the enclosing function: a comprehension that binds the same name has a variable
    of its own (only the iterable of its first generator is evaluated outside)"""
    out: List[ast.Name] = []

    def walk(n: ast.AST) -> None:
        if isinstance(n, (ast.ListComp, ast.SetComp, ast.DictComp, ast.GeneratorExp)):
            binds = any(isinstance(x, ast.Name) and x.id == name for g in n.generators for x in ast.walk(g.target))
            if binds:
                walk(n.generators[0].iter)
                return
        if isinstance(n, ast.Lambda) and any(a.arg == name for a in n.args.args + n.args.kwonlyargs + n.args.posonlyargs):
            return
        if isinstance(n, ast.Name) and n.id == name:
            out.append(n)
        for c in ast.iter_child_nodes(n):
            walk(c)

    walk(node)
    return out


def _assign_target_value(st: ast.stmt) -> Tuple[Optional[str], Optional[ast.expr]]:
    if isinstance(st, ast.Assign) and len(st.targets) == 1 and isinstance(st.targets[0], ast.Name):
        return st.targets[0].id, st.value
    if isinstance(st, ast.AnnAssign) and isinstance(st.target, ast.Name) and st.value is not None:
        return st.target.id, st.value
    return None, None


def _is_call(e: Optional[ast.AST], fn: str, nargs: int) -> bool:
    return isinstance(e, ast.Call) and isinstance(e.func, ast.Name) and e.func.id == fn and len(e.args) == nargs and not e.keywords


def _simple(e: ast.AST) -> bool:
    """a name or a chain of attribute reads (evaluating it again, a few simple statements later, gives the same object)"""
    while isinstance(e, ast.Attribute):
        e = e.value
    return isinstance(e, ast.Name)


def _own_level(stmts: List[ast.stmt], kinds) -> List[ast.stmt]:
    """statements of the given kinds that belong to this loop (not to a loop nested in it, not to a nested function)"""
    out: List[ast.stmt] = []

    def walk(ss: List[ast.stmt]) -> None:
        for s in ss:
            if isinstance(s, kinds):
                out.append(s)
            if isinstance(s, (ast.For, ast.While, ast.FunctionDef, ast.AsyncFunctionDef, ast.ClassDef)):
                continue
            for fld in ("body", "orelse", "finalbody"):
                walk(getattr(s, fld, []) or [])
            for h in getattr(s, "handlers", []) or []:
                walk(h.body)

    walk(stmts)
    return out


class _Fn:
    """rewrites inside one function; `fn` is consulted for whole-function use counts"""

    def __init__(self, fn: ast.AST, module_sentinels: set):
        self.fn = fn
        self.module_sentinels = module_sentinels
        self.changed = 0

    # -------------------------------------------------------------- helpers
    def _only_uses(self, name: str, allowed: List[ast.AST]) -> bool:
        ok_ids = {id(n) for a in allowed for n in ast.walk(a)}
        return all(id(n) in ok_ids for n in _names(self.fn, name))

    def _sentinel(self, e: ast.AST, before: List[ast.stmt]) -> Optional[ast.stmt]:
        """e names a value nothing else can be: a local bound once to object(), or such a module constant"""
        if not isinstance(e, ast.Name):
            return None
        if e.id in self.module_sentinels and not _names(self.fn, e.id, ast.Store):
            return ast.Pass()
        defs = [s for s in before if _assign_target_value(s)[0] == e.id]
        if len(defs) == 1 and _is_call(_assign_target_value(defs[0])[1], "object", 0) and len(_names(self.fn, e.id, ast.Store)) == 1:
            return defs[0]
        return None

    def _between_ok(self, stmts: List[ast.stmt], lo: int, hi: int) -> bool:
        """only plain bookkeeping between the initialisation and the loop: x = <constant / object() / iter(..) / name>"""
        for s in stmts[lo + 1:hi]:
            n, v = _assign_target_value(s)
            if n is None or not (isinstance(v, (ast.Constant, ast.Name, ast.Attribute)) or _is_call(v, "object", 0) or _is_call(v, "iter", 1) or (isinstance(v, ast.List) and not v.elts)):
                return False
        return True

    # -------------------------------------------------------------- iterator form
    def _iterator_loop(self, stmts: List[ast.stmt], k: int) -> Optional[List[ast.stmt]]:
        w = stmts[k]
        assert isinstance(w, ast.While)
        if w.orelse:
            return None
        target: Optional[str] = None
        nxt: Optional[ast.Call] = None
        end: Optional[ast.AST] = None
        second_next: Optional[ast.AST] = None
        body = list(w.body)
        extra_break: Optional[ast.expr] = None
        t = w.test
        if isinstance(t, ast.Compare) and len(t.ops) == 1 and isinstance(t.ops[0], ast.IsNot) and isinstance(t.left, ast.NamedExpr) and _is_call(t.left.value, "next", 2):
            target, nxt, end = t.left.target.id, t.left.value, t.comparators[0]
        elif isinstance(t, ast.Constant) and t.value is True and len(body) >= 2 and isinstance(body[1], ast.If) and not body[1].orelse \
                and len(body[1].body) == 1 and isinstance(body[1].body[0], ast.Break):
            n0, v0 = _assign_target_value(body[0])
            if n0 is None or not _is_call(v0, "next", 2):
                return None
            c = body[1].test
            first = c.values[0] if isinstance(c, ast.BoolOp) and isinstance(c.op, ast.Or) else c
            if not (isinstance(first, ast.Compare) and len(first.ops) == 1 and isinstance(first.ops[0], ast.Is) and isinstance(first.left, ast.Name) and first.left.id == n0):
                return None
            target, nxt, end = n0, v0, first.comparators[0]  # type: ignore[assignment]
            if isinstance(c, ast.BoolOp):
                rest = c.values[1:]
                extra_break = rest[0] if len(rest) == 1 else ast.BoolOp(op=ast.Or(), values=rest)
            body = body[2:]
        elif isinstance(t, ast.Compare) and len(t.ops) == 1 and isinstance(t.ops[0], ast.IsNot) and isinstance(t.left, ast.Name) and k >= 1 and len(body) >= 1:
            # x = next(it, END); while x is not END: BODY; x = next(it, END)
            n0, v0 = _assign_target_value(stmts[k - 1])
            n1, v1 = _assign_target_value(body[-1])
            if n0 != t.left.id or n1 != n0 or not _is_call(v0, "next", 2) or not _is_call(v1, "next", 2) or ast.unparse(v0) != ast.unparse(v1):
                return None
            if _own_level(body, (ast.Continue,)) or any(_names(b_, n0, ast.Store) for b_ in body[:-1]):
                return None
            target, nxt, end = n0, v0, t.comparators[0]  # type: ignore[assignment]
            body = body[:-1]
            # the priming statement goes, the advancing statement went with the body; both are the only uses of the iterator
            second_next = v1
            stmts = stmts[:k - 1] + [ast.Pass()] + stmts[k:]
        else:
            return None
        assert nxt is not None and end is not None and target is not None
        it = nxt.args[0]
        none_pair = isinstance(end, ast.Constant) and end.value is None and isinstance(nxt.args[1], ast.Constant) and nxt.args[1].value is None
        if not isinstance(it, ast.Name) or not (none_pair or (isinstance(nxt.args[1], ast.Name) and isinstance(end, ast.Name) and nxt.args[1].id == end.id)):
            return None
        none_end = isinstance(end, ast.Constant) and end.value is None and isinstance(nxt.args[1], ast.Constant) and nxt.args[1].value is None
        sdef = ast.Pass() if none_end else self._sentinel(end, stmts[:k])
        if sdef is None:
            return None
        idefs = [i for i, s in enumerate(stmts[:k]) if _assign_target_value(s)[0] == it.id]
        if len(idefs) != 1 or not _is_call(_assign_target_value(stmts[idefs[0]])[1], "iter", 1):
            return None
        src = _assign_target_value(stmts[idefs[0]])[1].args[0]  # type: ignore[union-attr]
        if none_end and not (isinstance(src, ast.Call) and isinstance(src.func, ast.Name) and src.func.id == "range"):
            return None  # None as the end marker is exact only where no element can be None: a range of numbers
        if not self._between_ok(stmts, idefs[0], k) or not (_simple(src) or idefs[0] == k - 1 or (isinstance(src, ast.Call) and isinstance(src.func, ast.Name) and src.func.id == "range") or all(_is_call(_assign_target_value(s)[1], "object", 0) for s in stmts[idefs[0] + 1:k])):
            return None
        # the iterator and the sentinel serve this loop only
        if not self._only_uses(it.id, [stmts[idefs[0]], nxt] + ([second_next] if second_next is not None else [])):
            return None
        # the sentinel is only ever handed to next() as the default and compared by identity (several loops may share it)
        ok_ids = set()
        if none_end:
            end = ast.Name(id="<none>", ctx=ast.Load())
        for n in ast.walk(self.fn):
            if _is_call(n, "next", 2) and isinstance(n.args[1], ast.Name):
                ok_ids.add(id(n.args[1]))
            if isinstance(n, ast.Compare) and len(n.ops) == 1 and isinstance(n.ops[0], (ast.Is, ast.IsNot)):
                ok_ids.update(id(x) for x in [n.left] + list(n.comparators) if isinstance(x, ast.Name))
        if not isinstance(sdef, ast.Pass):
            ok_ids.update(id(x) for x in ast.walk(sdef))
        if any(id(n) not in ok_ids for n in _names(self.fn, end.id)):
            return None
        if extra_break is not None:
            body = [ast.If(test=extra_break, body=[ast.Break()], orelse=[])] + body
        if not body:
            body = [ast.Pass()]
        loop = ast.For(target=ast.Name(id=target, ctx=ast.Store()), iter=src, body=body, orelse=[], type_comment=None)
        ast.copy_location(loop, w)
        if not any(_names(s_, target) for s_ in stmts[k + 1:]):
            loop = _fuse_unpack(loop)
        out = [s for i, s in enumerate(stmts[:k]) if i != idefs[0]] + [loop] + stmts[k + 1:]
        return [ast.fix_missing_locations(s) for s in out]

    # -------------------------------------------------------------- index form
    def _index_loop(self, stmts: List[ast.stmt], k: int) -> Optional[List[ast.stmt]]:
        w = stmts[k]
        assert isinstance(w, ast.While)
        if w.orelse:
            return None
        t = w.test
        extra: Optional[ast.expr] = None
        if isinstance(t, ast.BoolOp) and isinstance(t.op, ast.And) and len(t.values) >= 2:
            rest = t.values[1:]
            extra = rest[0] if len(rest) == 1 else ast.BoolOp(op=ast.And(), values=rest)
            t = t.values[0]
        if not (isinstance(t, ast.Compare) and len(t.ops) == 1 and isinstance(t.left, ast.Name)):
            return None
        i = t.left.id
        idefs = [j for j, s in enumerate(stmts[:k]) if _assign_target_value(s)[0] == i]
        if len(idefs) != 1 or not self._between_ok(stmts, idefs[0], k):
            return None
        init = _assign_target_value(stmts[idefs[0]])[1]
        incs = [s for s in ast.walk(w) if isinstance(s, ast.AugAssign) and isinstance(s.target, ast.Name) and s.target.id == i]
        if len(incs) != 1 or not isinstance(incs[0].op, ast.Add) or not (isinstance(incs[0].value, ast.Constant) and incs[0].value.value == 1) or incs[0] not in w.body:
            return None
        inc_at = w.body.index(incs[0])
        if len(_names(self.fn, i, ast.Store)) != 2:  # the initialisation and the increment
            return None
        conts = _own_level(w.body, (ast.Continue,))
        # a `continue` before the increment would repeat the element: not the idiom
        if conts and inc_at > 1:
            return None
        if inc_at <= 1 and any(c in w.body[:inc_at] for c in conts):
            return None
        body = [s for s in w.body if s is not incs[0]]
        bound = t.comparators[0]
        if isinstance(t.ops[0], ast.Lt) and _is_call(bound, "len", 1) and _simple(bound.args[0]) and isinstance(init, ast.Constant) and init.value == 0 and not isinstance(init.value, bool):
            xs = bound.args[0]
            xs_src = ast.unparse(xs)
            # the sequence is not rebound inside the loop
            root = xs
            while isinstance(root, ast.Attribute):
                root = root.value
            if isinstance(xs, ast.Name) and any(n for n in _names(w, xs.id, ast.Store)):
                return None
            fetches = [n for n in ast.walk(w) if isinstance(n, ast.Subscript) and isinstance(n.ctx, ast.Load) and ast.unparse(n.value) == xs_src and isinstance(n.slice, ast.Name) and n.slice.id == i]
            uses = [n for n in _names(w, i, ast.Load)]
            # every use of the index inside the loop: the test, the fetches; nothing after the loop
            if len(uses) != 1 + len(fetches) or not fetches:
                return None
            if not self._only_uses(i, [stmts[idefs[0]], w]):
                return None
            # fetches must read the current element: all of them before the increment
            pre = w.body[:inc_at]
            pre_ids = {id(n) for s in pre for n in ast.walk(s)}
            if any(id(fx) not in pre_ids for fx in fetches) and inc_at != len(w.body) - 1:
                return None
            n0, v0 = _assign_target_value(body[0]) if body else (None, None)
            if n0 is not None and v0 in fetches and len(fetches) == 1:
                tgt = n0
                body = body[1:]
            else:
                tgt = f"_{i}_element"
                rep = _Replace({id(fx): tgt for fx in fetches})
                body = [rep.visit(s) for s in body]
            if extra is not None:
                body = [ast.If(test=ast.UnaryOp(op=ast.Not(), operand=extra), body=[ast.Break()], orelse=[])] + body
            if not body:
                body = [ast.Pass()]
            loop = ast.For(target=ast.Name(id=tgt, ctx=ast.Store()), iter=xs, body=body, orelse=[], type_comment=None)
        elif isinstance(t.ops[0], (ast.LtE, ast.Lt)) and extra is None and inc_at == len(w.body) - 1 and not conts:
            # i = a; while i <= b: BODY; i += 1   ->   for i in range(a, b + 1): BODY      (b not rebound in BODY)
            if not isinstance(bound, (ast.Name, ast.Constant)) or (isinstance(bound, ast.Name) and _names(w, bound.id, ast.Store)):
                return None
            if not isinstance(init, (ast.Name, ast.Constant)):
                return None
            after = [n for s in stmts[k + 1:] for n in _names(s, i)]
            if after:
                return None
            hi = bound if isinstance(t.ops[0], ast.Lt) else ast.BinOp(left=bound, op=ast.Add(), right=ast.Constant(value=1))
            loop = ast.For(target=ast.Name(id=i, ctx=ast.Store()), iter=ast.Call(func=ast.Name(id="range", ctx=ast.Load()), args=[init, hi], keywords=[]), body=body or [ast.Pass()], orelse=[], type_comment=None)
        else:
            return None
        ast.copy_location(loop, w)
        out = [s for j, s in enumerate(stmts[:k]) if j != idefs[0]] + [loop] + stmts[k + 1:]
        return [ast.fix_missing_locations(s) for s in out]

    # -------------------------------------------------------------- flag form
    def _flag_loop(self, stmts: List[ast.stmt], k: int) -> Optional[List[ast.stmt]]:
        w = stmts[k]
        assert isinstance(w, ast.While)
        if w.orelse or not isinstance(w.test, ast.Name):
            return None
        flag = w.test.id
        fdefs = [j for j, s in enumerate(stmts[:k]) if _assign_target_value(s)[0] == flag]
        if len(fdefs) != 1 or not self._between_ok(stmts, fdefs[0], k):
            return None
        v = _assign_target_value(stmts[fdefs[0]])[1]
        if not (isinstance(v, ast.Constant) and v.value is True):
            return None
        if not self._only_uses(flag, [stmts[fdefs[0]], w]):
            return None
        hits = [0]

        def rewrite(ss: List[ast.stmt]) -> Optional[List[ast.stmt]]:
            out: List[ast.stmt] = []
            j = 0
            while j < len(ss):
                s = ss[j]
                n, val = _assign_target_value(s)
                if n == flag:
                    if isinstance(val, ast.Constant) and val.value is False and j + 1 < len(ss) and isinstance(ss[j + 1], ast.Continue):
                        b = ast.Break()
                        ast.copy_location(b, s)
                        out.append(b)
                        hits[0] += 1
                        j += 2
                        continue
                    return None
                if isinstance(s, (ast.For, ast.While, ast.FunctionDef, ast.AsyncFunctionDef, ast.ClassDef)):
                    if _names(s, flag):
                        return None
                    out.append(s)
                    j += 1
                    continue
                s2 = copy.copy(s)
                for fld in ("body", "orelse", "finalbody"):
                    sub = getattr(s, fld, None)
                    if isinstance(sub, list) and sub and isinstance(sub[0], ast.stmt):
                        r = rewrite(sub)
                        if r is None:
                            return None
                        setattr(s2, fld, r)
                if getattr(s, "handlers", None):
                    hs = []
                    for h in s.handlers:
                        r = rewrite(h.body)
                        if r is None:
                            return None
                        h2 = copy.copy(h)
                        h2.body = r
                        hs.append(h2)
                    s2.handlers = hs
                out.append(s2)
                j += 1
            return out

        nb = rewrite(w.body)
        if nb is None or not hits[0] or any(_names(s, flag) for s in nb):
            return None
        loop = ast.While(test=ast.Constant(value=True), body=nb, orelse=[])
        ast.copy_location(loop, w)
        out = [s for j, s in enumerate(stmts[:k]) if j != fdefs[0]] + [loop] + stmts[k + 1:]
        return [ast.fix_missing_locations(s) for s in out]

    # -------------------------------------------------------------- test at the head
    def _head_break(self, stmts: List[ast.stmt], k: int) -> Optional[List[ast.stmt]]:
        """while True: if T: break; REST   ->   while not T: REST"""
        w = stmts[k]
        assert isinstance(w, ast.While)
        if w.orelse or not (isinstance(w.test, ast.Constant) and w.test.value is True) or len(w.body) < 2:
            return None
        h = w.body[0]
        if not (isinstance(h, ast.If) and not h.orelse and len(h.body) == 1 and isinstance(h.body[0], ast.Break)):
            return None
        t = h.test
        if isinstance(t, ast.UnaryOp) and isinstance(t.op, ast.Not):
            nt: ast.expr = t.operand
        elif isinstance(t, ast.Compare) and len(t.ops) == 1 and isinstance(t.ops[0], (ast.NotIn, ast.In, ast.Is, ast.IsNot)):
            flip = {ast.NotIn: ast.In, ast.In: ast.NotIn, ast.Is: ast.IsNot, ast.IsNot: ast.Is}[type(t.ops[0])]
            nt = ast.Compare(left=t.left, ops=[flip()], comparators=t.comparators)
        else:
            nt = ast.UnaryOp(op=ast.Not(), operand=t)
        loop = ast.While(test=nt, body=w.body[1:], orelse=[])
        ast.copy_location(loop, w)
        return [ast.fix_missing_locations(s) for s in stmts[:k] + [loop] + stmts[k + 1:]]

    # -------------------------------------------------------------- driver
    def block(self, stmts: List[ast.stmt]) -> List[ast.stmt]:
        progress = True
        while progress:
            progress = False
            for k, s in enumerate(stmts):
                if not isinstance(s, ast.While):
                    continue
                for rw in (self._iterator_loop, self._index_loop, self._flag_loop, self._head_break):
                    try:
                        r = rw(stmts, k)
                    except (AttributeError, IndexError, TypeError):
                        r = None
                    if r is not None:
                        stmts = r
                        self.changed += 1
                        progress = True
                        break
                if progress:
                    break
        for s in stmts:
            if isinstance(s, (ast.FunctionDef, ast.AsyncFunctionDef, ast.ClassDef)):
                continue
            for fld in ("body", "orelse", "finalbody"):
                sub = getattr(s, fld, None)
                if isinstance(sub, list) and sub and isinstance(sub[0], ast.stmt):
                    setattr(s, fld, self.block(sub))
            for h in getattr(s, "handlers", []) or []:
                h.body = self.block(h.body)
        return stmts


def _fuse_unpack(loop: ast.For) -> ast.For:
    """for e in xs: a, b = e; BODY  ->  for a, b in xs: BODY   (e used for nothing else)"""
    if isinstance(loop.target, ast.Name) and loop.body and isinstance(loop.body[0], ast.Assign) and len(loop.body[0].targets) == 1 \
            and isinstance(loop.body[0].targets[0], (ast.Tuple, ast.List)) and isinstance(loop.body[0].value, ast.Name) and loop.body[0].value.id == loop.target.id \
            and all(isinstance(x, ast.Name) for x in loop.body[0].targets[0].elts):
        e = loop.target.id
        rest = loop.body[1:]
        if not any(_names(s_, e) for s_ in rest):
            loop.target = ast.Tuple(elts=[ast.Name(id=x.id, ctx=ast.Store()) for x in loop.body[0].targets[0].elts], ctx=ast.Store())
            loop.body = rest or [ast.Pass()]
    return loop


class _Replace(ast.NodeTransformer):
    def __init__(self, m: Dict[int, str]):
        self.m = m

    def visit(self, node: ast.AST) -> ast.AST:
        if id(node) in self.m:
            return ast.copy_location(ast.Name(id=self.m[id(node)], ctx=ast.Load()), node)
        return super().visit(node)


class _ListIadd(ast.NodeTransformer):
    """xs += [e]  ->  xs.append(e);  xs += [a, b]  ->  xs.extend([a, b])   (xs a local name: only a list takes a list with +=)"""

    def __init__(self) -> None:
        self.n = 0

    def visit_AugAssign(self, node: ast.AugAssign) -> ast.AST:
        if isinstance(node.op, ast.Add) and isinstance(node.target, ast.Name) and isinstance(node.value, ast.List) and node.value.elts and not any(isinstance(e, ast.Starred) for e in node.value.elts):
            self.n += 1
            single = len(node.value.elts) == 1
            call = ast.Call(func=ast.Attribute(value=ast.Name(id=node.target.id, ctx=ast.Load()), attr="append" if single else "extend", ctx=ast.Load()),
                            args=[node.value.elts[0] if single else node.value], keywords=[])
            return ast.fix_missing_locations(ast.copy_location(ast.Expr(value=call), node))
        return node


class _MinMax(ast.NodeTransformer):
    """a if a < b else b  ->  min(b, a), and the seven siblings (operands plain names / attribute chains / numbers, so
    evaluating them once instead of twice is the same).  With min(x, y) = y if y < x else x and max(x, y) = y if y > x
    else x the strict forms are exact; the non-strict forms return the other of two equal values."""

    def __init__(self) -> None:
        self.n = 0

    @staticmethod
    def _plain(e: ast.AST) -> bool:
        if isinstance(e, ast.Constant):
            return isinstance(e.value, (int, float)) and not isinstance(e.value, bool)
        if isinstance(e, ast.UnaryOp) and isinstance(e.op, ast.USub):
            return _MinMax._plain(e.operand)
        return _simple(e)

    def visit_IfExp(self, node: ast.IfExp) -> ast.AST:
        self.generic_visit(node)
        t = node.test
        if not (isinstance(t, ast.Compare) and len(t.ops) == 1 and isinstance(t.ops[0], (ast.Lt, ast.LtE, ast.Gt, ast.GtE))):
            return node
        a, b = t.left, t.comparators[0]
        if not (self._plain(a) and self._plain(b)):
            return node
        ua, ub, ubody, uelse = ast.unparse(a), ast.unparse(b), ast.unparse(node.body), ast.unparse(node.orelse)
        if ua == ub or {ubody, uelse} != {ua, ub}:
            return node
        less = isinstance(t.ops[0], (ast.Lt, ast.LtE))
        strict = isinstance(t.ops[0], (ast.Lt, ast.Gt))
        takes_left = ubody == ua  # the operand on the left of the comparison is returned when the test holds
        fn = "min" if less == takes_left else "max"
        # order of the arguments: min/max return their first argument unless the second is strictly smaller/greater
        if takes_left:
            args = [b, a] if strict else [a, b]
        else:
            args = [a, b] if strict else [b, a]
        self.n += 1
        return ast.fix_missing_locations(ast.copy_location(ast.Call(func=ast.Name(id=fn, ctx=ast.Load()), args=args, keywords=[]), node))


class _Clamp(ast.NodeTransformer):
    """if a > x: x = a  ->  x = max(x, a);  if a < x: x = a  ->  x = min(x, a)   (x a local name, a plain)"""

    def __init__(self) -> None:
        self.n = 0

    def visit_If(self, node: ast.If) -> ast.AST:
        self.generic_visit(node)
        if node.orelse or len(node.body) != 1:
            return node
        st = node.body[0]
        if not (isinstance(st, ast.Assign) and len(st.targets) == 1 and _simple(st.targets[0])):
            return node
        tnode, val = st.targets[0], st.value
        tgt = ast.unparse(tnode)
        t = node.test
        neg = False
        if isinstance(t, ast.UnaryOp) and isinstance(t.op, ast.Not):
            t, neg = t.operand, True
        if not (isinstance(t, ast.Compare) and len(t.ops) == 1 and isinstance(t.ops[0], (ast.Lt, ast.LtE, ast.Gt, ast.GtE))):
            return node
        l, r = t.left, t.comparators[0]
        uv = ast.unparse(val)
        if not _MinMax._plain(val) or uv == tgt:
            return node
        if ast.unparse(l) == tgt and ast.unparse(r) == uv:
            x_left = True
        elif ast.unparse(r) == tgt and ast.unparse(l) == uv:
            x_left = False
        else:
            return node
        less = isinstance(t.ops[0], (ast.Lt, ast.LtE)) != neg
        # x < a -> x = a : max;  x > a -> x = a : min;  a < x -> x = a : min;  a > x -> x = a : max
        fn = "max" if less == x_left else "min"
        self.n += 1
        load = copy.deepcopy(tnode)
        for sub in ast.walk(load):
            if hasattr(sub, "ctx"):
                sub.ctx = ast.Load()
        call = ast.Call(func=ast.Name(id=fn, ctx=ast.Load()), args=[load, val], keywords=[])
        new = ast.Assign(targets=[tnode], value=call, type_comment=None)
        return ast.fix_missing_locations(ast.copy_location(new, node))


def _search_loops(stmts: List[ast.stmt], fn: ast.AST) -> Tuple[List[ast.stmt], int]:
    """for t in XS: if t is m or t == m: break  else: ORELSE   ->   if m not in XS: ORELSE"""
    n = 0
    out: List[ast.stmt] = []
    for k, s in enumerate(stmts):
        for fld in ("body", "orelse", "finalbody"):
            sub = getattr(s, fld, None)
            if isinstance(sub, list) and sub and isinstance(sub[0], ast.stmt) and not isinstance(s, (ast.FunctionDef, ast.AsyncFunctionDef, ast.ClassDef)):
                r, m = _search_loops(sub, fn)
                setattr(s, fld, r)
                n += m
        # for m in XS: if not P(m): return R     ->     if not all(P(m) for m in XS): return R      (m dead afterwards)
        if isinstance(s, ast.For) and not s.orelse and isinstance(s.target, ast.Name) and len(s.body) == 1 and isinstance(s.body[0], ast.If) and not s.body[0].orelse \
                and len(s.body[0].body) == 1 and isinstance(s.body[0].body[0], ast.Return) and (s.body[0].body[0].value is None or isinstance(s.body[0].body[0].value, (ast.Name, ast.Constant))):
            t = s.target.id
            c = s.body[0].test
            pos: ast.expr = c.operand if isinstance(c, ast.UnaryOp) and isinstance(c.op, ast.Not) else ast.UnaryOp(op=ast.Not(), operand=c)
            used_after = any(_uses(x, t) for x in stmts[k + 1:])
            only_here = len(_uses(fn, t)) == len(_uses(s, t))
            if not used_after and only_here and not any(isinstance(x, (ast.NamedExpr, ast.Yield, ast.YieldFrom, ast.Await)) for x in ast.walk(c)):
                gen = ast.GeneratorExp(elt=pos, generators=[ast.comprehension(target=ast.Name(id=t, ctx=ast.Store()), iter=s.iter, ifs=[], is_async=0)])
                test = ast.UnaryOp(op=ast.Not(), operand=ast.Call(func=ast.Name(id="all", ctx=ast.Load()), args=[gen], keywords=[]))
                new = ast.If(test=test, body=s.body[0].body, orelse=[])
                out.append(ast.fix_missing_locations(ast.copy_location(new, s)))
                n += 1
                continue
        if isinstance(s, ast.For) and s.orelse and isinstance(s.target, ast.Name) and len(s.body) == 1 and isinstance(s.body[0], ast.If) and not s.body[0].orelse \
                and len(s.body[0].body) == 1 and isinstance(s.body[0].body[0], ast.Break):
            t = s.target.id
            c = s.body[0].test
            parts = c.values if isinstance(c, ast.BoolOp) and isinstance(c.op, ast.Or) else [c]
            needle = None
            good = True
            for part in parts:
                if not (isinstance(part, ast.Compare) and len(part.ops) == 1 and isinstance(part.ops[0], (ast.Is, ast.Eq))):
                    good = False
                    break
                a, b = part.left, part.comparators[0]
                other = b if isinstance(a, ast.Name) and a.id == t else (a if isinstance(b, ast.Name) and b.id == t else None)
                if other is None or not _simple(other) or (needle is not None and ast.unparse(other) != needle):
                    good = False
                    break
                needle = ast.unparse(other)
            has_eq = any(isinstance(part, ast.Compare) and isinstance(part.ops[0], ast.Eq) for part in parts)
            used_after = any(_uses(x, t) for x in stmts[k + 1:])
            only_here = len(_uses(fn, t)) == len(_uses(s, t))
            if good and has_eq and needle is not None and not used_after and only_here:
                test = ast.Compare(left=ast.parse(needle, mode="eval").body, ops=[ast.NotIn()], comparators=[s.iter])
                new = ast.If(test=test, body=s.orelse, orelse=[])
                out.append(ast.fix_missing_locations(ast.copy_location(new, s)))
                n += 1
                continue
        out.append(s)
    return out, n


def _append_loops(stmts: List[ast.stmt], fn: ast.AST) -> Tuple[List[ast.stmt], int]:
    """xs = []; for t in IT: xs.append(E)   ->   xs = [E for t in IT]     (E arithmetic on names, no calls; t dead after the loop)"""
    n = 0
    for s in stmts:
        for fld in ("body", "orelse", "finalbody"):
            sub = getattr(s, fld, None)
            if isinstance(sub, list) and sub and isinstance(sub[0], ast.stmt) and not isinstance(s, (ast.FunctionDef, ast.AsyncFunctionDef, ast.ClassDef)):
                r, m = _append_loops(sub, fn)
                setattr(s, fld, r)
                n += m
    out: List[ast.stmt] = []
    k = 0
    while k < len(stmts):
        s = stmts[k]
        nm, val = _assign_target_value(s)
        nxt = stmts[k + 1] if k + 1 < len(stmts) else None
        cond: Optional[ast.expr] = None
        if nm is not None and isinstance(nxt, ast.For) and len(nxt.body) == 1 and isinstance(nxt.body[0], ast.If) and not nxt.body[0].orelse and len(nxt.body[0].body) == 1 \
                and not any(isinstance(x, (ast.NamedExpr, ast.Yield, ast.YieldFrom, ast.Await, ast.Lambda)) for x in ast.walk(nxt.body[0].test)) and not _names(nxt.body[0].test, nm):
            # for t in IT: if C: xs.append(E)   ->   [E for t in IT if C]
            cond = nxt.body[0].test
            nxt = ast.For(target=nxt.target, iter=nxt.iter, body=nxt.body[0].body, orelse=nxt.orelse, type_comment=None)
        if nm is not None and isinstance(val, ast.List) and not val.elts and isinstance(nxt, ast.For) and not nxt.orelse and isinstance(nxt.target, ast.Name) and len(nxt.body) == 1 \
                and isinstance(nxt.body[0], ast.Expr) and isinstance(nxt.body[0].value, ast.Call) and isinstance(nxt.body[0].value.func, ast.Attribute) \
                and nxt.body[0].value.func.attr == "append" and isinstance(nxt.body[0].value.func.value, ast.Name) and nxt.body[0].value.func.value.id == nm \
                and len(nxt.body[0].value.args) == 1 and not nxt.body[0].value.keywords:
            elt = nxt.body[0].value.args[0]
            t = nxt.target.id
            pure = not any(isinstance(x, (ast.Call, ast.Await, ast.Yield, ast.YieldFrom, ast.NamedExpr, ast.Lambda)) for x in ast.walk(elt))
            dead = not any(_uses(x, t) for x in stmts[k + 2:]) and len(_uses(fn, t)) == len(_uses(stmts[k + 1], t))
            local_gen = isinstance(nxt.iter, ast.Call) and isinstance(nxt.iter.func, ast.Name) and nxt.iter.func.id not in ("range", "enumerate", "zip", "reversed", "sorted", "list", "tuple", "iter", "filter", "map")
            if pure and dead and not local_gen and not _names(elt, nm) and not _names(nxt.iter, nm):
                comp = ast.ListComp(elt=elt, generators=[ast.comprehension(target=ast.Name(id=t, ctx=ast.Store()), iter=nxt.iter, ifs=[cond] if cond is not None else [], is_async=0)])
                if isinstance(s, ast.AnnAssign):
                    new: ast.stmt = ast.AnnAssign(target=s.target, annotation=s.annotation, value=comp, simple=s.simple)
                else:
                    new = ast.Assign(targets=s.targets, value=comp, type_comment=None)  # type: ignore[attr-defined]
                out.append(ast.fix_missing_locations(ast.copy_location(new, s)))
                n += 1
                k += 2
                continue
        out.append(s)
        k += 1
    return out, n


def _dict_typed(e: ast.AST, fn: ast.AST, tree: ast.Module) -> bool:
    """e is a name or self.attr that is annotated / initialised as a dict somewhere in its scope"""
    def dicty(ann: Optional[ast.AST], val: Optional[ast.AST]) -> bool:
        a = ast.unparse(ann) if ann is not None else ""
        if a.startswith(("Dict[", "dict[", "typing.Dict[", "OrderedDict", "DefaultDict", "MutableMapping", "Mapping")) or a in ("Dict", "dict"):
            return True
        return isinstance(val, (ast.Dict, ast.DictComp)) or _is_call(val, "dict", 0)

    if isinstance(e, ast.Name):
        for n in ast.walk(fn):
            if isinstance(n, ast.AnnAssign) and isinstance(n.target, ast.Name) and n.target.id == e.id and dicty(n.annotation, n.value):
                return True
            if isinstance(n, ast.arg) and n.arg == e.id and dicty(n.annotation, None):
                return True
        return False
    if isinstance(e, ast.Attribute) and isinstance(e.value, ast.Name) and e.value.id == "self":
        for n in ast.walk(tree):
            if isinstance(n, ast.AnnAssign) and dicty(n.annotation, n.value):
                if isinstance(n.target, ast.Attribute) and isinstance(n.target.value, ast.Name) and n.target.value.id == "self" and n.target.attr == e.attr:
                    return True
                if isinstance(n.target, ast.Name) and n.target.id == e.attr:
                    return True
        return False
    return False


def _key_loops(stmts: List[ast.stmt], fn: ast.AST, tree: ast.Module) -> int:
    """for k in D: v = D[k]; BODY   ->   for k, v in D.items(): BODY   (for v in D.values() when k is used for nothing else)"""
    n = 0
    for k_, s in enumerate(stmts):
        for fld in ("body", "orelse", "finalbody"):
            sub = getattr(s, fld, None)
            if isinstance(sub, list) and sub and isinstance(sub[0], ast.stmt) and not isinstance(s, (ast.FunctionDef, ast.AsyncFunctionDef, ast.ClassDef)):
                n += _key_loops(sub, fn, tree)
        if not (isinstance(s, ast.For) and isinstance(s.target, ast.Name) and _simple(s.iter) and s.body and _dict_typed(s.iter, fn, tree)):
            continue
        key_, d = s.target.id, ast.unparse(s.iter)
        vn, vv = _assign_target_value(s.body[0])
        if vn is None or not (isinstance(vv, ast.Subscript) and ast.unparse(vv.value) == d and isinstance(vv.slice, ast.Name) and vv.slice.id == key_):
            # the look-ups sit deeper in the body: D[k] anywhere in it is the value that goes with k
            reads = [x for b_ in s.body for x in ast.walk(b_) if isinstance(x, ast.Subscript) and isinstance(x.ctx, ast.Load) and ast.unparse(x.value) == d and isinstance(x.slice, ast.Name) and x.slice.id == key_]
            written = any(isinstance(x, ast.Subscript) and isinstance(x.ctx, (ast.Store, ast.Del)) and ast.unparse(x.value) == d for b_ in s.body for x in ast.walk(b_)) \
                or any(isinstance(x, ast.Call) and isinstance(x.func, ast.Attribute) and ast.unparse(x.func.value) == d and x.func.attr in ("pop", "popitem", "clear", "update", "setdefault", "__setitem__", "__delitem__") for b_ in s.body for x in ast.walk(b_))
            if not reads or written or any(_names(x, key_, ast.Store) for x in s.body):
                continue
            vname = f"_{key_}_value"
            rep = _Replace({id(x): vname for x in reads})
            s.body = [rep.visit(b_) for b_ in s.body]
            s.target = ast.Tuple(elts=[ast.Name(id=key_, ctx=ast.Store()), ast.Name(id=vname, ctx=ast.Store())], ctx=ast.Store())
            s.iter = ast.Call(func=ast.Attribute(value=s.iter, attr="items", ctx=ast.Load()), args=[], keywords=[])
            b0 = s.body[0]
            if isinstance(b0, ast.Assign) and len(b0.targets) == 1 and isinstance(b0.targets[0], ast.Tuple) and isinstance(b0.value, ast.Name) and b0.value.id == key_ \
                    and all(isinstance(x, ast.Name) for x in b0.targets[0].elts) and not any(_names(x, key_) for x in s.body[1:]) and not any(_names(x, key_) for x in stmts[k_ + 1:]):
                s.target.elts[0] = ast.Tuple(elts=[ast.Name(id=x.id, ctx=ast.Store()) for x in b0.targets[0].elts], ctx=ast.Store())
                s.body = s.body[1:] or [ast.Pass()]
            ast.fix_missing_locations(s)
            n += 1
            continue
        rest = s.body[1:]
        # the dict itself is not written in the loop, the key is not rebound, the value name is not the key
        if vn == key_ or any(_names(x, key_, ast.Store) for x in rest) or any(isinstance(x, ast.Subscript) and isinstance(x.ctx, (ast.Store, ast.Del)) and ast.unparse(x.value) == d for r_ in rest for x in ast.walk(r_)):
            continue
        key_used = any(_names(x, key_) for x in rest) or any(_names(x, key_) for x in stmts[k_ + 1:])
        if key_used:
            s.target = ast.Tuple(elts=[ast.Name(id=key_, ctx=ast.Store()), ast.Name(id=vn, ctx=ast.Store())], ctx=ast.Store())
            s.iter = ast.Call(func=ast.Attribute(value=s.iter, attr="items", ctx=ast.Load()), args=[], keywords=[])
            # for k, v in D.items(): a, b = k; BODY  ->  for (a, b), v in D.items(): BODY
            if rest and isinstance(rest[0], ast.Assign) and len(rest[0].targets) == 1 and isinstance(rest[0].targets[0], ast.Tuple) and isinstance(rest[0].value, ast.Name) and rest[0].value.id == key_ \
                    and all(isinstance(x, ast.Name) for x in rest[0].targets[0].elts) and not any(_names(x, key_) for x in rest[1:]) and not any(_names(x, key_) for x in stmts[k_ + 1:]):
                s.target.elts[0] = ast.Tuple(elts=[ast.Name(id=x.id, ctx=ast.Store()) for x in rest[0].targets[0].elts], ctx=ast.Store())
                rest = rest[1:]
        else:
            s.target = ast.Name(id=vn, ctx=ast.Store())
            s.iter = ast.Call(func=ast.Attribute(value=s.iter, attr="values", ctx=ast.Load()), args=[], keywords=[])
        s.body = rest or [ast.Pass()]
        ast.fix_missing_locations(s)
        n += 1
    return n


def _module_constants(tree: ast.Module) -> Dict[str, object]:
    """module-level names bound once to a string / number / tuple of such, folded (`"a" + _SUFFIX`)"""
    env: Dict[str, object] = {}
    stores: Dict[str, int] = {}
    for n in ast.walk(tree):
        if isinstance(n, ast.Name) and isinstance(n.ctx, ast.Store):
            stores[n.id] = stores.get(n.id, 0) + 1

    def fold(e: ast.AST) -> object:
        if isinstance(e, ast.Constant) and isinstance(e.value, (str, int, float)) and not isinstance(e.value, bool):
            return e.value
        if isinstance(e, ast.Name) and e.id in env:
            return env[e.id]
        if isinstance(e, ast.BinOp) and isinstance(e.op, ast.Add):
            l, r = fold(e.left), fold(e.right)
            if isinstance(l, str) and isinstance(r, str):
                return l + r
        if isinstance(e, ast.Tuple):
            return tuple(fold(x) for x in e.elts)
        raise ValueError

    for st in tree.body:
        nm, val = _assign_target_value(st)
        if nm is None or val is None or stores.get(nm, 0) != 1:
            continue
        try:
            env[nm] = fold(val)
        except ValueError:
            continue
    return env


class _ConstComp(ast.NodeTransformer):
    """{k: E for k in CONST_TUPLE}  ->  {"a": E, "b": E, ...}   (E does not mention k and builds a new value each time)"""

    def __init__(self, env: Dict[str, object]):
        self.env = env
        self.n = 0

    def visit_DictComp(self, node: ast.DictComp) -> ast.AST:
        self.generic_visit(node)
        if len(node.generators) != 1:
            return node
        g = node.generators[0]
        if g.ifs or g.is_async or not isinstance(g.target, ast.Name) or not isinstance(g.iter, ast.Name) or g.iter.id not in self.env:
            return node
        vals = self.env[g.iter.id]
        if not isinstance(vals, tuple) or not vals or len(vals) > 40 or not all(isinstance(v, (str, int, float)) for v in vals) or len(set(vals)) != len(vals):
            return node
        if not (isinstance(node.key, ast.Name) and node.key.id == g.target.id) or _names(node.value, g.target.id):
            return node
        if any(isinstance(x, (ast.Call, ast.NamedExpr, ast.Await, ast.Yield, ast.YieldFrom)) for x in ast.walk(node.value)) and not (isinstance(node.value, ast.Call) and not node.value.args and not node.value.keywords and isinstance(node.value.func, ast.Name) and node.value.func.id in ("dict", "list", "set")):
            return node
        self.n += 1
        new = ast.Dict(keys=[ast.Constant(value=v) for v in vals], values=[copy.deepcopy(node.value) for _ in vals])
        return ast.fix_missing_locations(ast.copy_location(new, node))


def _comp_key_lookups(tree: ast.Module) -> int:
    """[... D[k] ... for k in D ...]   ->   [... v ... for k, v in D.items() ...]   (D annotated / initialised as a dict)"""
    n = 0
    fns = [x for x in ast.walk(tree) if isinstance(x, (ast.FunctionDef, ast.AsyncFunctionDef))]
    for fn in fns:
        for c in [x for x in ast.walk(fn) if isinstance(x, (ast.ListComp, ast.SetComp, ast.GeneratorExp, ast.DictComp))]:
            for gi, g in enumerate(c.generators):
                if not (isinstance(g.target, ast.Name) and _simple(g.iter) and _dict_typed(g.iter, fn, tree)):
                    continue
                k_, d = g.target.id, ast.unparse(g.iter)
                parts: List[ast.AST] = list(g.ifs) + [x for g2 in c.generators[gi + 1:] for x in [g2.iter] + list(g2.ifs)]
                parts += [c.key, c.value] if isinstance(c, ast.DictComp) else [c.elt]
                reads = [x for p_ in parts for x in ast.walk(p_) if isinstance(x, ast.Subscript) and isinstance(x.ctx, ast.Load) and ast.unparse(x.value) == d and isinstance(x.slice, ast.Name) and x.slice.id == k_]
                if not reads:
                    continue
                vname = f"_{k_}_value"
                rep = _Replace({id(x): vname for x in reads})
                g.ifs = [rep.visit(x) for x in g.ifs]
                for g2 in c.generators[gi + 1:]:
                    g2.iter = rep.visit(g2.iter)
                    g2.ifs = [rep.visit(x) for x in g2.ifs]
                if isinstance(c, ast.DictComp):
                    c.key, c.value = rep.visit(c.key), rep.visit(c.value)
                else:
                    c.elt = rep.visit(c.elt)
                g.target = ast.Tuple(elts=[ast.Name(id=k_, ctx=ast.Store()), ast.Name(id=vname, ctx=ast.Store())], ctx=ast.Store())
                g.iter = ast.Call(func=ast.Attribute(value=g.iter, attr="items", ctx=ast.Load()), args=[], keywords=[])
                ast.fix_missing_locations(c)
                n += 1
    return n


def _boolean(e: ast.AST) -> bool:
    """an expression whose value is True or False whatever its operands are"""
    if isinstance(e, ast.BoolOp):
        return all(_boolean(v) for v in e.values)
    if isinstance(e, ast.UnaryOp) and isinstance(e.op, ast.Not):
        return True
    if isinstance(e, ast.Compare):
        return all(isinstance(o, (ast.Is, ast.IsNot, ast.In, ast.NotIn)) for o in e.ops) or all(
            isinstance(x, (ast.Name, ast.Attribute, ast.Constant)) for x in [e.left] + list(e.comparators))
    if isinstance(e, ast.Call) and isinstance(e.func, ast.Name) and e.func.id in ("isinstance", "issubclass", "callable", "hasattr", "bool"):
        return True
    return isinstance(e, ast.Constant) and isinstance(e.value, bool)


class _BoolReturn(ast.NodeTransformer):
    """return <and/or/not over tests>   ->   if <...>: return True  else: return False   (the value is a bool either way)"""

    def __init__(self) -> None:
        self.n = 0

    def visit_Return(self, node: ast.Return) -> ast.AST:
        v = node.value
        if v is not None and (isinstance(v, ast.BoolOp) or (isinstance(v, ast.UnaryOp) and isinstance(v.op, ast.Not) and isinstance(v.operand, ast.BoolOp))) and _boolean(v):
            self.n += 1
            new = ast.If(test=v, body=[ast.Return(value=ast.Constant(value=True))], orelse=[ast.Return(value=ast.Constant(value=False))])
            return ast.fix_missing_locations(ast.copy_location(new, node))
        return node

    def visit_Lambda(self, node: ast.Lambda) -> ast.AST:
        return node


class _ListExtend(ast.NodeTransformer):
    """xs += E  ->  xs.extend(E)   for a local xs that is only ever bound to a new list"""

    def __init__(self) -> None:
        self.n = 0

    def visit_FunctionDef(self, fn: ast.FunctionDef) -> ast.AST:
        self.generic_visit(fn)
        own = [n for n in ast.walk(fn)]
        params = {a.arg for a in fn.args.posonlyargs + fn.args.args + fn.args.kwonlyargs}
        cands = {n.target.id for n in own if isinstance(n, ast.AugAssign) and isinstance(n.op, ast.Add) and isinstance(n.target, ast.Name) and not isinstance(n.value, (ast.Constant, ast.List))}
        for name in sorted(cands - params):
            ok = True
            bound = 0
            for n in own:
                tgt, val = (None, None)
                if isinstance(n, (ast.Assign, ast.AnnAssign)):
                    tgt, val = _assign_target_value(n)
                    if tgt is None and any(x.id == name for x in ast.walk(n) if isinstance(x, ast.Name) and isinstance(x.ctx, ast.Store)):
                        ok = False
                if tgt == name:
                    bound += 1
                    if not (isinstance(val, (ast.List, ast.ListComp)) or _is_call(val, "list", 0) or _is_call(val, "list", 1) or _is_call(val, "sorted", 1)):
                        ok = False
                if isinstance(n, (ast.For, ast.comprehension)) and any(isinstance(x, ast.Name) and x.id == name for x in ast.walk(n.target)):
                    ok = False
                if isinstance(n, (ast.Global, ast.Nonlocal)) and name in n.names:
                    ok = False
                if isinstance(n, ast.AugAssign) and isinstance(n.target, ast.Name) and n.target.id == name and not isinstance(n.op, ast.Add):
                    ok = False
            if not ok or not bound:
                continue
            for n in own:
                for fld in ("body", "orelse", "finalbody"):
                    sub = getattr(n, fld, None)
                    if not isinstance(sub, list):
                        continue
                    for j, st in enumerate(sub):
                        if isinstance(st, ast.AugAssign) and isinstance(st.op, ast.Add) and isinstance(st.target, ast.Name) and st.target.id == name:
                            call = ast.Call(func=ast.Attribute(value=ast.Name(id=name, ctx=ast.Load()), attr="extend", ctx=ast.Load()), args=[st.value], keywords=[])
                            sub[j] = ast.fix_missing_locations(ast.copy_location(ast.Expr(value=call), st))
                            self.n += 1
        return fn


def desugar_module(tree: ast.Module) -> int:
    """rewrite in place; returns the number of loops rewritten"""
    sentinels = set()
    for s in tree.body:
        n, v = _assign_target_value(s)
        if n is not None and _is_call(v, "object", 0):
            if sum(1 for x in ast.walk(tree) if isinstance(x, ast.Name) and x.id == n and isinstance(x.ctx, ast.Store)) == 1:
                sentinels.add(n)
    cc = _ConstComp(_module_constants(tree))
    cc.visit(tree)
    cc.n += _comp_key_lookups(tree)
    li = _ListIadd()
    li.visit(tree)
    mm = _MinMax()
    mm.visit(tree)
    cl = _Clamp()
    cl.visit(tree)
    total_search = 0
    for fn_ in [n for n in ast.walk(tree) if isinstance(n, (ast.FunctionDef, ast.AsyncFunctionDef))]:
        fn_.body, m_ = _search_loops(fn_.body, fn_)
        total_search += m_
    br = _BoolReturn()
    br.visit(tree)
    late = ("append-loops",)
    le = _ListExtend()
    le.visit(tree)
    total = li.n + mm.n + br.n + le.n + cl.n + total_search + cc.n
    for fn in [n for n in ast.walk(tree) if isinstance(n, (ast.FunctionDef, ast.AsyncFunctionDef))]:
        f = _Fn(fn, sentinels)
        fn.body = f.block(fn.body)
        total += f.changed
        fn.body, m_ = _append_loops(fn.body, fn)
        total += m_
        total += _key_loops(fn.body, fn, tree)
    return total
