"""Reading a tree whose private names were changed.

The rules name the functions and attributes they are stated in terms of (Market._fill_until,
Market._next_order_id, ...).  A maintainer may rename such a private name; the program is the
same program, and the rules should read it as such instead of refusing for a vanished anchor.

This module recognises a *pure rename* against a table of names recorded from the tree the rules
were confirmed on (reference_names.json, regenerated with tools/gen_reference.py) and rewrites the
identifier back in the parsed trees before anything is indexed.  A consistent renaming of an
identifier that occurs nowhere else is behaviour-preserving whatever the pairing, so the rewrite
itself cannot make a wrong program look right; the conditions below only make sure the *right*
function gets the anchor's name, so that a rule is never applied to an unrelated function:

  old  a method name / instance attribute of the reference tree that is no identifier at all in
       the current tree,
  new  a method name / instance attribute of the current tree that is no identifier at all in
       the reference tree,
  both of the same kind, defined in (stored by methods of) the same classes, with the same
  parameter names when methods, and referenced from exactly the same functions (after the
  renaming is applied to those functions' own names); the pairing is unique in both directions.

Anything short of that is left alone, and the rules refuse as before.
"""
from __future__ import annotations

import ast
import json
import os
from typing import Dict, List, Optional, Set, Tuple

_REF = os.path.join(os.path.dirname(os.path.abspath(__file__)), "reference_names.json")


def _functions(tree: ast.Module):
    """(class or None, function name, node) of module-level functions and methods."""
    for node in tree.body:
        if isinstance(node, ast.FunctionDef):
            yield None, node.name, node
        elif isinstance(node, ast.ClassDef):
            for sub in node.body:
                if isinstance(sub, ast.FunctionDef):
                    yield node.name, sub.name, sub


def describe(trees: Dict[str, ast.Module]) -> Dict[str, object]:
    """The name table of a set of parsed modules (relpath -> tree)."""
    idents: Set[str] = set()
    methods: Dict[str, Dict[str, List[str]]] = {}  # name -> {class: params}
    attrs: Dict[str, Set[str]] = {}  # name -> classes storing self.<name>
    refs: Dict[str, Set[str]] = {}  # name -> functions mentioning .<name>
    for rel, tree in trees.items():
        for n in ast.walk(tree):
            if isinstance(n, ast.Name):
                idents.add(n.id)
            elif isinstance(n, ast.Attribute):
                idents.add(n.attr)
            elif isinstance(n, (ast.FunctionDef, ast.ClassDef, ast.AsyncFunctionDef)):
                idents.add(n.name)
            elif isinstance(n, ast.arg):
                idents.add(n.arg)
            elif isinstance(n, ast.keyword) and n.arg:
                idents.add(n.arg)
            elif isinstance(n, ast.alias):
                idents.add((n.asname or n.name).split(".")[0])
            elif isinstance(n, ast.Constant) and isinstance(n.value, str) and n.value.isidentifier():
                idents.add(n.value)  # getattr(x, "name"), __slots__, ...
        for cname, fname, node in _functions(tree):
            q = f"{cname}.{fname}" if cname else f"{rel}:{fname}"
            if cname:
                a = node.args
                methods.setdefault(fname, {})[cname] = sorted(
                    x.arg for x in a.posonlyargs + a.args + a.kwonlyargs
                )
            for n in ast.walk(node):
                if isinstance(n, ast.Attribute):
                    refs.setdefault(n.attr, set()).add(q)
                    if (
                        cname
                        and isinstance(n.ctx, ast.Store)
                        and isinstance(n.value, ast.Name)
                        and n.value.id == "self"
                    ):
                        attrs.setdefault(n.attr, set()).add(cname)
    for m in methods:
        attrs.pop(m, None)
    return {
        "idents": sorted(idents),
        "methods": {k: methods[k] for k in sorted(methods)},
        "attrs": {k: sorted(v) for k, v in sorted(attrs.items())},
        "refs": {k: sorted(v) for k, v in sorted(refs.items()) if k in methods or k in attrs},
    }


def load_reference() -> Optional[Dict[str, object]]:
    try:
        with open(_REF, encoding="utf-8") as fh:
            return json.load(fh)
    except OSError:
        return None


def _kind(tab: Dict[str, object], name: str) -> Optional[str]:
    if name in tab["methods"]:  # type: ignore[operator]
        return "method"
    if name in tab["attrs"]:  # type: ignore[operator]
        return "attr"
    return None


def _shape(tab: Dict[str, object], name: str) -> Tuple:
    if name in tab["methods"]:  # type: ignore[operator]
        m = tab["methods"][name]  # type: ignore[index]
        return ("method", tuple(sorted((c, tuple(p)) for c, p in m.items())))
    return ("attr", tuple(tab["attrs"][name]))  # type: ignore[index]


def detect(trees: Dict[str, ast.Module], ref: Dict[str, object]) -> Dict[str, str]:
    """new -> old for every pure rename recognised (see the module docstring)."""
    cur = describe(trees)
    ref_ids, cur_ids = set(ref["idents"]), set(cur["idents"])  # type: ignore[arg-type]
    vanished = [n for n in list(ref["methods"]) + list(ref["attrs"]) if n not in cur_ids]  # type: ignore[arg-type]
    novel = [n for n in list(cur["methods"]) + list(cur["attrs"]) if n not in ref_ids]  # type: ignore[arg-type]
    if not vanished or not novel:
        return {}
    cand: Dict[str, List[str]] = {}
    for old in vanished:
        cand[old] = [new for new in novel if _shape(cur, new) == _shape(ref, old)]
    pairs: Dict[str, str] = {}
    for old, news in cand.items():
        if len(news) != 1:
            continue
        new = news[0]
        if sum(1 for o, ns in cand.items() if new in ns) != 1:
            continue
        pairs[new] = old

    def back(q: str, m: Dict[str, str]) -> str:
        head, sep, last = q.rpartition(".") if ":" not in q else q.rpartition(":")
        return f"{head}{sep}{m.get(last, last)}"

    # the referencing functions must be the same ones; drop pairs until stable
    while True:
        bad = [
            new
            for new, old in pairs.items()
            if {back(q, pairs) for q in cur["refs"].get(new, [])}  # type: ignore[union-attr]
            != set(ref["refs"].get(old, []))  # type: ignore[union-attr]
        ]
        if not bad:
            break
        for b in bad:
            del pairs[b]
    return pairs


class _Renamer(ast.NodeVisitor):
    def __init__(self, m: Dict[str, str]):
        self.m = m

    def generic_visit(self, node: ast.AST) -> None:
        if isinstance(node, ast.Attribute) and node.attr in self.m:
            node.attr = self.m[node.attr]
        elif isinstance(node, ast.FunctionDef) and node.name in self.m:
            node.name = self.m[node.name]
        super().generic_visit(node)


def canonicalise(trees: Dict[str, ast.Module]) -> Dict[str, str]:
    """Rewrite recognised renames in place; returns new -> old (empty when nothing was renamed,
    when the reference table is absent, or when PAMSA_NO_RENAMES is set)."""
    if os.environ.get("PAMSA_NO_RENAMES"):
        return {}
    ref = load_reference()
    if ref is None:
        return {}
    m = detect(trees, ref)
    if m:
        r = _Renamer(m)
        for t in trees.values():
            r.visit(t)
    return m
