"""L1: annotation-driven type inference (sufficient to resolve receivers in pams).

Types are plain tuples:
  ('cls', Name) ('list', T) ('dict', K, V) ('opt', T) ('tuple', (T,...)) ('set', T)
  ('type', T) ('prim', name) ('union', (T,...)) ('iter', T) ('unk',)

The repository annotates cross-module references as string forward references guarded by
`# type: ignore`; those are resolved here by (unique) class name.
"""
from __future__ import annotations

import ast
from typing import Dict, List, Optional, Tuple

from .loader import ClassInfo, FuncInfo, ModuleInfo, Program

Type = tuple
UNK: Type = ("unk",)

_PRIMS = {"int", "float", "bool", "str", "bytes", "object", "complex"}
_LISTY = {"List", "list", "Sequence", "MutableSequence"}
_ITERY = {"Iterable", "Iterator", "Collection", "Generator"}
_DICTY = {"Dict", "dict", "Mapping", "MutableMapping", "OrderedDict", "DefaultDict"}
_SETY = {"Set", "set", "FrozenSet", "frozenset"}


def _name_of(node: ast.AST) -> Optional[str]:
    if isinstance(node, ast.Name):
        return node.id
    if isinstance(node, ast.Attribute):
        b = _name_of(node.value)
        return f"{b}.{node.attr}" if b else node.attr
    return None


def parse_ann(node: Optional[ast.AST], program: Program) -> Type:
    if node is None:
        return UNK
    if isinstance(node, ast.Constant):
        if node.value is None:
            return ("prim", "None")
        if isinstance(node.value, str):
            try:
                return parse_ann(ast.parse(node.value, mode="eval").body, program)
            except SyntaxError:
                return UNK
        return UNK
    if isinstance(node, (ast.Name, ast.Attribute)):
        n = _name_of(node) or ""
        short = n.split(".")[-1]
        if n in _PRIMS:
            return ("prim", n)
        if n == "None":
            return ("prim", "None")
        if short in program.classes:
            return ("cls", short)
        if short in _LISTY:
            return ("list", UNK)
        if short in _DICTY:
            return ("dict", UNK, UNK)
        if short in _SETY:
            return ("set", UNK)
        if short in ("Any", "T"):
            return UNK
        if short == "Type":
            return ("type", UNK)
        if short == "Callable":
            return ("callable",)
        return ("cls", n)  # external class, e.g. random.Random, np.ndarray
    if isinstance(node, ast.Subscript):
        head = (_name_of(node.value) or "").split(".")[-1]
        sl = node.slice
        args = list(sl.elts) if isinstance(sl, ast.Tuple) else [sl]
        if head in _LISTY:
            return ("list", parse_ann(args[0], program))
        if head in _ITERY:
            return ("iter", parse_ann(args[0], program))
        if head in _DICTY and len(args) == 2:
            return ("dict", parse_ann(args[0], program), parse_ann(args[1], program))
        if head in _SETY:
            return ("set", parse_ann(args[0], program))
        if head == "Optional":
            return ("opt", parse_ann(args[0], program))
        if head == "Union":
            ts = [parse_ann(a, program) for a in args]
            non = [t for t in ts if t != ("prim", "None")]
            if len(non) == 1 and len(ts) == 2:
                return ("opt", non[0])
            return ("union", tuple(ts))
        if head in ("Tuple", "tuple"):
            return ("tuple", tuple(parse_ann(a, program) for a in args))
        if head == "Type":
            return ("type", parse_ann(args[0], program))
        if head == "Callable":
            return ("callable",)
        return UNK
    if isinstance(node, ast.BinOp) and isinstance(node.op, ast.BitOr):
        l, r = parse_ann(node.left, program), parse_ann(node.right, program)
        if r == ("prim", "None"):
            return ("opt", l)
        if l == ("prim", "None"):
            return ("opt", r)
        return ("union", (l, r))
    return UNK


def strip_opt(t: Type) -> Type:
    while t and t[0] == "opt":
        t = t[1]
    return t


def class_of(t: Type) -> Optional[str]:
    t = strip_opt(t)
    if t and t[0] == "cls":
        return t[1]
    return None


def elem_type(t: Type) -> Type:
    t = strip_opt(t)
    if t[0] in ("list", "set", "iter"):
        return t[1]
    if t[0] == "dict":
        return t[1]  # iterating a dict yields keys
    if t[0] == "tuple" and t[1]:
        ts = set(t[1])
        return t[1][0] if len(ts) == 1 else UNK
    return UNK


class ClassTable:
    """Attribute types per class, inherited through the MRO."""

    def __init__(self, program: Program):
        self.program = program
        self.attrs: Dict[str, Dict[str, Type]] = {c: {} for c in program.classes}
        self._collect_annotated()
        self._collect_inferred()

    def _collect_annotated(self) -> None:
        p = self.program
        for cname, ci in p.classes.items():
            tab = self.attrs[cname]
            for name, ann in ci.class_annotations.items():
                tab[name] = parse_ann(ann, p)
            for m in ci.methods.values():
                if m.is_property:
                    tab.setdefault(m.name, parse_ann(m.node.returns, p))
                for node in ast.walk(m.node):
                    if (
                        isinstance(node, ast.AnnAssign)
                        and isinstance(node.target, ast.Attribute)
                        and isinstance(node.target.value, ast.Name)
                        and node.target.value.id == "self"
                    ):
                        t = parse_ann(node.annotation, p)
                        if t != UNK:
                            tab.setdefault(node.target.attr, t)

    def _collect_inferred(self) -> None:
        p = self.program
        for _ in range(2):
            for cname, ci in p.classes.items():
                tab = self.attrs[cname]
                for m in ci.methods.values():
                    env = None
                    for node in ast.walk(m.node):
                        if not isinstance(node, ast.Assign):
                            continue
                        for tg in node.targets:
                            if (
                                isinstance(tg, ast.Attribute)
                                and isinstance(tg.value, ast.Name)
                                and tg.value.id == "self"
                                and tg.attr not in tab
                            ):
                                if env is None:
                                    env = TypeEnv(p, m, self)
                                t = env.type_of(node.value)
                                if t != UNK:
                                    tab[tg.attr] = t

    def attr_type(self, cname: str, attr: str) -> Type:
        for c in self.program.mro(cname):
            t = self.attrs.get(c, {}).get(attr)
            if t is not None:
                return t
        return UNK

    def has_attr(self, cname: str, attr: str) -> bool:
        for c in self.program.mro(cname):
            if attr in self.attrs.get(c, {}) or attr in self.program.classes[c].methods:
                return True
        return False


class TypeEnv:
    """Flow-insensitive local types of one function (first annotation wins)."""

    def __init__(self, program: Program, func: FuncInfo, ctab: Optional[ClassTable] = None):
        self.program = program
        self.func = func
        self.ctab = ctab
        self.vars: Dict[str, Type] = {}
        self._outer: Optional[TypeEnv] = None
        if func.outer is not None:
            self._outer = TypeEnv(program, func.outer, ctab)
        self._init_params()
        self._scan()

    def _init_params(self) -> None:
        a = self.func.node.args
        allargs = a.posonlyargs + a.args + a.kwonlyargs
        for i, arg in enumerate(allargs):
            t = parse_ann(arg.annotation, self.program)
            if (
                i == 0
                and self.func.cls is not None
                and not self.func.is_static
                and self.func.outer is None
                and arg.annotation is None
            ):
                t = ("cls", self.func.cls.name)
            self.vars[arg.arg] = t
        if a.vararg:
            self.vars[a.vararg.arg] = ("tuple", ())
        if a.kwarg:
            self.vars[a.kwarg.arg] = ("dict", ("prim", "str"), UNK)

    def _bind(self, target: ast.AST, t: Type, force: bool = False) -> None:
        if isinstance(target, ast.Name):
            if force or self.vars.get(target.id, UNK) == UNK:
                self.vars[target.id] = t
        elif isinstance(target, (ast.Tuple, ast.List)):
            st = strip_opt(t)
            for i, el in enumerate(target.elts):
                if st[0] == "tuple" and i < len(st[1]):
                    self._bind(el, st[1][i], force)
                else:
                    self._bind(el, UNK, force)

    def _scan(self) -> None:
        own = self.func.node
        # two passes so that uses before (textual) definitions of helper vars resolve
        for _ in range(2):
            for node in self._walk_own(own):
                if isinstance(node, ast.AnnAssign) and isinstance(node.target, ast.Name):
                    t = parse_ann(node.annotation, self.program)
                    self._bind(node.target, t, force=t != UNK)
                elif isinstance(node, ast.Assign):
                    t = self.type_of(node.value)
                    narrowing = isinstance(node.value, ast.Call) and isinstance(node.value.func, ast.Name) and node.value.func.id == "cast" and t != UNK
                    for tg in node.targets:
                        self._bind(tg, t, force=narrowing)  # x = cast(T, x) re-types x
                elif isinstance(node, (ast.For, ast.comprehension)):
                    it = self.type_of(node.iter)
                    self._bind(node.target, self._iter_elem(node.iter, it))
                elif isinstance(node, ast.NamedExpr):
                    self._bind(node.target, self.type_of(node.value))
                elif isinstance(node, ast.Lambda):
                    pass

    def _walk_own(self, root: ast.AST):
        for node in ast.iter_child_nodes(root):
            if isinstance(node, ast.FunctionDef):
                continue
            yield node
            yield from self._walk_own(node)

    def _iter_elem(self, iter_node: ast.AST, it: Type) -> Type:
        # x.items() -> tuple(K, V); x.values() -> V; x.keys() -> K; enumerate/zip
        if isinstance(iter_node, ast.Call) and isinstance(iter_node.func, ast.Attribute):
            base = strip_opt(self.type_of(iter_node.func.value))
            if base[0] == "dict":
                if iter_node.func.attr == "items":
                    return ("tuple", (base[1], base[2]))
                if iter_node.func.attr == "values":
                    return base[2]
                if iter_node.func.attr == "keys":
                    return base[1]
        if isinstance(iter_node, ast.Call) and isinstance(iter_node.func, ast.Name):
            fn = iter_node.func.id
            if fn == "enumerate" and iter_node.args:
                return (
                    "tuple",
                    (("prim", "int"), elem_type(self.type_of(iter_node.args[0]))),
                )
            if fn == "zip":
                return ("tuple", tuple(elem_type(self.type_of(a)) for a in iter_node.args))
            if fn == "range":
                return ("prim", "int")
            if fn in ("filter",) and len(iter_node.args) == 2:
                return elem_type(self.type_of(iter_node.args[1]))
            if fn in ("sorted", "reversed", "list", "set", "tuple") and iter_node.args:
                return elem_type(self.type_of(iter_node.args[0]))
        return elem_type(it)

    def lookup(self, name: str) -> Type:
        if name in self.vars:
            return self.vars[name]
        if self._outer is not None:
            return self._outer.lookup(name)
        if name in self.program.classes:
            return ("type", ("cls", name))
        return UNK

    # ---------------------------------------------------------------- expressions
    def type_of(self, e: ast.AST) -> Type:
        p = self.program
        if isinstance(e, ast.Name):
            return self.lookup(e.id)
        if isinstance(e, ast.Constant):
            v = e.value
            if v is None:
                return ("prim", "None")
            return ("prim", type(v).__name__)
        if isinstance(e, ast.Attribute):
            bt = self.type_of(e.value)
            c = class_of(bt)
            if c and c in p.classes and self.ctab is not None:
                t = self.ctab.attr_type(c, e.attr)
                if t != UNK:
                    return t
                m = p.lookup_method(c, e.attr)
                if m is not None:
                    return ("callable",)
            return UNK
        if isinstance(e, ast.Subscript):
            bt = strip_opt(self.type_of(e.value))
            if isinstance(e.slice, ast.Slice):
                return bt
            if bt[0] == "list":
                return bt[1]
            if bt[0] == "dict":
                return bt[2]
            if bt[0] == "tuple" and isinstance(e.slice, ast.Constant) and isinstance(e.slice.value, int):
                i = e.slice.value
                if -len(bt[1]) <= i < len(bt[1]):
                    return bt[1][i]
            return UNK
        if isinstance(e, ast.Call):
            return self._call_type(e)
        if isinstance(e, ast.IfExp):
            a, b = self.type_of(e.body), self.type_of(e.orelse)
            if a == ("prim", "None"):
                return ("opt", b) if b != UNK else UNK
            if b == ("prim", "None"):
                return ("opt", a) if a != UNK else UNK
            return a if a != UNK else b
        if isinstance(e, (ast.List, ast.ListComp)):
            if isinstance(e, ast.List):
                ts = [self.type_of(x.value if isinstance(x, ast.Starred) else x) for x in e.elts]
                ts = [
                    elem_type(t) if isinstance(x, ast.Starred) else t
                    for t, x in zip(ts, e.elts)
                ]
                ts = [t for t in ts if t != UNK]
                return ("list", ts[0] if ts else UNK)
            sub = _CompEnv(self, e.generators)
            return ("list", sub.type_of(e.elt))
        if isinstance(e, ast.Dict):
            return ("dict", UNK, UNK)
        if isinstance(e, (ast.Set, ast.SetComp)):
            return ("set", UNK)
        if isinstance(e, ast.Tuple):
            return ("tuple", tuple(self.type_of(x) for x in e.elts))
        if isinstance(e, ast.Compare):
            return ("prim", "bool")
        if isinstance(e, ast.BoolOp):
            return self.type_of(e.values[-1])
        if isinstance(e, ast.UnaryOp):
            if isinstance(e.op, ast.Not):
                return ("prim", "bool")
            return self.type_of(e.operand)
        if isinstance(e, ast.BinOp):
            l, r = self.type_of(e.left), self.type_of(e.right)
            if strip_opt(l)[0] == "list":
                return l
            if ("prim", "float") in (l, r) or isinstance(e.op, ast.Div):
                return ("prim", "float")
            return l if l != UNK else r
        if isinstance(e, ast.JoinedStr):
            return ("prim", "str")
        if isinstance(e, ast.Starred):
            return self.type_of(e.value)
        return UNK

    def _call_type(self, e: ast.Call) -> Type:
        p = self.program
        f = e.func
        if isinstance(f, ast.Name):
            n = f.id
            if n == "cast" and len(e.args) == 2:
                return parse_ann(e.args[0], p)
            if n in p.classes:
                return ("cls", n)
            tv = self.lookup(n)
            if tv[0] == "type" and tv[1] != UNK:
                return tv[1]
            if n in ("int", "len"):
                return ("prim", "int")
            if n in ("float",):
                return ("prim", "float")
            if n in ("str", "repr"):
                return ("prim", "str")
            if n in ("bool", "isinstance", "issubclass", "any", "all", "hasattr"):
                return ("prim", "bool")
            if n in ("list", "sorted"):
                if e.args:
                    return ("list", self._iter_elem(e.args[0], self.type_of(e.args[0])))
                return ("list", UNK)
            if n in ("dict",):
                return ("dict", UNK, UNK)
            if n in ("set",):
                return ("set", UNK)
            if n == "range":
                return ("iter", ("prim", "int"))
            if n in ("filter",) and len(e.args) == 2:
                return ("iter", elem_type(self.type_of(e.args[1])))
            if n in ("min", "max") and e.args:
                if len(e.args) == 1:
                    return elem_type(self.type_of(e.args[0]))
                return self.type_of(e.args[0])
            # module-level or nested function
            fi = self.resolve_plain(n)
            if fi is not None:
                return parse_ann(fi.node.returns, p)
            return UNK
        if isinstance(f, ast.Attribute):
            # heapq.heappop(list[T]) -> T
            nm = _name_of(f)
            if nm in ("heapq.heappop",) and e.args:
                return elem_type(self.type_of(e.args[0]))
            if nm in ("random.Random",):
                return ("cls", "random.Random")
            if (
                isinstance(f.value, ast.Call)
                and isinstance(f.value.func, ast.Name)
                and f.value.func.id == "super"
                and self.func.cls is not None
            ):
                owner = self.func if self.func.outer is None else self.func.outer
                m = p.lookup_super_method(owner.cls.name, f.attr) if owner.cls else None
                return parse_ann(m.node.returns, p) if m else UNK
            bt = strip_opt(self.type_of(f.value))
            if bt[0] == "cls" and bt[1] in p.classes:
                m = p.lookup_method(bt[1], f.attr)
                if m is not None:
                    return parse_ann(m.node.returns, p)
                return UNK
            if bt[0] == "dict":
                if f.attr in ("get", "pop", "setdefault"):
                    return bt[2]
                if f.attr == "values":
                    return ("iter", bt[2])
                if f.attr == "keys":
                    return ("iter", bt[1])
                if f.attr == "items":
                    return ("iter", ("tuple", (bt[1], bt[2])))
                if f.attr == "copy":
                    return bt
            if bt[0] == "list":
                if f.attr == "pop":
                    return bt[1]
                if f.attr == "copy":
                    return bt
            if bt[0] == "cls" and bt[1].endswith("Random"):
                if f.attr in ("sample", "choices"):
                    return ("list", elem_type(self.type_of(e.args[0]))) if e.args else UNK
                if f.attr in ("random", "gauss", "uniform"):
                    return ("prim", "float")
                if f.attr == "randint":
                    return ("prim", "int")
                if f.attr == "choice" and e.args:
                    return elem_type(self.type_of(e.args[0]))
            return UNK
        return UNK

    def resolve_plain(self, name: str) -> Optional[FuncInfo]:
        fn: Optional[FuncInfo] = self.func
        while fn is not None:
            if name in fn.nested:
                return fn.nested[name]
            fn = fn.outer
        mod = self.func.module
        if name in mod.functions:
            return mod.functions[name]
        tgt = mod.imports.get(name)
        if tgt:
            modname, _, fname = tgt.rpartition(".")
            m = self.program.modules.get(modname)
            if m and fname in m.functions:
                return m.functions[fname]
            # re-export through a package __init__
            if m and fname in m.imports:
                modname2, _, fname2 = m.imports[fname].rpartition(".")
                m2 = self.program.modules.get(modname2)
                if m2 and fname2 in m2.functions:
                    return m2.functions[fname2]
        return None


class _CompEnv(TypeEnv):
    """Environment extended with comprehension targets."""

    def __init__(self, parent: TypeEnv, generators: List[ast.comprehension]):
        self.program = parent.program
        self.func = parent.func
        self.ctab = parent.ctab
        self.vars = dict(parent.vars)
        self._outer = parent._outer
        for g in generators:
            it = self.type_of(g.iter)
            self._bind(g.target, self._iter_elem(g.iter, it), force=True)


class LambdaEnv(TypeEnv):
    def __init__(self, parent: TypeEnv, lam: ast.Lambda, arg_types: List[Type]):
        self.program = parent.program
        self.func = parent.func
        self.ctab = parent.ctab
        self.vars = dict(parent.vars)
        self._outer = parent._outer
        for a, t in zip(lam.args.args, arg_types + [UNK] * len(lam.args.args)):
            self.vars[a.arg] = t
