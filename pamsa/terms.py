"""L5: term language, normal forms (polynomial / comparator) and finite-world evaluation.

Terms are immutable nested tuples:
  ('const', v) ('sym', name) ('bound', name) ('attr', base, name[, ver]) ('sub', base, idx[, ver])
  ('call', func, args, kwargs, occ)   occ None = pure (structural identity) else unique id
  ('bin', op, l, r) ('un', op, x) ('cmp', op, l, r) ('bool', 'and'|'or', (t,...)) ('not', x)
  ('ifexp', c, a, b) ('tuple', (t,...)) ('list', (t,...)) ('set', (t,...)) ('dict', ((k, v),...))
  ('lambda', (params,...), body) ('comp', kind, elt, gens) ('slice', lo, hi, step) ('star', t)
  ('dstar', t) ('name', dotted)  -- reference to a module-level / external name
  ('fstr',) ('opaque', text)
"""
from __future__ import annotations

from fractions import Fraction
from typing import Any, Callable, Dict, Iterable, List, Optional, Tuple

Term = tuple

NONE: Term = ("const", None)
TRUE: Term = ("const", True)
FALSE: Term = ("const", False)


class Unrecognised(Exception):
    """A construct outside the idioms the rule understands (-> ANALYSIS-ERROR, exit 2)."""


def const(v: Any) -> Term:
    return ("const", v)


def sym(n: str) -> Term:
    return ("sym", n)


def attr(b: Term, n: str) -> Term:
    return ("attr", b, n)


def sub(b: Term, i: Term) -> Term:
    return ("sub", b, i)


def is_const(t: Term) -> bool:
    return t[0] == "const"


_BINSYM = {
    "Add": "+", "Sub": "-", "Mult": "*", "Div": "/", "FloorDiv": "//", "Mod": "%", "Pow": "**",
    "BitOr": "|", "BitAnd": "&", "BitXor": "^", "LShift": "<<", "RShift": ">>", "MatMult": "@",
}
_CMPSYM = {
    "Eq": "==", "NotEq": "!=", "Lt": "<", "LtE": "<=", "Gt": ">", "GtE": ">=", "Is": "is",
    "IsNot": "is not", "In": "in", "NotIn": "not in",
}


def key(t: Term) -> str:
    """Stable, readable rendering used as atom key and in reports."""
    k = t[0]
    if k == "const":
        return repr(t[1])
    if k in ("sym", "bound", "name"):
        return t[1]
    if k == "attr":
        s = f"{key(t[1])}.{t[2]}"
        if len(t) > 3 and t[3]:
            s += f"@{t[3]}"
        return s
    if k == "sub":
        s = f"{key(t[1])}[{key(t[2])}]"
        if len(t) > 3 and t[3]:
            s += f"@{t[3]}"
        return s
    if k == "call":
        args = [key(a) for a in t[2]] + [f"{n}={key(v)}" for n, v in t[3]]
        s = f"{key(t[1])}({', '.join(args)})"
        if t[4] is not None:
            s += f"#{t[4]}"
        return s
    if k == "bin":
        return f"({key(t[2])} {t[1]} {key(t[3])})"
    if k == "un":
        return f"({t[1]}{key(t[2])})"
    if k == "cmp":
        return f"({key(t[2])} {t[1]} {key(t[3])})"
    if k == "bool":
        return "(" + f" {t[1]} ".join(key(x) for x in t[2]) + ")"
    if k == "not":
        return f"(not {key(t[1])})"
    if k == "ifexp":
        return f"({key(t[2])} if {key(t[1])} else {key(t[3])})"
    if k in ("tuple", "list", "set"):
        o, c = {"tuple": "()", "list": "[]", "set": "{}"}[k]
        return o + ", ".join(key(x) for x in t[1]) + c
    if k == "dict":
        return "{" + ", ".join(f"{key(a)}: {key(b)}" for a, b in t[1]) + "}"
    if k == "lambda":
        return f"(lambda {', '.join(t[1])}: {key(t[2])})"
    if k == "comp":
        gens = " ".join(
            f"for {','.join(g[0])} in {key(g[1])}" + "".join(f" if {key(c)}" for c in g[2])
            for g in t[3]
        )
        return f"<{t[1]} {key(t[2])} {gens}>"
    if k == "slice":
        return ":".join("" if x is None else key(x) for x in t[1:4])
    if k == "star":
        return "*" + key(t[1])
    if k == "dstar":
        return "**" + key(t[1])
    if k == "fstr":
        return "<fstr>"
    if k == "opaque":
        return f"<{t[1]}>"
    return repr(t)


def map_children(t: Term, r: Callable[[Term], Term]) -> Term:
    """Rebuild t with r applied to every direct sub-term (version tags are kept)."""
    k = t[0]
    if k == "attr":
        return ("attr", r(t[1]), *t[2:])
    if k == "sub":
        return ("sub", r(t[1]), r(t[2]), *t[3:])
    if k == "call":
        return ("call", r(t[1]), tuple(r(a) for a in t[2]), tuple((n, r(v)) for n, v in t[3]), t[4])
    if k in ("bin", "cmp"):
        return (k, t[1], r(t[2]), r(t[3]))
    if k == "un":
        return (k, t[1], r(t[2]))
    if k in ("not", "star", "dstar"):
        return (k, r(t[1]))
    if k == "bool":
        return (k, t[1], tuple(r(x) for x in t[2]))
    if k == "ifexp":
        return (k, r(t[1]), r(t[2]), r(t[3]))
    if k in ("tuple", "list", "set"):
        return (k, tuple(r(x) for x in t[1]))
    if k == "dict":
        return (k, tuple((None if a is None else r(a), r(b)) for a, b in t[1]))
    if k == "lambda":
        return (k, t[1], r(t[2]))
    if k == "comp":
        return (k, t[1], r(t[2]), tuple((g[0], r(g[1]), tuple(r(c) for c in g[2])) for g in t[3]))
    if k == "slice":
        return (k, *(None if x is None else r(x) for x in t[1:4]))
    return t


def strip_ver(t: Term) -> Term:
    """Drop version tags, call occurrence ids and @epoch markers (the syntactic access path)."""
    if t is None:
        return ("sym", "<no term>")  # e.g. the iterable of a while loop: matches nothing, crashes nothing
    if not isinstance(t, tuple) or not t:
        return t
    k = t[0]
    if k == "attr":
        return ("attr", strip_ver(t[1]), t[2])
    if k == "sub":
        return ("sub", strip_ver(t[1]), strip_ver(t[2]))
    if k == "call":
        return (
            "call",
            strip_ver(t[1]),
            tuple(strip_ver(a) for a in t[2]),
            tuple((n, strip_ver(v)) for n, v in t[3] if n != "@epoch"),
            None,
        )
    return map_children(t, strip_ver)


def subterms(t: Term) -> Iterable[Term]:
    yield t
    k = t[0]
    if k == "attr":
        yield from subterms(t[1])
    elif k == "sub":
        yield from subterms(t[1])
        yield from subterms(t[2])
    elif k == "call":
        yield from subterms(t[1])
        for a in t[2]:
            yield from subterms(a)
        for _, v in t[3]:
            yield from subterms(v)
    elif k in ("bin", "cmp"):
        yield from subterms(t[2])
        yield from subterms(t[3])
    elif k in ("un",):
        yield from subterms(t[2])
    elif k in ("not", "star", "dstar"):
        yield from subterms(t[1])
    elif k == "bool":
        for x in t[2]:
            yield from subterms(x)
    elif k == "ifexp":
        for x in t[1:4]:
            yield from subterms(x)
    elif k in ("tuple", "list", "set"):
        for x in t[1]:
            yield from subterms(x)
    elif k == "dict":
        for a, b in t[1]:
            if a is not None:
                yield from subterms(a)
            yield from subterms(b)
    elif k == "lambda":
        yield from subterms(t[2])
    elif k == "comp":
        yield from subterms(t[2])
        for g in t[3]:
            yield from subterms(g[1])
            for c in g[2]:
                yield from subterms(c)
    elif k == "slice":
        for x in t[1:4]:
            if x is not None:
                yield from subterms(x)


def mentions(t: Term, pred: Callable[[Term], bool]) -> bool:
    return any(pred(s) for s in subterms(t))


def substitute(t: Term, mapping: Dict[Term, Term]) -> Term:
    if t in mapping:
        return mapping[t]
    return map_children(t, lambda x: substitute(x, mapping))


# ----------------------------------------------------------------------------- sequence normal form
_SEQ_KINDS = ("listcomp", "genexp", "seq")


def _is_name_call(t: Term, name: str) -> bool:
    return t[0] == "call" and t[1] == ("name", name)


def normalise(t: Term) -> Term:
    """Canonical form of sequence-building expressions, bottom-up:
    list/tuple/iter(X) -> X;  map(lambda p: e, S) -> [e for p in S];
    filter(lambda p: c, S) -> [p for p in S if c];  list- and generator-comprehensions are one
    kind ('seq');  sum([E for ..], []) with E a sequence -> the flattened comprehension."""
    t = map_children(t, normalise)
    k = t[0]
    if k == "comp" and t[1] in ("listcomp", "genexp"):
        t = ("comp", "seq", t[2], t[3])
    if k == "comp" and t[1] == "seq":
        # fusion: [f(m) for m in [g(x) for x in S if c] if d]  ->  [f(g(x)) for x in S if c if d[m := g(x)]]
        gens = list(t[3])
        elt = t[2]
        changed = False
        i = 0
        while i < len(gens):
            names, it, conds = gens[i]
            if len(names) == 1 and it[0] == "comp" and it[1] == "seq":
                inner_names = {n for g in it[3] for n in g[0]}
                outer_names = {n for g in gens for n in g[0]}
                if not (inner_names & outer_names):
                    b = ("bound", names[0])
                    sub = {b: it[2]}
                    new_conds = tuple(substitute(c, sub) for c in conds)
                    inner = list(it[3])
                    if new_conds:
                        ln, li, lc = inner[-1]
                        inner[-1] = (ln, li, tuple(lc) + new_conds)
                    rest = [(n2, substitute(i2, sub), tuple(substitute(c2, sub) for c2 in c3)) for n2, i2, c3 in gens[i + 1:]]
                    gens = gens[:i] + inner + rest
                    elt = substitute(elt, sub)
                    changed = True
                    continue
            i += 1
        if changed:
            return ("comp", "seq", elt, tuple(gens))
        return t
    if k == "call" and t[1][0] == "name" and not t[3]:
        fn = t[1][1]
        if fn in ("list", "tuple", "iter") and len(t[2]) == 1 and t[2][0][0] == "comp" and t[2][0][1] == "seq":
            return t[2][0]
        if fn == "map" and len(t[2]) == 2 and t[2][0][0] == "lambda" and len(t[2][0][1]) == 1:
            lam = t[2][0]
            return ("comp", "seq", lam[2], (((lam[1][0],), t[2][1], ()),))
        if fn == "filter" and len(t[2]) == 2 and t[2][0][0] == "lambda" and len(t[2][0][1]) == 1:
            lam = t[2][0]
            return ("comp", "seq", ("bound", lam[1][0]), (((lam[1][0],), t[2][1], (lam[2],)),))
        if fn == "sum" and len(t[2]) == 2 and t[2][0][0] == "comp" and t[2][0][1] == "seq" and (t[2][1] in (("list", ()),) or (t[2][1][0] == "sym" and t[2][1][1].startswith("new") and t[2][1][1].endswith(":list"))):
            outer = t[2][0]
            inner = outer[2]
            if inner[0] == "comp" and inner[1] == "seq":
                return ("comp", "seq", inner[2], tuple(outer[3]) + tuple(inner[3]))
            return ("comp", "seq", ("bound", "_flat"), tuple(outer[3]) + ((("_flat",), inner, ()),))
    # map(operator.attrgetter('a'), xs) / map(operator.methodcaller('m'), xs): the element-wise read / call
    if k == "call" and t[1] == ("name", "map") and not t[3] and len(t[2]) == 2 and t[2][0][0] == "call" and not t[2][0][3] and t[2][0][2] and t[2][0][2][0][0] == "const" and isinstance(t[2][0][2][0][1], str):
        fk = key(t[2][0][1])
        nm = t[2][0][2][0][1]
        if fk in ("operator.attrgetter", "attrgetter") and len(t[2][0][2]) == 1 and "." not in nm:
            return normalise(("comp", "seq", ("attr", ("bound", "_x"), nm), ((("_x",), t[2][1], ()),)))
        if fk in ("operator.methodcaller", "methodcaller"):
            return normalise(("comp", "seq", ("call", ("attr", ("bound", "_x"), nm), tuple(t[2][0][2][1:]), (), None), ((("_x",), t[2][1], ()),)))
    # itertools.chain.from_iterable(X) walks the elements of the elements of X, like sum(X, []);
    # itertools.chain(a, b) walks a then b, like a + b
    if k == "call" and key(t[1]) in ("itertools.chain.from_iterable", "chain.from_iterable") and not t[3] and len(t[2]) == 1:
        x = t[2][0]
        if x[0] == "comp" and x[1] in ("seq", "listcomp", "genexp"):
            return normalise(("call", ("name", "sum"), (("comp", "seq", x[2], x[3]), ("list", ())), (), None))
    if k == "call" and key(t[1]) in ("itertools.chain", "chain") and not t[3] and len(t[2]) >= 2:
        acc = t[2][0]
        for nxt in t[2][1:]:
            acc = ("bin", "+", acc, nxt)
        return acc
    # functools.reduce(operator.iconcat / add / concat, [E for ..], []) with a fresh empty start is the same
    # concatenation as sum([...], []) (without the start value iconcat would extend the first list in place)
    if k == "call" and key(t[1]) in ("functools.reduce", "reduce") and not t[3] and len(t[2]) == 3 and key(t[2][0]) in ("operator.iconcat", "operator.add", "operator.concat", "iconcat", "add", "concat"):
        start = t[2][2]
        if start == ("list", ()) or (start[0] == "sym" and start[1].startswith("new") and start[1].endswith(":list")):
            return normalise(("call", ("name", "sum"), (t[2][1], ("list", ())), (), None))
    return t


# ----------------------------------------------------------------------------- polynomials
Poly = Dict[Tuple[str, ...], Fraction]


def _padd(a: Poly, b: Poly, s: int = 1) -> Poly:
    r = dict(a)
    for m, c in b.items():
        v = r.get(m, Fraction(0)) + s * c
        if v == 0:
            r.pop(m, None)
        else:
            r[m] = v
    return r


def _pmul(a: Poly, b: Poly) -> Poly:
    r: Poly = {}
    for m1, c1 in a.items():
        for m2, c2 in b.items():
            m = tuple(sorted(m1 + m2))
            v = r.get(m, Fraction(0)) + c1 * c2
            if v == 0:
                r.pop(m, None)
            else:
                r[m] = v
    return r


_TRANSPARENT_CALLS = {"float", "int", "cast"}


def to_poly(t: Term, atom: Optional[Callable[[Term], str]] = None, transparent: Iterable[str] = ()) -> Poly:
    """Polynomial normal form over opaque atoms (floats idealised as reals)."""
    ak = atom or (lambda x: key(strip_ver(x)))
    tr = set(transparent)
    k = t[0]
    if k == "const" and isinstance(t[1], (int, float)) and not isinstance(t[1], bool):
        f = Fraction(t[1]).limit_denominator(10**12) if isinstance(t[1], float) else Fraction(t[1])
        return {(): f} if f != 0 else {}
    if k == "bin":
        op = t[1]
        if op in ("+", "-"):
            return _padd(to_poly(t[2], atom, tr), to_poly(t[3], atom, tr), 1 if op == "+" else -1)
        if op == "*":
            return _pmul(to_poly(t[2], atom, tr), to_poly(t[3], atom, tr))
        if op == "/":
            d = to_poly(t[3], atom, tr)
            n = to_poly(t[2], atom, tr)
            if set(d.keys()) == {()}:
                return {m: c / d[()] for m, c in n.items()}
            inv = ("inv(" + poly_key(d) + ")",)
            return _pmul(n, {inv: Fraction(1)})
        if op == "**" and t[3][0] == "const" and isinstance(t[3][1], int) and 0 <= t[3][1] <= 4:
            r: Poly = {(): Fraction(1)}
            b = to_poly(t[2], atom, tr)
            for _ in range(t[3][1]):
                r = _pmul(r, b)
            return r
    if k == "un" and t[1] == "-":
        return _padd({}, to_poly(t[2], atom, tr), -1)
    if k == "un" and t[1] == "+":
        return to_poly(t[2], atom, tr)
    if k == "call" and t[1][0] in ("name", "sym") and t[1][1] in tr and len(t[2]) == 1 and not t[3]:
        return to_poly(t[2][0], atom, tr)
    return {(ak(t),): Fraction(1)}


def poly_key(p: Poly) -> str:
    if not p:
        return "0"
    parts = []
    for m in sorted(p):
        c = p[m]
        mono = "*".join(m) if m else "1"
        parts.append(f"{c}*{mono}" if c != 1 or not m else mono)
    return " + ".join(parts)


def poly_const(p: Poly) -> Optional[Fraction]:
    if not p:
        return Fraction(0)
    if set(p.keys()) == {()}:
        return p[()]
    return None


def diff_const(a: Term, b: Term) -> Optional[Fraction]:
    """a - b if it is a constant, else None."""
    return poly_const(_padd(to_poly(a), to_poly(b), -1))


def cmp_nf(op: str, l: Term, r: Term, integer: bool = False, atom=None, transparent=()) -> Tuple[str, str]:
    """Normal form of a comparison: (rel, polynomial) with rel in <0, <=0, ==0, !=0."""
    if op in (">", ">="):
        l, r = r, l
        op = "<" if op == ">" else "<="
    p = _padd(to_poly(l, atom, transparent), to_poly(r, atom, transparent), -1)
    if op in ("==", "!="):
        lead = p[sorted(p)[-1]] if p else Fraction(1)
        if lead < 0:
            p = {m: -c for m, c in p.items()}
        return (op + "0", poly_key(p))
    if op == "<":
        if integer:
            return ("<=0", poly_key(_padd(p, {(): Fraction(1)})))
        return ("<0", poly_key(p))
    if op == "<=":
        return ("<=0", poly_key(p))
    raise Unrecognised(f"comparison operator {op}")


def negate_cmp(op: str) -> str:
    return {"<": ">=", "<=": ">", ">": "<=", ">=": "<", "==": "!=", "!=": "==", "is": "is not",
            "is not": "is", "in": "not in", "not in": "in"}[op]


# ----------------------------------------------------------------------------- canonical predicates
def _neg(t: Term) -> Term:
    c, pol = canon_pred(t)
    return c if not pol else ("not", c)


def _pos(t: Term) -> Term:
    c, pol = canon_pred(t)
    return c if pol else ("not", c)


def _as_any(t: Term) -> Optional[Tuple[Term, bool]]:
    """`any(...)`-normal form of aggregate tests over a comprehension:
    any(c for ..), all(c for ..), sum([c for ..]) > 0  ->  (any(<seq c' for ..>), polarity)"""
    def seq_of(a: Term) -> Optional[Term]:
        if a[0] == "comp" and a[1] in _SEQ_KINDS:
            return a
        n = normalise(a)
        if n[0] == "comp" and n[1] == "seq":
            return n
        return None

    if t[0] == "call" and t[1] in (("name", "any"), ("name", "all")) and len(t[2]) == 1 and not t[3]:
        sq = seq_of(t[2][0])
        if sq is None:
            return None
        if t[1][1] == "any":
            return ("call", ("name", "any"), (("comp", "seq", _pos(sq[2]), sq[3]),), (), None), True
        return ("call", ("name", "any"), (("comp", "seq", _neg(sq[2]), sq[3]),), (), None), False
    if t[0] == "cmp" and t[1] == "<" and t[2] == ("const", 0) and _is_name_call(t[3], "sum") and len(t[3][2]) == 1:
        sq = seq_of(t[3][2][0])
        if sq is None:
            return None
        return ("call", ("name", "any"), (("comp", "seq", _pos(sq[2]), sq[3]),), (), None), True
    return None


def _surely_bool(t: Term) -> bool:
    return t[0] in ("cmp", "not", "bool") or (t[0] == "call" and t[1] in (("name", "isinstance"), ("name", "issubclass"), ("name", "any"), ("name", "all"), ("name", "callable"), ("name", "hasattr")))


def canon_pred(t: Term) -> Tuple[Term, bool]:
    """Canonical (predicate, polarity): `not p`, `!=`, `is not`, `not in`, `>`, `>=` are
    rewritten so that syntactic variants of one test share a key; aggregate tests over a
    comprehension (any / all / sum(...) > 0) share the `any` form."""
    pol = True
    while True:
        if t[0] == "not":
            t = t[1]
            pol = not pol
            continue
        if t[0] == "call" and t[1] == ("name", "bool") and len(t[2]) == 1 and not t[3]:
            t = t[2][0]  # as a test, bool(x) is x
            continue
        if t[0] == "cmp":
            op, l, r = t[1], t[2], t[3]
            if op in ("!=", "is not", "not in"):
                t = ("cmp", negate_cmp(op), l, r)
                pol = not pol
                continue
            if op == ">":
                t = ("cmp", "<", r, l)
            elif op == ">=":
                t = ("cmp", "<=", r, l)
            elif op == "==" and key(l) > key(r):
                t = ("cmp", "==", r, l)
            elif op == "is" and l == NONE:
                t = ("cmp", "is", r, l)
        if t[0] == "cmp" and t[1] in ("is", "==") and TRUE in (t[2], t[3]) and _surely_bool(t[3] if t[2] == TRUE else t[2]):
            t = t[3] if t[2] == TRUE else t[2]
            continue
        if t[0] == "cmp" and t[1] in ("is", "==") and FALSE in (t[2], t[3]) and _surely_bool(t[3] if t[2] == FALSE else t[2]):
            t = t[3] if t[2] == FALSE else t[2]
            pol = not pol
            continue
        if t[0] == "cmp" and t[1] == "is" and t[3] == TRUE:
            t = t[2]
            continue
        if t[0] == "cmp" and t[1] == "is" and t[3] == FALSE:
            t = t[2]
            pol = not pol
            continue
        agg = _as_any(t)
        if agg is not None:
            t2, p2 = agg
            return t2, (pol if p2 else not pol)
        return t, pol


# ----------------------------------------------------------------------------- finite worlds
class World:
    """Assignment of small concrete values to atoms (keyed by `key(strip_ver(term))`).

    Code that touches its inputs only through comparisons, None tests, boolean
    structure and isinstance tests is decided exactly by enumerating such worlds (small
    model property of order-only code). Anything else raises Unrecognised.
    """

    def __init__(self, values: Dict[str, Any], rename: Optional[Callable[[str], str]] = None):
        self.values = values
        self.rename = rename

    def lookup(self, t: Term) -> Any:
        k = key(strip_ver(t))
        if self.rename is not None:
            k = self.rename(k)
        if k in self.values:
            return self.values[k]
        raise Unrecognised(f"atom {k} is not part of the finite model")

    def has(self, t: Term) -> bool:
        k = key(strip_ver(t))
        if self.rename is not None:
            k = self.rename(k)
        return k in self.values

    def eval(self, t: Term) -> Any:
        k = t[0]
        if self.has(t):
            return self.lookup(t)
        if k == "const":
            return t[1]
        if k == "not":
            return not self.eval(t[1])
        if k == "bool":
            if t[1] == "and":
                v: Any = True
                for x in t[2]:
                    v = self.eval(x)
                    if not v:
                        return v
                return v
            v = False
            for x in t[2]:
                v = self.eval(x)
                if v:
                    return v
            return v
        if k == "ifexp":
            return self.eval(t[2]) if self.eval(t[1]) else self.eval(t[3])
        if k == "cmp":
            op = t[1]
            a, b = self.eval(t[2]), self.eval(t[3])
            if op == "is":
                return a is b if (a is None or b is None or isinstance(a, bool) or isinstance(b, bool)) else a == b
            if op == "is not":
                return not (a is b if (a is None or b is None or isinstance(a, bool) or isinstance(b, bool)) else a == b)
            if op == "==":
                return a == b
            if op == "!=":
                return a != b
            if a is None or b is None:
                raise Unrecognised(f"ordering comparison with None in {key(t)}")
            if op == "<":
                return a < b
            if op == "<=":
                return a <= b
            if op == ">":
                return a > b
            if op == ">=":
                return a >= b
            if op == "in":
                return a in b
            if op == "not in":
                return a not in b
        if k == "bin" and t[1] in ("+", "-", "*"):
            a, b = self.eval(t[2]), self.eval(t[3])
            if isinstance(a, (int, float)) and isinstance(b, (int, float)) and not isinstance(a, bool) and not isinstance(b, bool):
                return a + b if t[1] == "+" else (a - b if t[1] == "-" else a * b)
            raise Unrecognised(f"arithmetic on non-numeric model values in {key(t)}")
        if k == "call" and t[1] == ("name", "bool") and len(t[2]) == 1 and not t[3]:
            return bool(self.eval(t[2][0]))
        if k == "un" and t[1] == "-":
            a = self.eval(t[2])
            if isinstance(a, (int, float)) and not isinstance(a, bool):
                return -a
            raise Unrecognised(f"negation of a non-numeric model value in {key(t)}")
        if k == "tuple":
            return tuple(self.eval(x) for x in t[1])
        if k == "list":
            return [self.eval(x) for x in t[1]]
        return self.lookup(t)


def all_rank_assignments(names: List[str], ranks: int) -> Iterable[Dict[str, int]]:
    """Every assignment of ranks 0..ranks-1 to names (covers every weak order)."""
    if not names:
        yield {}
        return
    head, rest = names[0], names[1:]
    for sub_ in all_rank_assignments(rest, ranks):
        for r in range(ranks):
            d = dict(sub_)
            d[head] = r
            yield d
