"""L2/L5: path-sensitive abstract evaluation of one function into path summaries.

For a function (or a loop body) the evaluator enumerates every acyclic path through the
statement structure.  Branch conditions that cannot be decided from what the path already
assumed are split into both outcomes.  Each resulting `Path` carries

  conds  -- the branch decisions taken, as (canonical predicate term, polarity, node)
  events -- the side effects in program order: attribute/element stores, calls, deletes,
            and `loop` events whose bodies are summarised recursively
  exit   -- ('return', term) | ('raise', term) | ('fall',) | ('break',) | ('continue',)
  env    -- final values of the local variables (terms)

Nothing of the analysed package is imported or executed; values are symbolic terms
(terms.py).  No constraint is ever handed to a solver: rules either look at the syntactic
structure of paths (dominating guards, orderings, counts, provenance) or evaluate the path
conditions over an explicitly enumerated finite model (terms.World).
"""
from __future__ import annotations

import ast
from dataclasses import dataclass, field
from typing import Any, Callable, Dict, Iterable, List, Optional, Sequence, Set, Tuple

from .callgraph import HEAP_MUTATORS, MUTATORS, CallGraph, CallSite
from .loader import AnalysisError, FuncInfo, Program
from .terms import (
    FALSE, NONE, TRUE, Term, Unrecognised, _BINSYM, _CMPSYM, canon_pred, const, diff_const, key,
    strip_ver, substitute, subterms,
)
from .types import TypeEnv, _name_of

PURE_BUILTINS = {
    "len", "min", "max", "abs", "sum", "float", "int", "str", "bool", "isinstance", "issubclass",
    "range", "list", "tuple", "set", "dict", "sorted", "enumerate", "zip", "map", "filter", "any",
    "all", "type", "repr", "round", "reversed", "hasattr", "getattr", "callable", "id", "hash",
    "frozenset", "iter", "next", "divmod", "pow", "super",
}
PURE_MODULES = {"math", "np", "numpy", "json.dumps", "os.path", "typing"}
NOISE_CALLS = {"warnings.warn", "print"}


@dataclass
class Event:
    kind: str  # store | call | del | loop | note
    node: ast.AST
    func: FuncInfo  # function whose source contains the node (differs from root when inlined)
    data: Dict[str, Any] = field(default_factory=dict)
    depth: int = 0  # inlining depth
    ctx: Tuple[str, ...] = ()  # 'lambda' / 'comp' / 'cond' contexts the event sits in

    def __getattr__(self, item: str) -> Any:
        try:
            return self.data[item]
        except KeyError:
            raise AttributeError(item)

    def __repr__(self) -> str:
        if self.kind == "store":
            return f"<store {key(self.target)} := {key(self.value)}>"
        if self.kind == "call":
            return f"<call {key(self.term)}>"
        if self.kind == "del":
            return f"<del {key(self.target)}>"
        if self.kind == "loop":
            return f"<loop {self.loopkind} {key(self.iter) if self.iter is not None else ''} paths={len(self.paths)}>"
        return f"<{self.kind}>"


@dataclass
class Path:
    conds: List[Tuple[Term, bool, ast.AST]]
    events: List[Event]
    exit: Tuple
    env: Dict[str, Term]

    def cond_keys(self) -> List[Tuple[str, bool]]:
        return [(key(c), p) for c, p, _ in self.conds]

    def describe(self) -> str:
        cs = " & ".join(("" if p else "not ") + key(c) for c, p, _ in self.conds) or "true"
        return f"[{cs}] -> {self.exit[0]}" + (f" {key(self.exit[1])}" if len(self.exit) > 1 and self.exit[1] is not None else "")

    def walk_events(self, into_loops: bool = True) -> Iterable[Event]:
        for e in self.events:
            yield e
            if e.kind == "loop" and into_loops:
                for p in e.paths:
                    yield from p.walk_events(True)


class _State:
    __slots__ = ("env", "conds", "events", "assume", "attr_store", "attr_ver", "sub_store", "sub_ver", "epoch", "fresh", "raised", "elem_ver")

    def __init__(self) -> None:
        self.env: Dict[str, Term] = {}
        self.conds: List[Tuple[Term, bool, ast.AST]] = []
        self.events: List[Event] = []
        self.assume: Dict[Term, bool] = {}
        self.attr_store: Dict[Tuple[Term, str], Tuple[Term, str]] = {}
        self.attr_ver: Dict[Tuple[str, str], int] = {}
        self.sub_store: Dict[Tuple[Term, Term], Term] = {}
        self.sub_ver: Dict[Term, int] = {}
        self.epoch = 0
        self.fresh: Set[Term] = set()  # terms known to denote objects allocated on this path
        self.raised: Optional[Tuple] = None  # set when an inlined callee raised
        self.elem_ver: Dict[str, int] = {}  # per attribute name: element mutations of any `x.<attr>` container

    def clone(self) -> "_State":
        s = _State()
        s.env = dict(self.env)
        s.conds = list(self.conds)
        s.events = list(self.events)
        s.assume = dict(self.assume)
        s.attr_store = dict(self.attr_store)
        s.attr_ver = dict(self.attr_ver)
        s.sub_store = dict(self.sub_store)
        s.sub_ver = dict(self.sub_ver)
        s.epoch = self.epoch
        s.fresh = set(self.fresh)
        s.raised = self.raised
        s.elem_ver = dict(self.elem_ver)
        return s


class TooManyPaths(AnalysisError):
    pass


class Evaluator:
    def __init__(
        self,
        cg: CallGraph,
        func: FuncInfo,
        inline: Optional[Callable[[FuncInfo], bool]] = None,
        max_paths: int = 40000,
        max_inline_depth: int = 4,
        auto_inline_trivial: bool = True,
        split_bool: bool = True,
        keep: Sequence[str] = (),
    ):
        self.keep = set(keep)  # functions that stay visible as calls whatever their body looks like
        self.cg = cg
        self.program: Program = cg.program
        self.func = func
        self.inline = inline or (lambda f: False)
        self.max_paths = max_paths
        self.max_inline_depth = max_inline_depth
        self.auto_inline_trivial = auto_inline_trivial
        self.split_bool = split_bool
        self._occ = 0
        self._loopid = 0
        self._site_cache: Dict[int, CallSite] = {}
        self._n_states = 0
        # evaluation context
        self._cur_func: FuncInfo = func
        self._depth = 0
        self._ctx: Tuple[str, ...] = ()
        self._tenv_stack: List[TypeEnv] = [cg.env(func)]
        self._quiet = 0
        self._plain_literals = 0

    # ------------------------------------------------------------------ entry points
    def run(self, extra_env: Optional[Dict[str, Term]] = None) -> List[Path]:
        st = _State()
        for p in self.func.params:
            st.env[p] = ("sym", p)
        a = self.func.node.args
        if a.vararg:
            st.env[a.vararg.arg] = ("sym", "*" + a.vararg.arg)
        if a.kwarg:
            st.env[a.kwarg.arg] = ("sym", "**" + a.kwarg.arg)
        if extra_env:
            st.env.update(extra_env)
        outs = self._exec_block([st], self.func.node.body)
        paths = []
        for s, ex in outs:
            paths.append(Path(s.conds, s.events, ex if ex is not None else ("fall",), s.env))
        return paths

    # ------------------------------------------------------------------ helpers
    def _new_occ(self) -> int:
        self._occ += 1
        return self._occ

    def _count_state(self) -> None:
        self._n_states += 1
        if self._n_states > self.max_paths:
            raise TooManyPaths(
                f"path budget exceeded ({self.max_paths}) in {self.func.qualname}"
            )

    def _emit(self, st: _State, kind: str, node: ast.AST, **data: Any) -> Event:
        ev = Event(kind, node, self._cur_func, data, self._depth, self._ctx)
        sink = getattr(self, "_deferred_sink", None)
        if sink is not None:
            sink.append(ev)  # inside a lambda that is stored, not applied: nothing happens here
        elif st.raised is None:  # nothing happens after an inlined callee raised
            st.events.append(ev)
        return ev

    _IMMEDIATE_CONSUMERS = {"filter", "map", "sorted", "min", "max", "any", "all", "sum", "next", "list", "tuple", "set", "reduce", "sort", "groupby", "defaultdict"}

    def _lambda_is_deferred(self, e: ast.Lambda) -> bool:
        """a lambda handed to filter/map/sorted/key= is applied by that call; one that is assigned,
        stored in a container or returned runs later (if at all) and sees its free variables as
        they are then"""
        root = self._cur_func.node if self._cur_func is not None else None
        if root is None:
            return False
        pm = self._parent_maps.get(id(root)) if hasattr(self, "_parent_maps") else None
        if pm is None:
            if not hasattr(self, "_parent_maps"):
                self._parent_maps = {}
            pm = {}
            for n in ast.walk(root):
                for ch in ast.iter_child_nodes(n):
                    pm[id(ch)] = n
            self._parent_maps[id(root)] = pm
        par = pm.get(id(e))
        if isinstance(par, ast.keyword):
            par = pm.get(id(par))
        if isinstance(par, ast.Call) and par.func is not e:
            fn = par.func.attr if isinstance(par.func, ast.Attribute) else (par.func.id if isinstance(par.func, ast.Name) else "")
            return fn not in self._IMMEDIATE_CONSUMERS
        if isinstance(par, ast.Call) and par.func is e:
            return False  # (lambda ...)(...) applied in place
        return True

    def _site(self, call: ast.Call) -> CallSite:
        s = self._site_cache.get(id(call))
        if s is None:
            s = self.cg.resolve(self._cur_func, call, self._tenv())
            self._site_cache[id(call)] = s
        return s

    # ------------------------------------------------------------------ decisions
    def _truth(self, st: _State, t: Term) -> Optional[bool]:
        """Decide a predicate from constants and from what the path already assumed."""
        c, pol = canon_pred(t)
        v = self._truth0(st, c)
        if v is None:
            return None
        return v if pol else not v

    def _truth0(self, st: _State, c: Term) -> Optional[bool]:
        k = c[0]
        if k == "const":
            return bool(c[1])
        if c in st.assume:
            return st.assume[c]
        if k == "cmp" and c[1] == "is" and NONE in (c[2], c[3]) and (c[3] if c[2] == NONE else c[2]) in getattr(self, "_nonnull", ()):
            return False  # an element of a list declared to hold objects of a class is not None
        if k == "bool":
            vals = [self._truth(st, x) for x in c[2]]
            if c[1] == "and":
                if any(v is False for v in vals):
                    return False
                if all(v is True for v in vals):
                    return True
            else:
                if any(v is True for v in vals):
                    return True
                if all(v is False for v in vals):
                    return False
            return None
        if k == "cmp":
            op, l, r = c[1], c[2], c[3]
            if op == "is" and r == NONE:
                if l[0] == "const":
                    return l[1] is None
                if l in st.fresh or l[0] in ("list", "dict", "tuple", "set", "lambda", "comp", "bin", "fstr"):
                    return False
                return None
            if l[0] == "const" and r[0] == "const":
                try:
                    a, b = l[1], r[1]
                    return {
                        "==": a == b, "<": a < b, "<=": a <= b, "is": a is b,
                        "in": (a in b) if hasattr(b, "__contains__") else None,
                    }.get(op)
                except TypeError:
                    return None
            if op in ("==", "<=", "is") and l == r and l[0] != "call":
                return True
            if op == "<" and l == r:
                return False
            if op in ("==", "<", "<="):
                d = diff_const(l, r) if self._numericish(l) and self._numericish(r) else None
                if d is not None:
                    return {"==": d == 0, "<": d < 0, "<=": d <= 0}[op]
            if op == "in" and r[0] in ("list", "tuple", "set") and l[0] == "const":
                if all(x[0] == "const" for x in r[1]):
                    return l[1] in [x[1] for x in r[1]]
        return None

    @staticmethod
    def _numericish(t: Term) -> bool:
        return t[0] in ("bin", "un") or (t[0] == "const" and isinstance(t[1], (int, float)) and not isinstance(t[1], bool))

    def _decide(self, st: _State, t: Term, node: ast.AST) -> List[Tuple[_State, bool]]:
        v = self._truth(st, t)
        if v is not None:
            return [(st, v)]
        # any(P(x) for x in (a, b)) over a short literal tuple is P(a) or P(b) (all: and), decided in turn
        if self.split_bool and t[0] == "call" and t[1] in (("name", "any"), ("name", "all")) and len(t[2]) == 1 and not t[3] and t[2][0][0] in ("comp", "tuple", "list"):
            comp = t[2][0]
            parts = None
            if comp[0] in ("tuple", "list") and 1 <= len(comp[1]) <= 4 and not any(x[0] == "star" for x in comp[1]):
                parts = list(comp[1])  # any((a, b)) is `a or b` as a truth value
            elif comp[0] == "comp" and len(comp[3]) == 1 and not comp[3][0][2] and len(comp[3][0][0]) == 1 and comp[3][0][1][0] in ("tuple", "list") and 1 <= len(comp[3][0][1][1]) <= 4:
                bnd = ("bound", comp[3][0][0][0])
                parts = [substitute(comp[2], {bnd: item}) for item in comp[3][0][1][1]]
            if parts is not None:
                is_all = t[1][1] == "all"
                results: List[Tuple[_State, bool]] = []
                pending = [st]
                for part in parts:
                    nxt: List[_State] = []
                    for s in pending:
                        for s2, b in self._decide(s, part, node):
                            if is_all:
                                (nxt if b else results).append(s2 if b else (s2, False))  # type: ignore[arg-type]
                            else:
                                (results if b else nxt).append((s2, True) if b else s2)  # type: ignore[arg-type]
                    pending = nxt
                for s in pending:
                    results.append((s, is_all))
                return results
        c, pol = canon_pred(t)
        other = st.clone()
        self._count_state()
        st.assume[c] = pol  # t is True
        st.conds.append((c, pol, node))
        other.assume[c] = not pol
        other.conds.append((c, not pol, node))
        return [(st, True), (other, False)]

    def _decide_test(self, st: _State, node: ast.AST) -> List[Tuple[_State, bool]]:
        """Evaluate a test expression with short-circuit splitting of and/or/not."""
        if self.split_bool and isinstance(node, ast.BoolOp):
            is_and = isinstance(node.op, ast.And)
            results: List[Tuple[_State, bool]] = []
            pending = [st]
            for i, v in enumerate(node.values):
                nxt: List[_State] = []
                for s in pending:
                    for s2, b in self._decide_test(s, v):
                        if is_and:
                            if b:
                                nxt.append(s2)
                            else:
                                results.append((s2, False))
                        else:
                            if b:
                                results.append((s2, True))
                            else:
                                nxt.append(s2)
                pending = nxt
            for s in pending:
                results.append((s, is_and))
            return results
        if self.split_bool and isinstance(node, ast.UnaryOp) and isinstance(node.op, ast.Not):
            return [(s, not b) for s, b in self._decide_test(st, node.operand)]
        if self.split_bool:
            spread = self._spread_quantifier(node)
            if spread is not None:
                return self._decide_test(st, spread)
        out: List[Tuple[_State, bool]] = []
        sized = False
        if isinstance(node, (ast.Name, ast.Attribute)):
            try:
                ty = self._tenv().type_of(node)
                sized = ty[0] in ("list", "dict", "set", "tuple")  # a container, not Optional: its truth value is `len(x) != 0`
            except Exception:
                sized = False
        for s, t in self._eval(st, node):
            if sized and t[0] in ("attr", "sym") and self._truth(s, t) is None:
                empty = ("cmp", "==", ("call", ("name", "len"), (t,), (), None), const(0))
                out.extend((s2, not b) for s2, b in self._decide(s, empty, node))
                continue
            out.extend(self._decide(s, t, node))
        return out

    @staticmethod
    def _spread_quantifier(node: ast.AST) -> Optional[ast.AST]:
        """any(P(x) for x in (a, b)) == P(a) or P(b);  all(...) == P(a) and P(b)  (short literal sequence,
        single plain target, no filter): the same test written as a Boolean expression"""
        if not (isinstance(node, ast.Call) and isinstance(node.func, ast.Name) and node.func.id in ("any", "all") and len(node.args) == 1 and not node.keywords):
            return None
        g = node.args[0]
        if not isinstance(g, (ast.GeneratorExp, ast.ListComp)) or len(g.generators) != 1:
            return None
        gen = g.generators[0]
        if gen.ifs or not isinstance(gen.target, ast.Name) or not isinstance(gen.iter, (ast.Tuple, ast.List)) or not (1 <= len(gen.iter.elts) <= 4):
            return None
        if any(isinstance(x, ast.Starred) for x in gen.iter.elts):
            return None
        name = gen.target.id

        class Sub(ast.NodeTransformer):
            def __init__(self, repl: ast.AST) -> None:
                self.repl = repl

            def visit_Name(self, n: ast.Name) -> ast.AST:
                if n.id == name and isinstance(n.ctx, ast.Load):
                    return copy.deepcopy(self.repl)
                return n

        import copy

        vals = []
        for el in gen.iter.elts:
            vals.append(Sub(el).visit(copy.deepcopy(g.elt)))
        out = ast.BoolOp(op=ast.Or() if node.func.id == "any" else ast.And(), values=vals) if len(vals) > 1 else vals[0]
        ast.copy_location(out, node)
        ast.fix_missing_locations(out)
        return out

    # ------------------------------------------------------------------ statements
    def _exec_block(self, states: List[_State], stmts: Sequence[ast.stmt]) -> List[Tuple[_State, Optional[Tuple]]]:
        """Run stmts on every state. Result: (state, exit) with exit None = fell through."""
        live: List[_State] = list(states)
        done: List[Tuple[_State, Optional[Tuple]]] = []
        for stmt in stmts:
            nxt: List[_State] = []
            for s in live:
                for s2, ex in self._exec(s, stmt):
                    if s2.raised is not None:
                        ex, s2.raised = s2.raised, None
                    if ex is None:
                        nxt.append(s2)
                    else:
                        done.append((s2, ex))
            live = nxt
            if not live:
                break
        return done + [(s, None) for s in live]

    def _exec(self, st: _State, node: ast.stmt) -> List[Tuple[_State, Optional[Tuple]]]:
        if isinstance(node, ast.Expr):
            if isinstance(node.value, ast.Constant):
                return [(st, None)]
            return [(s, None) for s, _ in self._eval(st, node.value)]
        if isinstance(node, ast.Assign):
            out = []
            for s, v in self._eval(st, node.value):
                if len(node.targets) == 1 and isinstance(node.targets[0], (ast.Attribute, ast.Subscript)):
                    # the target's own sub-expressions may branch (a helper computing the key): one store per branch
                    for s2, (base, idx) in self._eval_target(s, node.targets[0]):
                        if getattr(s2, "raised", None):
                            out.append((s2, s2.raised))
                            continue
                        self._store(s2, base, idx, v, node)
                        out.append((s2, None))
                    continue
                for tg in node.targets:
                    self._assign(s, tg, v, node)
                out.append((s, None))
            return out
        if isinstance(node, ast.AnnAssign):
            if node.value is None:
                return [(st, None)]
            out = []
            for s, v in self._eval(st, node.value):
                self._assign(s, node.target, v, node)
                out.append((s, None))
            return out
        if isinstance(node, ast.AugAssign):
            out = []
            op = _BINSYM[type(node.op).__name__]
            for s, v in self._eval(st, node.value):
                tg = node.target
                if isinstance(tg, ast.Name):
                    old = s.env.get(tg.id, ("sym", "?" + tg.id))
                    s.env[tg.id] = self._mkbin(op, old, v)
                    out.append((s, None))
                else:
                    for s2, (base, idx) in self._eval_target(s, tg):
                        old = self._read(s2, base, idx, tg)
                        self._store(s2, base, idx, self._mkbin(op, old, v), node, aug=op, old=old)
                        out.append((s2, None))
            return out
        if isinstance(node, ast.Return):
            if node.value is None:
                return [(st, ("return", NONE))]
            return [(s, ("return", v)) for s, v in self._eval(st, node.value)]
        if isinstance(node, ast.Raise):
            if node.exc is None:
                return [(st, ("raise", ("sym", "<reraise>")))]
            return [(s, ("raise", v)) for s, v in self._eval(st, node.exc)]
        if isinstance(node, ast.Pass):
            return [(st, None)]
        if isinstance(node, ast.Break):
            return [(st, ("break",))]
        if isinstance(node, ast.Continue):
            return [(st, ("continue",))]
        if isinstance(node, ast.If):
            out = []
            for s, b in self._decide_test(st, node.test):
                out.extend(self._exec_block([s], node.body if b else node.orelse))
            return out
        if isinstance(node, ast.Assert):
            out = []
            for s, b in self._decide_test(st, node.test):
                if b:
                    out.append((s, None))
                else:
                    out.append((s, ("raise", ("call", ("name", "AssertionError"), (), (), None))))
            return out
        if isinstance(node, ast.For):
            flat = self._desugar_local_generator(st, node)
            if flat is not None:
                return self._exec_block([st], flat)
        if isinstance(node, (ast.For, ast.While)):
            return self._exec_loop(st, node)
        if isinstance(node, ast.Delete):
            out = [(st, None)]
            for tg in node.targets:
                nxt = []
                for s, _ in out:
                    if isinstance(tg, ast.Name):
                        s.env.pop(tg.id, None)
                        nxt.append((s, None))
                    else:
                        for s2, (base, idx) in self._eval_target(s, tg):
                            self._delete(s2, base, idx, node)
                            nxt.append((s2, None))
                out = nxt
            return out
        if isinstance(node, ast.FunctionDef):
            st.env[node.name] = ("name", f"{self._cur_func.qualname}.{node.name}")
            return [(st, None)]
        if isinstance(node, ast.Try):
            # handlers only run on exceptions (abnormal paths, out of scope); finally/else inline
            res = self._exec_block([st], node.body)
            out = []
            for s, ex in res:
                if ex is None:
                    out.extend(self._exec_block([s], list(node.orelse) + list(node.finalbody)))
                else:
                    out.append((s, ex))
            self._emit(st, "note", node, what="try", handlers=len(node.handlers))
            return out
        if isinstance(node, ast.With):
            cur = [st]
            for item in node.items:
                nxt2 = []
                for s in cur:
                    for s2, v in self._eval(s, item.context_expr):
                        if item.optional_vars is not None:
                            self._assign(s2, item.optional_vars, v, node)
                        nxt2.append(s2)
                cur = nxt2
            return self._exec_block(cur, node.body)
        if isinstance(node, (ast.Import, ast.ImportFrom, ast.Global, ast.Nonlocal)):
            self._emit(st, "note", node, what=type(node).__name__)
            return [(st, None)]
        raise Unrecognised(f"statement {type(node).__name__} in {self._cur_func.qualname}")

    # ------------------------------------------------------------------ loops
    def _assigned_names(self, stmts: Sequence[ast.stmt]) -> List[str]:
        names: List[str] = []

        def visit(n: ast.AST) -> None:
            if isinstance(n, (ast.FunctionDef, ast.Lambda)):
                return
            if isinstance(n, ast.Name) and isinstance(n.ctx, (ast.Store, ast.Del)):
                if n.id not in names:
                    names.append(n.id)
            if isinstance(n, (ast.ListComp, ast.SetComp, ast.DictComp, ast.GeneratorExp)):
                return
            for ch in ast.iter_child_nodes(n):
                visit(ch)

        for s in stmts:
            visit(s)
        return names

    def _owner_of(self, value_node: ast.AST, attr: str) -> str:
        from .callgraph import classes_of

        try:
            cs = classes_of(self._tenv().type_of(value_node))
        except Exception:
            cs = []
        if not cs:
            return "?"
        return self.cg.attr_owner(cs, attr)

    def _body_mods(self, stmts: Sequence[ast.stmt]) -> Set[Tuple[str, str]]:
        mods: Set[Tuple[str, str]] = set()

        def add(x: ast.AST) -> None:
            while isinstance(x, ast.Subscript):
                x = x.value
            if isinstance(x, ast.Attribute):
                mods.add((self._owner_of(x.value, x.attr), x.attr))

        for s in stmts:
            for n in ast.walk(s):
                if isinstance(n, (ast.Assign, ast.AugAssign, ast.AnnAssign, ast.Delete)):
                    tgs = n.targets if isinstance(n, (ast.Assign, ast.Delete)) else [n.target]
                    for tg in tgs:
                        for el in ([tg] if not isinstance(tg, (ast.Tuple, ast.List)) else tg.elts):
                            add(el)
                elif isinstance(n, ast.Call):
                    site = self._site(n)
                    for t in site.targets:
                        if site.how != "byname":
                            mods |= self.cg.mod_attrs(t)
                    if isinstance(n.func, ast.Attribute) and n.func.attr in MUTATORS:
                        add(n.func.value)
                    nm = _name_of(n.func) or ""
                    if nm.split(".")[-1] in HEAP_MUTATORS and n.args:
                        add(n.args[0])
        return mods

    def _bump(self, st: _State, mods: Iterable[Tuple[str, str]]) -> None:
        mods = set(mods)
        if not mods:
            return
        for m in mods:
            st.attr_ver[m] = st.attr_ver.get(m, 0) + 1
        names_any = {a for o, a in mods if o == "?"}
        names = {a for _, a in mods}
        keep = {}
        for k, (v, o) in st.attr_store.items():
            a = k[1]
            if a in names_any or (o, a) in mods or (o == "?" and a in names):
                continue
            keep[k] = (v, o)
        st.attr_store = keep

    def _ver(self, st: _State, owner: str, attr: str) -> int:
        if owner == "?":
            return sum(v for (o, a), v in st.attr_ver.items() if a == attr)
        return st.attr_ver.get((owner, attr), 0) + st.attr_ver.get(("?", attr), 0)

    def _havoc_heap(self, st: _State, mods: Set[Tuple[str, str]]) -> None:
        self._bump(st, mods)
        st.sub_store = {}
        for b in list(st.sub_ver):
            st.sub_ver[b] += 1
        for a in {a for _, a in mods}:
            st.elem_ver[a] = st.elem_ver.get(a, 0) + 1
        st.epoch += 1

    def _literal_items(self, st: _State, it: Term) -> Optional[List[Term]]:
        """elements of a short literal tuple/list the loop iterates over (None if not literal)"""
        lit: Optional[Term] = None
        if it[0] in ("tuple", "list"):
            lit = it
        elif it[0] == "sym" and it in st.fresh:
            for e in reversed(st.events):
                if e.kind == "note" and e.data.get("what") == "alloc" and e.data.get("sym") == it:
                    lit = e.data["literal"]
                    break
                if e.kind == "call" and e.data.get("mutates") == it:
                    return None

            def touched(evs: List[Event]) -> bool:
                for e in evs:
                    if e.kind == "call" and (e.data.get("mutates") == it or (e.recv == it and e.name in MUTATORS) or (e.site.targets and (it in e.args or it in [v for _, v in e.kwargs]))):
                        return True
                    if e.kind == "store" and e.base == it:
                        return True
                    if e.kind == "loop" and any(touched(bp.events) for bp in e.paths):
                        return True
                return False

            if lit is not None and touched(st.events):
                return None
        if lit is None or lit[0] not in ("tuple", "list") or not (0 <= len(lit[1]) <= 12) or any(x[0] == "star" for x in lit[1]):
            return None
        return list(lit[1])

    def _exec_unrolled(self, st: _State, node: ast.For, items: List[Term]) -> List[Tuple[_State, Optional[Tuple]]]:
        """for x in (a, b, c): body [else: tail]  -- executed element by element"""
        live: List[_State] = [st]
        done: List[Tuple[_State, Optional[Tuple]]] = []
        broke: List[_State] = []
        for item in items:
            nxt: List[_State] = []
            for s in live:
                self._assign(s, node.target, item, node)
                for s2, ex in self._exec_block([s], node.body):
                    if ex is None or ex[0] == "continue":
                        nxt.append(s2)
                    elif ex[0] == "break":
                        broke.append(s2)
                    else:
                        done.append((s2, ex))
            live = nxt
            if not live:
                break
        if node.orelse:
            done.extend(self._exec_block(live, node.orelse))
        else:
            done.extend((s, None) for s in live)
        done.extend((s, None) for s in broke)
        return done

    def _desugar_local_generator(self, st: _State, node: ast.For) -> Optional[List[ast.stmt]]:
        """`for T in gen(): BODY` where gen is a generator function defined locally in the function being
        evaluated and called without arguments: the generator runs in lock-step with its consumer, so the
        loop is the generator's body with every `yield E` replaced by `T = E; BODY` and every
        `yield from IT` by `for T in IT: BODY`.  Only when that is exact: BODY has no break / continue /
        return of its own level, the generator yields in statement position only, a `return` of the
        generator occurs only directly in its last statement's loop (where it is a `break`), the
        generator's locals do not clash with names of the enclosing function, and no else clause."""
        import copy

        if node.orelse or not (isinstance(node.iter, ast.Call) and isinstance(node.iter.func, ast.Name) and not node.iter.keywords and not any(isinstance(a, ast.Starred) for a in node.iter.args)):
            return None
        cur = self._cur_func
        g = cur.nested.get(node.iter.func.id) if cur is not None else None
        if g is None:
            return None
        if getattr(g.node, "decorator_list", None):
            return None
        ga = g.node.args
        if ga.kwonlyargs or ga.vararg or ga.kwarg or ga.defaults or ga.posonlyargs or len(ga.args) != len(node.iter.args):
            return None
        gparams = [a.arg for a in ga.args]
        gbody = [x for x in g.node.body if not (isinstance(x, ast.Expr) and isinstance(x.value, ast.Constant))]

        def own_level(stmts, kinds):
            """statements of these kinds that belong to this level (not inside a nested loop / function)"""
            found = []
            for x in stmts:
                if isinstance(x, kinds):
                    found.append(x)
                if isinstance(x, (ast.For, ast.While, ast.FunctionDef, ast.AsyncFunctionDef, ast.ClassDef)):
                    if isinstance(x, (ast.For, ast.While)) and ast.Return in kinds:
                        found.extend(own_level(x.body + x.orelse, (ast.Return,)))
                    continue
                for fld in ("body", "orelse", "finalbody", "handlers"):
                    sub = getattr(x, fld, None)
                    if isinstance(sub, list):
                        found.extend(own_level([y for y in sub if isinstance(y, ast.stmt)], kinds))
                        for h in sub:
                            if isinstance(h, ast.ExceptHandler):
                                found.extend(own_level(h.body, kinds))
            return found

        if own_level(node.body, (ast.Break, ast.Continue, ast.Return)):
            return None
        yields = [n for n in ast.walk(g.node) if isinstance(n, (ast.Yield, ast.YieldFrom))]
        if not yields:
            return None
        stmt_yields = [x for x in ast.walk(g.node) if isinstance(x, ast.Expr) and isinstance(x.value, (ast.Yield, ast.YieldFrom))]
        if len(stmt_yields) != len(yields) or any(isinstance(y, ast.Yield) and y.value is None for y in yields):
            return None
        if any(isinstance(n, (ast.Lambda, ast.FunctionDef, ast.Try, ast.With, ast.Nonlocal, ast.Global)) for x in gbody for n in ast.walk(x)):
            return None
        # returns of the generator: only `return` (no value) directly inside the loop that is its last statement
        rets = [n for x in gbody for n in ast.walk(x) if isinstance(n, ast.Return)]
        if rets:
            last = gbody[-1]
            if not isinstance(last, (ast.For, ast.While)) or last.orelse or any(r.value is not None for r in rets):
                return None
            inner_loops = [n for n in ast.walk(last) if isinstance(n, (ast.For, ast.While)) and n is not last]
            in_last = [n for n in ast.walk(last) if isinstance(n, ast.Return)]
            in_inner = [n for l_ in inner_loops for n in ast.walk(l_) if isinstance(n, ast.Return)]
            if len(in_last) != len(rets) or in_inner:
                return None
        # name clashes: what the generator assigns must be its own
        assigned = {n.id for x in gbody for n in ast.walk(x) if isinstance(n, ast.Name) and isinstance(n.ctx, ast.Store)} | set(gparams)
        outer_names = {n.id for x in cur.node.body if x is not g.node for n in ast.walk(x) if isinstance(n, ast.Name)}
        tnames = {n.id for n in ast.walk(node.target) if isinstance(n, ast.Name)}
        if assigned & (outer_names - tnames):
            return None
        if assigned & tnames:
            # a name shared by the generator and the loop target is harmless only where the yield hands over that very variable
            tl = node.target.elts if isinstance(node.target, ast.Tuple) else [node.target]
            for y in yields:
                if not isinstance(y, ast.Yield):
                    return None
                vl = y.value.elts if isinstance(y.value, ast.Tuple) and isinstance(node.target, ast.Tuple) else [y.value]
                if len(vl) != len(tl):
                    return None
                for t_, v_ in zip(tl, vl):
                    if isinstance(t_, ast.Name) and t_.id in assigned and not (isinstance(v_, ast.Name) and v_.id == t_.id):
                        return None
                    if not isinstance(t_, ast.Name) and {n.id for n in ast.walk(t_) if isinstance(n, ast.Name)} & assigned:
                        return None

        target, body = node.target, node.body

        class _Rewrite(ast.NodeTransformer):
            def visit_Expr(self_inner, x):  # noqa: N805
                if isinstance(x.value, ast.Yield):
                    assign = ast.Assign(targets=[copy.deepcopy(target)], value=x.value.value, lineno=x.lineno, col_offset=x.col_offset)
                    return [ast.copy_location(assign, x)] + [copy.deepcopy(b) for b in body]
                if isinstance(x.value, ast.YieldFrom):
                    loop = ast.For(target=copy.deepcopy(target), iter=x.value.value, body=[copy.deepcopy(b) for b in body], orelse=[], lineno=x.lineno, col_offset=x.col_offset)
                    return ast.copy_location(loop, x)
                return x

            def visit_Return(self_inner, x):  # noqa: N805
                return ast.copy_location(ast.Break(), x)

        out = []
        for pn, av in zip(gparams, node.iter.args):
            out.append(ast.copy_location(ast.Assign(targets=[ast.Name(id=pn, ctx=ast.Store())], value=av, lineno=node.lineno, col_offset=node.col_offset), node))
        for x in gbody:
            r = _Rewrite().visit(copy.deepcopy(x))
            out.extend(r if isinstance(r, list) else [r])
        for x in out:
            ast.fix_missing_locations(x)
        return out

    def _exec_loop(self, st: _State, node: ast.stmt) -> List[Tuple[_State, Optional[Tuple]]]:
        if isinstance(node, ast.For) and isinstance(node.target, (ast.Name, ast.Tuple)):
            out: List[Tuple[_State, Optional[Tuple]]] = []
            for s, it in self._eval(st, node.iter):
                items = self._literal_items(s, it)
                if items is not None:
                    out.extend(self._exec_unrolled(s, node, items))
                else:
                    out.extend(self._exec_loop_summary(s, node, [(s, it)]))
            return out
        return self._exec_loop_summary(st, node, None)

    def _exec_loop_summary(self, st: _State, node: ast.stmt, pre: Optional[List[Tuple[_State, Term]]]) -> List[Tuple[_State, Optional[Tuple]]]:
        self._loopid += 1
        lid = self._loopid
        out: List[Tuple[_State, Optional[Tuple]]] = []
        is_for = isinstance(node, ast.For)
        starts: List[Tuple[_State, Optional[Term]]]
        if is_for:
            starts = [(s, it) for s, it in (pre if pre is not None else self._eval(st, node.iter))]
        else:
            starts = [(st, None)]
        for s, it in starts:
            carried = self._assigned_names(node.body + ([node] if False else []))
            if is_for:
                for n in self._assigned_names([ast.Expr(value=node.target)]) if False else self._target_names(node.target):
                    if n not in carried:
                        carried.append(n)
            mods = self._body_mods(node.body + ([] if is_for else [ast.Expr(value=node.test)]))
            body_st = s.clone()
            body_st.conds = []
            body_st.events = []
            init: Dict[str, Optional[Term]] = {}
            phis: Dict[str, Term] = {}
            tnames = self._target_names(node.target) if is_for else []
            for n in carried:
                if n in tnames:
                    continue
                init[n] = s.env.get(n)
                phis[n] = ("sym", f"φ{lid}:{n}")
                body_st.env[n] = phis[n]
            self._havoc_heap(body_st, mods)
            filt: Tuple[Term, ...] = ()
            if is_for:
                for n in tnames:
                    body_st.env[n] = ("sym", f"{n}∈{lid}")
                if len(tnames) == 1:
                    try:
                        te = self._tenv()
                        et = te._iter_elem(node.iter, te.type_of(node.iter))
                    except Exception:
                        et = None
                    if et is not None and et[0] == "cls" and et[1] in self.program.classes:
                        if not hasattr(self, "_nonnull"):
                            self._nonnull = set()
                        self._nonnull.add(("sym", f"{tnames[0]}∈{lid}"))
                if isinstance(node.target, (ast.Attribute, ast.Subscript)):
                    raise Unrecognised("loop target is not a name")
                # `for x in (y for y in IT if C)` visits the items of IT that satisfy C
                if it is not None and it[0] == "comp" and it[1] in ("listcomp", "genexp") and len(it[3]) == 1 and len(tnames) == 1 \
                        and len(it[3][0][0]) == 1 and it[2] == ("bound", it[3][0][0][0]):
                    el = ("sym", f"{tnames[0]}∈{lid}")
                    bnd = ("bound", it[3][0][0][0])
                    filt = tuple(substitute(c, {bnd: el}) for c in it[3][0][2])
                    it = it[3][0][1]
            body_paths: List[Path] = []
            if is_for:
                entered = [body_st]
                res = []
                for c in filt:
                    nxt = []
                    for s2 in entered:
                        for s3, b in self._decide(s2, c, node.iter):
                            if b:
                                nxt.append(s3)
                            else:
                                res.append((s3, ("continue",)))
                    entered = nxt
                res = res + self._exec_block(entered, node.body)
            else:
                res = []
                for s2, b in self._decide_test(body_st, node.test):
                    if b:
                        res.extend(self._exec_block([s2], node.body))
                    else:
                        res.append((s2, ("exit",)))
            for s2, ex in res:
                body_paths.append(Path(s2.conds, s2.events, ex if ex is not None else ("fall",), s2.env))
            # after the loop: carried variables and the touched heap are unknown
            outs: Dict[str, Term] = {}
            for n in carried:
                if n in tnames and is_for:
                    outs[n] = ("sym", f"{n}∈{lid}")
                else:
                    outs[n] = ("sym", f"ψ{lid}:{n}")
                s.env[n] = outs[n]
            self._havoc_heap(s, mods)
            ev = self._emit(
                s, "loop", node, loopkind="for" if is_for else "while", loopid=lid, iter=it,
                target=tuple(tnames), init=init, phi=phis, out=outs, paths=body_paths,
                test=None if is_for else node.test, mods=mods,
            )
            if node.orelse:
                out.extend(self._exec_block([s], node.orelse))
            else:
                out.append((s, None))
        return out

    def _target_names(self, tg: ast.AST) -> List[str]:
        if isinstance(tg, ast.Name):
            return [tg.id]
        if isinstance(tg, (ast.Tuple, ast.List)):
            r: List[str] = []
            for e in tg.elts:
                r.extend(self._target_names(e))
            return r
        if isinstance(tg, ast.Starred):
            return self._target_names(tg.value)
        return []

    # ------------------------------------------------------------------ stores / reads
    def _assign(self, st: _State, tg: ast.AST, v: Term, node: ast.AST) -> None:
        if isinstance(tg, ast.Name):
            st.env[tg.id] = v
            return
        if isinstance(tg, (ast.Tuple, ast.List)):
            for i, el in enumerate(tg.elts):
                if v[0] in ("tuple", "list") and len(v[1]) == len(tg.elts):
                    self._assign(st, el, v[1][i], node)
                else:
                    self._assign(st, el, ("sub", v, const(i)), node)
            return
        if isinstance(tg, (ast.Attribute, ast.Subscript)):
            for s2, (base, idx) in self._eval_target(st, tg):
                if s2 is not st:
                    raise Unrecognised("forking store target")
                self._store(st, base, idx, v, node)
            return
        raise Unrecognised(f"assignment target {type(tg).__name__}")

    def _eval_target(self, st: _State, tg: ast.AST) -> List[Tuple[_State, Tuple[Term, Any]]]:
        """(base term, attr name | index term) for an attribute / subscript target."""
        if isinstance(tg, ast.Attribute):
            return [(s, (b, tg.attr)) for s, b in self._eval(st, tg.value)]
        if isinstance(tg, ast.Subscript):
            out = []
            for s, b in self._eval(st, tg.value):
                for s2, i in self._eval(s, tg.slice):
                    out.append((s2, (b, i)))
            return out
        raise Unrecognised(f"target {type(tg).__name__}")

    def _is_local_fresh(self, st: _State, base: Term) -> bool:
        return base in st.fresh or base[0] in ("list", "dict", "set", "tuple")

    def _target_owner(self, node: ast.AST, attr: str) -> str:
        """Owner class of the attribute written by statement `node` (searching its targets)."""
        cands: List[ast.AST] = []
        if isinstance(node, ast.Assign):
            cands = list(node.targets)
        elif isinstance(node, (ast.AnnAssign, ast.AugAssign)):
            cands = [node.target]
        elif isinstance(node, ast.Delete):
            cands = list(node.targets)
        elif isinstance(node, ast.Attribute):
            cands = [node]
        elif isinstance(node, ast.Call) and isinstance(node.func, ast.Name) and node.func.id == "setattr" and node.args:
            return self._owner_of(node.args[0], attr)  # setattr(obj, "name", v) writes obj.name
        owners = set()
        stack = list(cands)
        while stack:
            x = stack.pop()
            if isinstance(x, (ast.Tuple, ast.List)):
                stack.extend(x.elts)
            elif isinstance(x, ast.Attribute) and x.attr == attr:
                owners.add(self._owner_of(x.value, attr))
        if len(owners) == 1:
            return next(iter(owners))
        return "?"

    def _store(self, st: _State, base: Term, idx: Any, v: Term, node: ast.AST, aug: Optional[str] = None, old: Optional[Term] = None) -> None:
        if isinstance(idx, str):
            owner = self._target_owner(node, idx)
            cur_ver = self._ver(st, owner, idx)
            target = ("attr", base, idx)
            hit = st.attr_store.get((base, idx))
            cur = hit[0] if hit is not None else (("attr", base, idx, cur_ver) if cur_ver else ("attr", base, idx))
            self._emit(st, "store", node, target=target, value=v, aug=aug, old=old, ver=cur_ver, attr=idx, base=base, owner=owner, cur=cur)
            self._bump(st, [(owner, idx)])
            st.attr_store[(base, idx)] = (v, owner)
            if not self._is_local_fresh(st, base):
                st.epoch += 1
        else:
            target = ("sub", base, idx)
            cur = self._read(st, base, idx, node)
            self._emit(st, "store", node, target=target, value=v, aug=aug, old=old, ver=st.sub_ver.get(base, 0), attr=None, base=base, index=idx, cur=cur)
            self._elem_mutated(st, base, idx)
            st.sub_store[(strip_ver(base), idx)] = v
            if not self._is_local_fresh(st, base):
                st.epoch += 1

    def _elem_mutated(self, st: _State, base: Term, idx: Optional[Term]) -> None:
        """Container `base` changed (element idx, or wholesale when idx is None)."""
        sb = strip_ver(base)
        aname = sb[2] if sb[0] == "attr" else None
        keep = {}
        for (b, i), x in st.sub_store.items():
            if b == sb:
                d = diff_const(i, idx) if idx is not None and i[0] != "slice" and idx[0] != "slice" else None
                if d is not None and d != 0:
                    keep[(b, i)] = x
            elif aname is not None and b[0] == "attr" and b[2] == aname:
                continue  # same field of a possibly aliased object
            else:
                keep[(b, i)] = x
        st.sub_store = keep
        if aname is not None:
            st.elem_ver[aname] = st.elem_ver.get(aname, 0) + 1
        else:
            st.sub_ver[sb] = st.sub_ver.get(sb, 0) + 1

    def _delete(self, st: _State, base: Term, idx: Any, node: ast.AST) -> None:
        if isinstance(idx, str):
            self._emit(st, "del", node, target=("attr", base, idx), base=base, attr=idx)
            self._bump(st, [(self._target_owner(node, idx), idx)])
        else:
            self._emit(st, "del", node, target=("sub", base, idx), base=base, index=idx, attr=None)
            self._elem_mutated(st, base, None)
        if not self._is_local_fresh(st, base):
            st.epoch += 1

    def _read(self, st: _State, base: Term, idx: Any, node: ast.AST) -> Term:
        if isinstance(idx, str):
            hit = st.attr_store.get((base, idx))
            if hit is not None:
                return hit[0]
            # a field of a typing.NamedTuple that was just built: the argument it was built with
            if base[0] == "call" and base[1][0] == "name":
                cn = base[1][1].split(".")[-1]
                ci = self.program.classes.get(cn)
                if ci is not None and "NamedTuple" in getattr(ci, "bases", []) and not ci.methods:
                    fields = list(getattr(ci, "class_annotations", {}) or {})
                    if idx in fields:
                        kws_ = dict(base[3])
                        if idx in kws_:
                            return kws_[idx]
                        i_ = fields.index(idx)
                        if i_ < len(base[2]):
                            return base[2][i_]
            owner = self._owner_of(node.value, idx) if isinstance(node, ast.Attribute) else "?"
            oc = self.program.classes.get(owner) if isinstance(owner, str) else None
            if oc is not None and "NamedTuple" in getattr(oc, "bases", []) and not oc.methods:
                fields = list(getattr(oc, "class_annotations", {}) or {})
                if idx in fields:
                    return self._read(st, base, const(fields.index(idx)), node)  # a named field of a tuple is its position
            ver = self._ver(st, owner, idx)
            return ("attr", base, idx, ver) if ver else ("attr", base, idx)
        sb = strip_ver(base)
        v = st.sub_store.get((sb, idx))
        if v is not None:
            return v
        if base[0] in ("tuple", "list") and idx[0] == "const" and isinstance(idx[1], int):
            if -len(base[1]) <= idx[1] < len(base[1]) and not any(x[0] == "star" for x in base[1]):
                return base[1][idx[1]]
        ver = st.elem_ver.get(sb[2], 0) if sb[0] == "attr" else st.sub_ver.get(sb, 0)
        return ("sub", base, idx, ver) if ver else ("sub", base, idx)

    # ------------------------------------------------------------------ expressions
    def _mkbin(self, op: str, l: Term, r: Term) -> Term:
        if l[0] == "const" and r[0] == "const" and isinstance(l[1], (int, float)) and isinstance(r[1], (int, float)) \
                and not isinstance(l[1], bool) and not isinstance(r[1], bool):
            try:
                if op == "+":
                    return const(l[1] + r[1])
                if op == "-":
                    return const(l[1] - r[1])
                if op == "*":
                    return const(l[1] * r[1])
                if op == "**" and abs(r[1]) < 64:
                    return const(l[1] ** r[1])
            except Exception:
                pass
        return ("bin", op, l, r)

    def _eval_many(self, st: _State, nodes: Sequence[ast.AST]) -> List[Tuple[_State, List[Term]]]:
        res: List[Tuple[_State, List[Term]]] = [(st, [])]
        for n in nodes:
            nxt = []
            for s, acc in res:
                for s2, t in self._eval(s, n):
                    nxt.append((s2, acc + [t]))
            res = nxt
        return res

    def _eval(self, st: _State, e: ast.AST) -> List[Tuple[_State, Term]]:
        if isinstance(e, ast.Constant):
            return [(st, const(e.value))]
        if isinstance(e, ast.Name):
            if e.id in st.env:
                return [(st, st.env[e.id])]
            if e.id in ("True", "False", "None"):
                return [(st, const({"True": True, "False": False, "None": None}[e.id]))]
            return [(st, self._global_name(e.id))]
        if isinstance(e, ast.Attribute):
            out = []
            for s, b in self._eval(st, e.value):
                out.extend(self._eval_attr(s, b, e))
            return out
        if isinstance(e, ast.Subscript):
            out = []
            for s, b in self._eval(st, e.value):
                for s2, i in self._eval(s, e.slice):
                    # indexing / slicing a tuple whose items are known yields those items
                    if b[0] == "tuple" and not any(x[0] in ("star",) for x in b[1]):
                        if i[0] == "const" and isinstance(i[1], int) and not isinstance(i[1], bool) and -len(b[1]) <= i[1] < len(b[1]):
                            out.append((s2, b[1][i[1]]))
                            continue
                        if i[0] == "slice" and all(x is None or (x[0] == "const" and isinstance(x[1], int)) for x in i[1:4]):
                            lo, hi, stp = [None if x is None else x[1] for x in i[1:4]]
                            out.append((s2, ("tuple", tuple(b[1][slice(lo, hi, stp)]))))
                            continue
                    out.append((s2, self._read(s2, b, i, e)))
            return out
        if isinstance(e, ast.Slice):
            parts: List[Optional[ast.AST]] = [e.lower, e.upper, e.step]
            res: List[Tuple[_State, List[Optional[Term]]]] = [(st, [])]
            for p in parts:
                nxt = []
                for s, acc in res:
                    if p is None:
                        nxt.append((s, acc + [None]))
                    else:
                        for s2, t in self._eval(s, p):
                            nxt.append((s2, acc + [t]))
                res = nxt
            return [(s, ("slice", a[0], a[1], a[2])) for s, a in res]
        if isinstance(e, ast.Call):
            return self._eval_call(st, e)
        if isinstance(e, ast.Compare):
            self._plain_literals += 1  # literal containers compared against need no identity
            try:
                res2 = self._eval_many(st, [e.left] + list(e.comparators))
            finally:
                self._plain_literals -= 1
            out = []
            for s, ts in res2:
                parts2 = []
                for i, op in enumerate(e.ops):
                    parts2.append(("cmp", _CMPSYM[type(op).__name__], ts[i], ts[i + 1]))
                out.append((s, parts2[0] if len(parts2) == 1 else ("bool", "and", tuple(parts2))))
            return out
        if isinstance(e, ast.BoolOp):
            res2 = self._eval_many_cond(st, e.values)
            return [(s, ("bool", "and" if isinstance(e.op, ast.And) else "or", tuple(ts))) for s, ts in res2]
        if isinstance(e, ast.UnaryOp):
            out = []
            for s, t in self._eval(st, e.operand):
                if isinstance(e.op, ast.Not):
                    if t[0] == "const" and isinstance(t[1], bool):
                        out.append((s, const(not t[1])))  # a flag argument of an inlined helper
                    else:
                        out.append((s, ("not", t)))
                elif isinstance(e.op, ast.USub):
                    if t[0] == "const" and isinstance(t[1], (int, float)) and not isinstance(t[1], bool):
                        out.append((s, const(-t[1])))
                    else:
                        out.append((s, ("un", "-", t)))
                elif isinstance(e.op, ast.UAdd):
                    out.append((s, t))
                else:
                    out.append((s, ("un", "~", t)))
            return out
        if isinstance(e, ast.BinOp):
            op = _BINSYM[type(e.op).__name__]
            return [(s, self._mkbin(op, ts[0], ts[1])) for s, ts in self._eval_many(st, [e.left, e.right])]
        if isinstance(e, ast.IfExp):
            if (self._ctx and self._ctx[-1] in ("lambda", "comp")) or self._quiet:
                r = self._eval_many(st, [e.test, e.body, e.orelse])
                return [(s, ("ifexp", ts[0], ts[1], ts[2])) for s, ts in r]
            out = []
            for s, b in self._decide_test(st, e.test):
                out.extend(self._eval(s, e.body if b else e.orelse))
            return out
        if isinstance(e, (ast.Tuple, ast.List, ast.Set)):
            kind = {ast.Tuple: "tuple", ast.List: "list", ast.Set: "set"}[type(e)]
            out = []
            plain = self._plain_literals > 0
            saved_pl = self._plain_literals
            self._plain_literals = 0
            try:
                parts = self._eval_many(st, e.elts)
            finally:
                self._plain_literals = saved_pl
            for s, ts in parts:
                t = (kind, tuple(ts))
                if kind in ("list", "set") and not plain:
                    t = self._fresh(s, t, e)
                out.append((s, t))
            return out
        if isinstance(e, ast.Starred):
            return [(s, ("star", t)) for s, t in self._eval(st, e.value)]
        if isinstance(e, ast.Dict):
            ks = [k for k in e.keys]
            res3: List[Tuple[_State, List[Tuple[Optional[Term], Term]]]] = [(st, [])]
            for kn, vn in zip(ks, e.values):
                nxt3 = []
                for s, acc in res3:
                    if kn is None:
                        for s2, vt in self._eval(s, vn):
                            nxt3.append((s2, acc + [(None, vt)]))
                    else:
                        for s2, kt in self._eval(s, kn):
                            for s3, vt in self._eval(s2, vn):
                                nxt3.append((s3, acc + [(kt, vt)]))
                res3 = nxt3
            return [(s, self._fresh(s, ("dict", tuple(acc)), e)) for s, acc in res3]
        if isinstance(e, ast.Lambda):
            return [(st, self._eval_lambda(st, e))]
        if isinstance(e, (ast.ListComp, ast.SetComp, ast.GeneratorExp, ast.DictComp)):
            un = self._unroll_comp(st, e)
            if un is not None:
                return un
            return [(st, self._eval_comp(st, e))]
        if isinstance(e, ast.JoinedStr):
            # evaluate embedded expressions for their calls, value is opaque
            for v in e.values:
                if isinstance(v, ast.FormattedValue):
                    self._eval_quiet(st, v.value)
            return [(st, ("fstr",))]
        if isinstance(e, (ast.Yield, ast.YieldFrom)):
            out = []
            src = e.value if e.value is not None else ast.Constant(value=None)
            for s, v in self._eval(st, src):
                self._emit(s, "yield", e, value=v)
                out.append((s, ("sym", "<sent>")))
            return out
        if isinstance(e, ast.NamedExpr):
            out = []
            for s, v in self._eval(st, e.value):
                self._assign(s, e.target, v, e)
                out.append((s, v))
            return out
        raise Unrecognised(f"expression {type(e).__name__} in {self._cur_func.qualname}")

    def _eval_many_cond(self, st: _State, nodes: Sequence[ast.AST]) -> List[Tuple[_State, List[Term]]]:
        """Operands of and/or in value position: later operands are conditional."""
        res: List[Tuple[_State, List[Term]]] = [(st, [])]
        for i, n in enumerate(nodes):
            nxt = []
            for s, acc in res:
                saved = self._ctx
                if i > 0:
                    self._ctx = self._ctx + ("cond",)
                try:
                    for s2, t in self._eval(s, n):
                        nxt.append((s2, acc + [t]))
                finally:
                    self._ctx = saved
            res = nxt
        return res

    def _eval_quiet(self, st: _State, e: ast.AST) -> Term:
        self._quiet += 1
        try:
            r = self._eval(st, e)
        finally:
            self._quiet -= 1
        if len(r) != 1 or r[0][0] is not st:
            raise Unrecognised("forking expression in a non-forking context")
        return r[0][1]

    def _fresh(self, st: _State, t: Term, node: ast.AST) -> Term:
        """Give a mutable literal an identity so that later mutations refer to it."""
        ft = ("sym", f"new{self._new_occ()}:{t[0]}")
        st.fresh.add(ft)
        # remember the literal content for rules (initial value)
        self._emit(st, "note", node, what="alloc", sym=ft, literal=t)
        return ft

    def _global_name(self, n: str) -> Term:
        mod = self._cur_func.module
        if n in mod.imports:
            target = mod.imports[n]
            owner, _, attr = target.rpartition(".")
            om = self.program.modules.get(owner)
            if om is not None and attr not in om.classes and attr not in om.functions:
                v = self._module_constant(om, attr)
                if v is not None:
                    return v
            return ("name", target)
        if n in mod.classes or n in mod.functions:
            return ("name", f"{mod.name}.{n}")
        # module-level constant?
        v = self._module_constant(mod, n)
        if v is not None:
            return v
        for node in mod.tree.body:
            if isinstance(node, ast.Assign) and len(node.targets) == 1 and isinstance(node.targets[0], ast.Name) and node.targets[0].id == n:
                return ("name", f"{mod.name}.{n}")
        return ("name", n)

    def _module_constant(self, mod, n: str, depth: int = 0) -> Optional[Term]:
        """value of a module-level name that is bound once, at module level, to an immutable literal (number, string,
        None, a tuple of such, a class or function of the package): reading it is reading that value"""
        binds = []
        for node in mod.tree.body:
            if isinstance(node, ast.Assign):
                for t in node.targets:
                    if isinstance(t, ast.Name) and t.id == n:
                        binds.append(node.value)
            elif isinstance(node, ast.AnnAssign) and isinstance(node.target, ast.Name) and node.target.id == n and node.value is not None:
                binds.append(node.value)
            elif isinstance(node, (ast.AugAssign,)) and isinstance(node.target, ast.Name) and node.target.id == n:
                return None
        if len(binds) != 1:
            return None
        # rebound somewhere else (global statement)?
        for x in ast.walk(mod.tree):
            if isinstance(x, ast.Global) and n in x.names:
                return None

        def val(e: ast.AST) -> Optional[Term]:
            if isinstance(e, ast.Constant):
                return const(e.value)
            if isinstance(e, ast.Tuple):
                items = [val(x) for x in e.elts]
                return None if any(i is None for i in items) else ("tuple", tuple(items))
            if isinstance(e, ast.UnaryOp) and isinstance(e.op, ast.USub):
                x = val(e.operand)
                return const(-x[1]) if x is not None and x[0] == "const" and isinstance(x[1], (int, float)) and not isinstance(x[1], bool) else None
            if isinstance(e, ast.BinOp) and isinstance(e.op, (ast.Add, ast.Sub, ast.Mult, ast.Pow)):
                a, b = val(e.left), val(e.right)
                if a is not None and b is not None and a[0] == b[0] == "const" and all(isinstance(x[1], (int, float)) and not isinstance(x[1], bool) for x in (a, b)):
                    try:
                        if isinstance(e.op, ast.Pow) and (abs(b[1]) > 64 or abs(a[1]) > 1024):
                            return None
                        return const({ast.Add: a[1] + b[1], ast.Sub: a[1] - b[1], ast.Mult: a[1] * b[1], ast.Pow: a[1] ** b[1]}[type(e.op)])
                    except Exception:
                        return None
                return None
            if isinstance(e, ast.Call) and isinstance(e.func, ast.Name) and e.func.id == "float" and len(e.args) == 1 and isinstance(e.args[0], ast.Constant) and e.args[0].value in ("inf", "-inf"):
                return const(float(e.args[0].value))
            if isinstance(e, ast.Name):
                if e.id in mod.classes or e.id in mod.functions:
                    return ("name", f"{mod.name}.{e.id}")
                if e.id in mod.imports:
                    return ("name", mod.imports[e.id])
                if depth < 3:
                    return self._module_constant(mod, e.id, depth + 1)
            return None

        return val(binds[0])

    def _eval_attr(self, st: _State, base: Term, e: ast.Attribute) -> List[Tuple[_State, Term]]:
        # property of a package class -> inline trivial ones
        if base[0] == "name":
            return [(st, ("name", base[1] + "." + e.attr))]
        prop = self._property_target(e)
        if prop is not None:
            return self._call_function(st, prop, base, [], {}, e, is_property=True)
        return [(st, self._read(st, base, e.attr, e))]

    def _property_target(self, e: ast.Attribute) -> Optional[FuncInfo]:
        from .callgraph import classes_of

        env = self._tenv()
        cs = [c for c in classes_of(env.type_of(e.value)) if c in self.program.classes]
        found: List[FuncInfo] = []
        for c in cs:
            m = self.program.lookup_method(c, e.attr)
            if m is None or not m.is_property:
                return None  # a plain attribute for at least one possible receiver class
            if m not in found:
                found.append(m)
        if len(found) == 1:
            return found[0]
        return None

    def _tenv(self) -> TypeEnv:
        return self._tenv_stack[-1]

    # ------------------------------------------------------------------ lambdas / comprehensions
    def _eval_lambda(self, st: _State, e: ast.Lambda) -> Term:
        from .types import LambdaEnv

        params = tuple(a.arg for a in e.args.args)
        saved_env = st.env
        st.env = dict(st.env)
        for p in params:
            st.env[p] = ("bound", p)
        saved_ctx = self._ctx
        self._ctx = self._ctx + ("lambda",)
        self._push_tenv(LambdaEnv(self._tenv(), e, self.cg._lambda_arg_types.get(id(e), [])))
        deferred = getattr(self, "_deferred_sink", None) is None and self._lambda_is_deferred(e)
        if deferred:
            self._deferred_sink = []
        try:
            body = self._eval_quiet(st, e.body)
        finally:
            self._pop_tenv()
            self._ctx = saved_ctx
            st.env = saved_env
            if deferred:
                sink, self._deferred_sink = self._deferred_sink, None
        if deferred and sink:
            bound = set(params) | {a.arg for a in e.args.kwonlyargs}
            free = sorted({n.id for n in ast.walk(e.body) if isinstance(n, ast.Name) and isinstance(n.ctx, ast.Load) and n.id not in bound})
            self._emit(st, "note", e, what="deferred", events=sink, free=free)
        term = ("lambda", params, body)
        # remembered for a later application of this very closure (passed to a local function, called after a loop):
        # its defaults are evaluated now, its free variables are read when it runs
        if not e.args.kwonlyargs and e.args.vararg is None and e.args.kwarg is None and not self._quiet:
            try:
                dvals = [self._eval_quiet(st, d) for d in e.args.defaults]
            except Unrecognised:
                dvals = None
            if dvals is not None:
                if not hasattr(self, "_lambda_nodes"):
                    self._lambda_nodes = {}
                self._lambda_nodes[term] = (e, dict(st.env), dvals, self._cur_func)
        return term

    def _unroll_comp(self, st: _State, e: ast.AST) -> Optional[List[Tuple[_State, Term]]]:
        """[f(x) for x in (a, b)] over a short literal sequence is the list [f(a), f(b)]: evaluated item
        by item (so the calls in f are ordinary events), like a for-loop over a literal tuple"""
        if not isinstance(e, ast.ListComp) or len(e.generators) != 1 or e.generators[0].ifs or self._quiet:
            return None
        if self._ctx and self._ctx[-1] in ("lambda", "comp"):
            return None
        g = e.generators[0]
        if any(isinstance(n, (ast.Lambda, ast.ListComp, ast.SetComp, ast.DictComp, ast.GeneratorExp, ast.NamedExpr)) for n in ast.walk(e.elt)):
            return None
        it = self._eval_quiet(st, g.iter)
        items = self._literal_items(st, it)
        if items is None or len(items) > 6:
            return None
        names = self._target_names(g.target)
        saved = {n: st.env.get(n) for n in names}
        states: List[Tuple[_State, List[Term]]] = [(st, [])]
        for item in items:
            nxt: List[Tuple[_State, List[Term]]] = []
            for s, acc in states:
                self._assign(s, g.target, item, e)
                for s2, v in self._eval(s, e.elt):
                    nxt.append((s2, acc + [v]))
            states = nxt
        out = []
        for s, acc in states:
            for n, v in saved.items():
                if v is None:
                    s.env.pop(n, None)
                else:
                    s.env[n] = v
            out.append((s, self._fresh(s, ("list", tuple(acc)), e)))
        return out

    def _eval_comp(self, st: _State, e: ast.AST) -> Term:
        from .types import _CompEnv

        saved_env = st.env
        st.env = dict(st.env)
        saved_ctx = self._ctx
        gens = []
        try:
            tenv = self._tenv()
            for i, g in enumerate(e.generators):  # type: ignore[attr-defined]
                it = self._eval_quiet(st, g.iter)
                names = tuple(self._target_names(g.target))
                for n in names:
                    st.env[n] = ("bound", n)
                if i == 0:
                    self._ctx = self._ctx + ("comp",)
                    self._push_tenv(_CompEnv(tenv, e.generators))  # type: ignore[attr-defined]
                conds = tuple(self._eval_quiet(st, c) for c in g.ifs)
                gens.append((names, it, conds))
            if isinstance(e, ast.DictComp):
                elt: Term = ("tuple", (self._eval_quiet(st, e.key), self._eval_quiet(st, e.value)))
                kind = "dictcomp"
            else:
                elt = self._eval_quiet(st, e.elt)  # type: ignore[attr-defined]
                kind = {ast.ListComp: "listcomp", ast.SetComp: "setcomp", ast.GeneratorExp: "genexp"}[type(e)]
        finally:
            if self._ctx != saved_ctx:
                self._pop_tenv()
            self._ctx = saved_ctx
            st.env = saved_env
        return ("comp", kind, elt, tuple(gens))

    def _push_tenv(self, env: TypeEnv) -> None:
        self._tenv_stack.append(env)

    def _pop_tenv(self) -> None:
        self._tenv_stack.pop()

    # ------------------------------------------------------------------ calls
    def _eval_call(self, st: _State, e: ast.Call) -> List[Tuple[_State, Term]]:
        fname = _name_of(e.func) or ""
        short = fname.split(".")[-1]
        # cast(T, x) is the identity
        if short == "cast" and len(e.args) == 2 and not e.keywords:
            return self._eval(st, e.args[1])
        # len(x) for an object of a package class whose __len__ is `return len(self.<attr>)` is len(x.<attr>)
        if fname == "len" and len(e.args) == 1 and not e.keywords and isinstance(e.args[0], (ast.Name, ast.Attribute)):
            from .callgraph import classes_of as _classes_of

            try:
                cs_ = [c for c in _classes_of(self._tenv().type_of(e.args[0])) if c in self.program.classes]
            except Exception:
                cs_ = []
            if len(cs_) == 1:
                lm = self.program.lookup_method(cs_[0], "__len__")
                if lm is not None and not self.program.overrides(cs_[0], "__len__"):
                    body_ = [x for x in lm.node.body if not (isinstance(x, ast.Expr) and isinstance(x.value, ast.Constant))]
                    if len(body_) == 1 and isinstance(body_[0], ast.Return) and isinstance(body_[0].value, ast.Call) and isinstance(body_[0].value.func, ast.Name) and body_[0].value.func.id == "len" \
                            and len(body_[0].value.args) == 1 and isinstance(body_[0].value.args[0], ast.Attribute) and isinstance(body_[0].value.args[0].value, ast.Name) and body_[0].value.args[0].value.id == "self":
                        inner = ast.Call(func=ast.Name(id="len", ctx=ast.Load()), args=[ast.Attribute(value=e.args[0], attr=body_[0].value.args[0].attr, ctx=ast.Load())], keywords=[])
                        return self._eval_call(st, ast.fix_missing_locations(ast.copy_location(inner, e)))
        # receiver / function term
        recv_states: List[Tuple[_State, Term, Optional[Term]]] = []
        if isinstance(e.func, ast.Attribute):
            if (
                isinstance(e.func.value, ast.Call)
                and isinstance(e.func.value.func, ast.Name)
                and e.func.value.func.id == "super"
            ):
                selfterm = st.env.get("self", ("sym", "self"))
                recv_states = [(st, ("attr", ("call", ("name", "super"), (), (), None), e.func.attr), selfterm)]
            else:
                for s, b in self._eval(st, e.func.value):
                    if b[0] == "name":
                        recv_states.append((s, ("name", b[1] + "." + e.func.attr), None))
                    else:
                        recv_states.append((s, ("attr", b, e.func.attr), b))
        else:
            for s, f in self._eval(st, e.func):
                recv_states.append((s, f, None))
        out: List[Tuple[_State, Term]] = []
        for s, fterm, recv in recv_states:
            argnodes = list(e.args)
            for s2, argts in self._eval_many(s, argnodes):
                kwnodes = [k.value for k in e.keywords]
                for s3, kwts in self._eval_many(s2, kwnodes):
                    kws = []
                    for k, t in zip(e.keywords, kwts):
                        if k.arg is None:
                            kws.append(("**", t))
                        else:
                            kws.append((k.arg, t))
                    out.extend(self._apply(s3, e, fterm, recv, argts, kws))
        return out

    def _as_expression(self, f: FuncInfo) -> Optional[ast.expr]:
        """the expression a function returns, if it is `return E` or `if C: return A` followed by `return B`
        (or `else: return B`), which is `A if C else B`"""
        body = [s for s in f.node.body if not (isinstance(s, ast.Expr) and isinstance(s.value, ast.Constant))]
        if len(body) == 1 and isinstance(body[0], ast.Return) and body[0].value is not None:
            return body[0].value
        if body and isinstance(body[0], ast.If) and len(body[0].body) == 1 and isinstance(body[0].body[0], ast.Return) and body[0].body[0].value is not None:
            other = None
            if len(body) == 2 and not body[0].orelse and isinstance(body[1], ast.Return) and body[1].value is not None:
                other = body[1].value
            elif len(body) == 1 and len(body[0].orelse) == 1 and isinstance(body[0].orelse[0], ast.Return) and body[0].orelse[0].value is not None:
                other = body[0].orelse[0].value
            if other is not None:
                ife = ast.IfExp(test=body[0].test, body=body[0].body[0].value, orelse=other)
                ast.copy_location(ife, body[0])
                ast.fix_missing_locations(ife)
                return ife
        return None

    def _trivial(self, f: FuncInfo) -> bool:
        ex = self._as_expression(f)
        if ex is None:
            return False
        if f.is_abstract:
            return False
        if isinstance(ex, ast.IfExp) and f.outer is None:
            return False  # the two-return form is folded into an expression for local functions only (methods keep their paths)
        # an expression without comprehension/lambda (a local function may hold a comprehension: its bound
        # names are checked against the arguments where it is folded in)
        for n in ast.walk(ex):
            if isinstance(n, ast.Lambda) or (isinstance(n, (ast.ListComp, ast.GeneratorExp, ast.SetComp, ast.DictComp)) and f.outer is None):
                return False
        return True

    def _dyn_site(self, e: ast.Call, site: CallSite, fterm: Term, recv: Optional[Term]) -> Tuple[CallSite, Optional[str]]:
        """resolve calls the static resolver cannot see: class objects held in variables,
        methods selected by a conditional expression or getattr(self, 'name')"""
        if site.targets or site.how in ("ctor",):
            return site, None
        p = self.program
        if fterm[0] == "name":
            cname = fterm[1].split(".")[-1]
            if cname in p.classes and (fterm[1].startswith(p.pkg + ".") or fterm[1] == cname):
                init = p.lookup_method(cname, "__init__")
                return CallSite(site.caller, e, [init] if init else [], "ctor", cname, [cname]), cname
        if fterm[0] == "name" and fterm[1].count(".") >= 1:
            # Class.method(...) naming a static method of a package class
            parts_ = fterm[1].split(".")
            cname, mname = parts_[-2], parts_[-1]
            if cname in p.classes and (fterm[1].startswith(p.pkg + ".") or len(parts_) == 2):
                m = p.lookup_method(cname, mname)
                if m is not None and m.is_static:
                    return CallSite(site.caller, e, [m], "exact", mname, [cname]), mname
        if fterm[0] == "attr" and fterm[1] == ("sym", "self") and self._cur_func.cls is not None:
            owner = self._cur_func
            m = p.lookup_method(owner.cls.name, fterm[2])
            if m is not None:
                tg = [m] + [o for o in p.overrides(owner.cls.name, fterm[2])]
                return CallSite(site.caller, e, tg, "exact" if len(tg) == 1 else "cha", fterm[2], [owner.cls.name]), fterm[2]
        return site, None

    def _apply(self, st: _State, e: ast.Call, fterm: Term, recv: Optional[Term], args: List[Term], kws: List[Tuple[str, Term]]) -> List[Tuple[_State, Term]]:
        # getattr / setattr with a name that is known here are an attribute read / write
        if fterm == ("name", "setattr") and len(args) == 3 and not kws and args[1][0] == "const" and isinstance(args[1][1], str):
            self._store(st, args[0], args[1][1], args[2], e)
            return [(st, NONE)]
        if fterm == ("name", "getattr") and len(args) == 2 and not kws and args[1][0] == "const" and isinstance(args[1][1], str):
            return [(st, self._read(st, args[0], args[1][1], e))]
        # calling a closure that was created earlier on this path: run its body here, with what it was given
        # when it was created (defaults) and what its free variables hold now
        if fterm[0] == "lambda" and getattr(self, "_lambda_nodes", {}).get(fterm) is not None and not (bool(self._ctx) and self._ctx[-1] in ("lambda", "comp")) and not self._quiet:
            lnode, lenv, dvals, lfunc = self._lambda_nodes[fterm]
            params = list(fterm[1])
            if len(args) <= len(params) and all(k in params[len(args):] for k, _ in kws):
                bind: Dict[str, Term] = {}
                for p_, a in zip(params, args):
                    bind[p_] = a
                for k, v in kws:
                    bind[k] = v
                ndef = len(dvals)
                for i, p_ in enumerate(params):
                    if p_ not in bind:
                        j = i - (len(params) - ndef)
                        if j >= 0:
                            bind[p_] = dvals[j]
                if len(bind) == len(params):
                    env = dict(lenv)
                    if self._cur_func is lfunc or (self._cur_func is not None and self._cur_func.outer is lfunc):
                        env.update(st.env)
                    env.update(bind)
                    saved_env = st.env
                    st.env = env
                    try:
                        res = self._eval(st, lnode.body)
                    finally:
                        pass
                    out_l = []
                    for s2, v in res:
                        s2.env = saved_env if s2 is st else dict(saved_env)
                        out_l.append((s2, v))
                    st.env = saved_env
                    return out_l
        # calling a lambda term: substitute its parameters
        if fterm[0] == "lambda" and all(k in fterm[1][len(args):] for k, _ in kws) and len(args) + len(kws) == len(fterm[1]) and len({k for k, _ in kws}) == len(kws):
            from .terms import substitute

            binding = {("bound", p_): a for p_, a in zip(fterm[1], args)}
            binding.update({("bound", k): v for k, v in kws})
            return [(st, substitute(fterm[2], binding))]
        # a typing.NamedTuple without methods is a tuple with named positions
        if fterm[0] == "name" and not any(k in ("*", "**") for k, _ in kws):
            ci_ = self.program.classes.get(fterm[1].split(".")[-1])
            if ci_ is not None and "NamedTuple" in getattr(ci_, "bases", []) and not ci_.methods:
                fields_ = list(getattr(ci_, "class_annotations", {}) or {})
                vals_ = list(args) + [None] * (len(fields_) - len(args))
                okc = len(args) <= len(fields_)
                for k, v in kws:
                    if k in fields_ and vals_[fields_.index(k)] is None:
                        vals_[fields_.index(k)] = v
                    else:
                        okc = False
                if okc and all(v is not None for v in vals_):
                    return [(st, ("tuple", tuple(vals_)))]
        # the operator module spells operators as functions
        fk = key(fterm) if fterm[0] in ("name", "attr") else ""
        if fk.startswith("operator.") and not kws:
            opn = fk.split(".", 1)[1]
            cmpo = {"gt": ">", "lt": "<", "ge": ">=", "le": "<=", "eq": "==", "ne": "!=", "is_": "is", "is_not": "is not", "contains": None}
            bino = {"add": "+", "sub": "-", "mul": "*", "truediv": "/", "floordiv": "//", "mod": "%"}
            if opn in cmpo and cmpo[opn] is not None and len(args) == 2:
                for s2, t2 in [(st, ("cmp", cmpo[opn], args[0], args[1]))]:
                    c2, pol2 = canon_pred(t2)
                    return [(s2, c2 if pol2 else ("not", c2))]
            if opn in bino and len(args) == 2:
                return [(st, ("bin", bino[opn], args[0], args[1]))]
            if opn == "not_" and len(args) == 1:
                return [(st, ("not", args[0]))]
            if opn == "neg" and len(args) == 1:
                return [(st, ("un", "-", args[0]))]
        # operator.attrgetter('a')(x) is x.a; operator.methodcaller('m', ...)(x) is x.m(...)
        if fterm[0] == "call" and key(fterm[1]) in ("operator.attrgetter", "attrgetter") and len(fterm[2]) == 1 and fterm[2][0][0] == "const" and isinstance(fterm[2][0][1], str) and "." not in fterm[2][0][1] and len(args) == 1 and not kws:
            return [(st, self._read(st, args[0], fterm[2][0][1], e))]
        if fterm[0] == "call" and key(fterm[1]) in ("operator.methodcaller", "methodcaller") and fterm[2] and fterm[2][0][0] == "const" and isinstance(fterm[2][0][1], str) and len(args) == 1 and not kws:
            recv = args[0]
            args = list(fterm[2][1:])
            kws = list(fterm[3])
            fterm = ("attr", recv, fterm[2][0][1])
            self._methodcaller_name = fterm[2]
        # getattr(obj, 'name')(...) is a method call
        if fterm[0] == "call" and fterm[1] == ("name", "getattr") and len(fterm[2]) == 2 and fterm[2][1][0] == "const" and isinstance(fterm[2][1][1], str):
            recv = fterm[2][0]
            fterm = ("attr", recv, fterm[2][1][1])
        # f(**{...}) with a literal dict: spread the keywords
        if any(k == "**" for k, _ in kws):
            nk: List[Tuple[str, Term]] = []
            for k, v in kws:
                lit = None
                if k == "**":
                    lit = v if v[0] == "dict" else None
                    if lit is None and v[0] == "sym":
                        for ev0 in reversed(st.events):
                            if ev0.kind == "note" and ev0.data.get("what") == "alloc" and ev0.data.get("sym") == v:
                                lit = ev0.data["literal"]
                                break
                if lit is not None and lit[0] == "dict" and all(kk is not None and kk[0] == "const" and isinstance(kk[1], str) for kk, _ in lit[1]):
                    nk.extend((kk[1], vv) for kk, vv in lit[1])
                else:
                    nk.append((k, v))
            kws = nk
        if recv is None and fterm[0] == "attr":
            recv = fterm[1]
        site = self._site(e)
        site, dyn_name = self._dyn_site(e, site, fterm, recv)
        mc = getattr(self, "_methodcaller_name", None)
        if mc:
            dyn_name = dyn_name or mc  # the method named by operator.methodcaller
            self._methodcaller_name = None
        fname = _name_of(e.func) or ""
        short = dyn_name or fname.split(".")[-1]
        if dyn_name is None and site.how == "ctor" and fterm[0] == "name" and fterm[1].split(".")[-1] in self.program.classes:
            short = fterm[1].split(".")[-1]  # a class object held in a variable: the constructed class is known
        if dyn_name and fterm[0] == "attr":
            fname = "self." + dyn_name
        in_sub = bool(self._ctx) and self._ctx[-1] in ("lambda", "comp")
        # inline?
        if (
            not in_sub
            and len(site.targets) == 1
            and site.how in ("exact", "plain", "super")
            and self._depth < self.max_inline_depth
            and not any(a[0] in ("star", "dstar") for a in args)
            and not any(k == "**" for k, _ in kws)
        ):
            tgt = site.targets[0]
            if tgt.name in self.keep or tgt.qualname in self.keep:
                pass
            elif self.inline(tgt) or (self.auto_inline_trivial and self._trivial(tgt) and tgt.name != "__init__"):
                return self._call_function(st, tgt, recv, args, dict(kws), e)
            gbody = self._generator_as_genexp(tgt) if not (tgt.name in self.keep or tgt.qualname in self.keep) else None
            if gbody is not None:
                return self._call_function(st, tgt, recv, args, dict(kws), e, body=gbody)
        # inside a comprehension / lambda: a private single-expression helper is still the expression it returns
        if (
            in_sub
            and len(site.targets) == 1
            and site.how in ("exact", "plain", "super")
            and self._depth < self.max_inline_depth
            and not any(a[0] in ("star", "dstar") for a in args)
            and not any(k == "**" for k, _ in kws)
        ):
            tgt = site.targets[0]
            if not (tgt.name in self.keep or tgt.qualname in self.keep) and self._trivial(tgt) and tgt.name != "__init__" and (self.inline(tgt) or self.auto_inline_trivial):
                val = self._inline_expression(st, tgt, recv, args, dict(kws))
                if val is not None:
                    return [(st, val)]
        # classify purity
        pure = False
        mods: Set[Tuple[str, str]] = set()
        noise = fname in NOISE_CALLS
        if site.targets and site.how != "byname":
            for t in site.targets:
                mods |= self.cg.mod_attrs(t)
            pure = not mods and not self._uses_prng(site)
        elif site.how in ("external", "unknown"):
            root = fname.split(".")[0]
            if isinstance(e.func, ast.Name) and short in PURE_BUILTINS:
                pure = True
            elif root in PURE_MODULES or fname in PURE_MODULES:
                pure = not fname.startswith("np.random")
            elif short in ("copy", "keys", "values", "items", "get", "index", "count", "startswith", "endswith", "format", "join", "tolist", "reshape", "__str__"):
                pure = True
        term: Term
        if pure:
            term = ("call", fterm, tuple(args), tuple(kws), None)
            # pure getters depend on the heap: distinguish calls across heap changes
            if site.targets and st.epoch:
                term = ("call", fterm, tuple(args), tuple(kws) + (("@epoch", const(st.epoch)),), None)
        else:
            term = ("call", fterm, tuple(args), tuple(kws), self._new_occ())
        ev = self._emit(st, "call", e, term=term, fterm=fterm, recv=recv, args=tuple(args), kwargs=tuple(kws),
                        site=site, pure=pure, name=short, fname=fname, noise=noise,
                        ver_snapshot=(dict(st.attr_ver) if site.how == "ctor" else None))
        # heap effects of the call
        if mods:
            self._bump(st, mods)
            names = {a for _, a in mods}
            st.sub_store = {k: v for k, v in st.sub_store.items() if not (k[0][0] == "attr" and k[0][2] in names)}
            for a in names:
                st.elem_ver[a] = st.elem_ver.get(a, 0) + 1
            st.epoch += 1
        elif not pure and not noise:
            mut_base: Optional[Term] = None
            if isinstance(e.func, ast.Attribute) and e.func.attr in MUTATORS and recv is not None:
                mut_base = recv
            elif short in HEAP_MUTATORS and fname.startswith("heapq") and args:
                mut_base = args[0]
            if mut_base is not None:
                ev.data["mutates"] = mut_base
                self._elem_mutated(st, mut_base, None)
                if not self._is_local_fresh(st, mut_base):
                    st.epoch += 1
            elif site.how in ("unknown", "byname") or (site.targets and self._uses_prng(site)):
                st.epoch += 1
        # constructor results are fresh objects
        if site.how == "ctor" or (isinstance(e.func, ast.Name) and short in ("list", "dict", "set")):
            if term[4] is None:
                term = ("call", fterm, tuple(args), tuple(kws), self._new_occ())
                ev.data["term"] = term
            st.fresh.add(term)
        # a constructor, or a package function annotated to return an object of a class (not Optional), does not return None
        try:
            from .types import parse_ann

            nn = site.how == "ctor" or (site.targets and site.how != "byname" and all(parse_ann(t.node.returns, self.program)[0] == "cls" for t in site.targets))
            if not nn and not site.targets and short in ("heappop", "pop", "heappushpop", "heapreplace") and args:
                # an element taken out of a list declared to hold objects of a class
                tt = self._tenv().type_of(e)
                nn = bool(tt) and tt[0] == "cls"
            if nn:
                if not hasattr(self, "_nonnull"):
                    self._nonnull = set()
                self._nonnull.add(term)
        except Exception:
            pass
        return [(st, term)]

    def _uses_prng(self, site: CallSite) -> bool:
        # conservatively: methods named like stochastic draws or touching prng attributes
        for t in site.targets:
            for n in ast.walk(t.node):
                if isinstance(n, ast.Attribute) and n.attr in ("prng", "_prng", "_np_prng"):
                    return True
        return False

    def _generator_as_genexp(self, tgt: FuncInfo) -> Optional[List[ast.stmt]]:
        """A private generator helper of the shape `for T in IT: [if C:] yield E` yields exactly the
        items of the generator expression `(E for T in IT if C)`; both are lazy.  Returns the
        equivalent body `return (E for T in IT if C)`, or None for any other shape."""
        if tgt.outer is not None or tgt.is_abstract or not tgt.name.startswith("_") or tgt.name.startswith("__"):
            return None
        from .kit import anchor_names

        if tgt.name in anchor_names():
            return None
        body = [x for x in tgt.node.body if not (isinstance(x, ast.Expr) and isinstance(x.value, ast.Constant))]
        if len(body) != 1 or not isinstance(body[0], ast.For) or body[0].orelse:
            return None
        loop = body[0]
        inner = loop.body
        ifs: List[ast.expr] = []
        while len(inner) == 1 and isinstance(inner[0], ast.If) and not inner[0].orelse:
            ifs.append(inner[0].test)
            inner = inner[0].body
        if len(inner) != 1 or not isinstance(inner[0], ast.Expr) or not isinstance(inner[0].value, ast.Yield) or inner[0].value.value is None:
            return None
        if sum(1 for x in ast.walk(tgt.node) if isinstance(x, (ast.Yield, ast.YieldFrom))) != 1:
            return None
        ge = ast.GeneratorExp(elt=inner[0].value.value, generators=[ast.comprehension(target=loop.target, iter=loop.iter, ifs=ifs, is_async=0)])
        ret = ast.Return(value=ge)
        ast.copy_location(ge, loop)
        ast.copy_location(ret, loop)
        ast.fix_missing_locations(ret)
        return [ret]

    def _inline_expression(self, st: _State, tgt: FuncInfo, recv: Optional[Term], args: List[Term], kws: Dict[str, Term]) -> Optional[Term]:
        """value of a single-`return <expr>` function applied to the given arguments, evaluated in place
        (used inside comprehensions and lambdas, where statements cannot be run)"""
        a = tgt.node.args
        if a.vararg is not None or a.kwarg is not None or a.kwonlyargs:
            return None
        params = [x.arg for x in a.posonlyargs + a.args]
        env: Dict[str, Term] = {}
        if tgt.cls is not None and not tgt.is_static and tgt.outer is None:
            if recv is None or not params:
                return None
            env[params[0]] = recv
            params = params[1:]
        if len(args) > len(params):
            return None
        for p_, v in zip(params, args):
            env[p_] = v
        for p_ in params[len(args):]:
            if p_ in kws:
                env[p_] = kws[p_]
            else:
                return None
        if set(kws) - set(params):
            return None
        expr = self._as_expression(tgt)
        if expr is None:
            return None
        inner_bound = {n.id for c in ast.walk(expr) if isinstance(c, ast.comprehension) for n in ast.walk(c.target) if isinstance(n, ast.Name)}
        if inner_bound:
            from .terms import subterms as _subterms

            if any(x[0] == "bound" and x[1] in inner_bound for v in list(env.values()) for x in _subterms(v)):
                return None  # an argument mentions a comprehension variable of the same name: no capture-free substitution
        saved_env, saved_func = st.env, self._cur_func
        if tgt.outer is not None:
            for k2, v2 in saved_env.items():
                env.setdefault(k2, v2)  # a local function reads the variables of the function that defines it
        st.env = env
        self._cur_func = tgt
        self._depth += 1
        self._push_tenv(self.cg.env(tgt))
        try:
            return self._eval_quiet(st, expr)
        finally:
            self._pop_tenv()
            self._depth -= 1
            self._cur_func = saved_func
            st.env = saved_env

    def _call_function(self, st: _State, tgt: FuncInfo, recv: Optional[Term], args: List[Term], kws: Dict[str, Term], node: ast.AST, is_property: bool = False, body: Optional[List[ast.stmt]] = None) -> List[Tuple[_State, Term]]:
        """Inline `tgt`: evaluate its body in the caller's state with a fresh environment."""
        a = tgt.node.args
        params = [x.arg for x in a.posonlyargs + a.args]
        env: Dict[str, Term] = {}
        pos = list(args)
        if tgt.cls is not None and not tgt.is_static and tgt.outer is None:
            if recv is None:
                raise Unrecognised(f"method {tgt.qualname} called without receiver")
            env[params[0]] = recv
            params = params[1:]
        for p, v in zip(params, pos):
            env[p] = v
        rest = params[len(pos):]
        defaults = a.defaults
        ndef = len(defaults)
        all_pos = [x.arg for x in a.posonlyargs + a.args]
        for p in rest:
            if p in kws:
                env[p] = kws[p]
            else:
                i = all_pos.index(p) - (len(all_pos) - ndef)
                if i >= 0:
                    env[p] = self._eval_quiet(st, defaults[i])
                else:
                    raise Unrecognised(f"missing argument {p} for {tgt.qualname}")
        for ka, kd in zip(a.kwonlyargs, a.kw_defaults):
            if ka.arg in kws:
                env[ka.arg] = kws[ka.arg]
            elif kd is not None:
                env[ka.arg] = self._eval_quiet(st, kd)
        if a.kwarg is not None:
            used = set(env.keys())
            rest_kw = [(k2, v2) for k2, v2 in kws.items() if k2 not in all_pos and k2 not in [x.arg for x in a.kwonlyargs]]
            env[a.kwarg.arg] = self._fresh(st, ("dict", tuple((const(k2), v2) for k2, v2 in rest_kw)), node)
        if a.vararg is not None:
            env[a.vararg.arg] = ("tuple", tuple(pos[len(params):])) if len(pos) > len(params) else ("tuple", ())
        if tgt.outer is not None:
            # closure: inherit the caller's environment for free variables
            for k2, v2 in st.env.items():
                env.setdefault(k2, v2)
        saved = (self._cur_func, self._depth, self._ctx)
        saved_env = st.env
        self._emit(st, "note", node, what="inline", target=tgt.qualname)
        self._cur_func = tgt
        self._depth += 1
        self._ctx = ()
        self._push_tenv(self.cg.env(tgt))
        st.env = env
        try:
            res = self._exec_block([st], body if body is not None else tgt.node.body)
        finally:
            self._pop_tenv()
            self._cur_func, self._depth, self._ctx = saved
        out: List[Tuple[_State, Term]] = []
        for s, ex in res:
            s.env = saved_env if s is st else dict(saved_env)
            if ex is None:
                out.append((s, NONE))
            elif ex[0] == "return":
                out.append((s, ex[1]))
            elif ex[0] == "raise":
                self._emit(s, "note", node, what="raise-in-inline", exc=ex[1], target=tgt.qualname)
                s.raised = ex
                out.append((s, ("sym", "<raised>")))
            else:
                raise Unrecognised(f"exit {ex[0]} escaping inlined {tgt.qualname}")
        return out


def evaluate(cg: CallGraph, qualname: str, **kw: Any) -> List[Path]:
    f = cg.program.func(qualname)
    return Evaluator(cg, f, **kw).run()
