"""L3/L4: resolved call graph and attribute write effects over the whole package."""
from __future__ import annotations

import ast
from dataclasses import dataclass, field
from typing import Dict, Iterable, List, Optional, Set, Tuple

from .loader import AnalysisError, FuncInfo, Program
from .types import UNK, ClassTable, LambdaEnv, Type, TypeEnv, _CompEnv, _name_of, strip_opt

CONTAINER_METHODS = {
    "append", "extend", "insert", "remove", "pop", "clear", "update", "setdefault", "sort",
    "reverse", "popitem", "add", "discard", "copy", "get", "keys", "values", "items", "index",
    "count", "join", "split", "format", "startswith", "endswith", "tolist", "reshape", "lower",
    "upper", "strip",
}
MUTATORS = {
    "append", "extend", "insert", "remove", "pop", "clear", "update", "setdefault", "sort",
    "reverse", "popitem", "add", "discard",
}
HEAP_MUTATORS = {"heappush", "heappop", "heapify", "heapreplace", "heappushpop"}


def classes_of(t: Type) -> List[str]:
    t = strip_opt(t)
    if t[0] == "cls":
        return [t[1]]
    if t[0] == "union":
        out: List[str] = []
        for x in t[1]:
            out.extend(classes_of(x))
        return out
    return []


@dataclass
class CallSite:
    caller: FuncInfo
    node: ast.Call
    targets: List[FuncInfo]
    how: str  # exact | cha | byname | ctor | super | plain | deferred | external | unknown
    name: str  # syntactic callee name (last component)
    recv: List[str] = field(default_factory=list)


@dataclass
class Write:
    func: FuncInfo
    node: ast.AST
    kind: str  # store | aug | elem | elem_aug | del | delelem | mutcall | heap | rebind
    attr: str
    recv: List[str]  # resolved receiver classes ([] = unknown)
    recv_expr: Optional[ast.AST] = None
    detail: str = ""


class _Scope:
    """Walk a function body resolving types inside comprehensions and lambdas."""

    def __init__(self, cg: "CallGraph", func: FuncInfo):
        self.cg = cg
        self.func = func
        self.env = TypeEnv(cg.program, func, cg.ctab)

    def walk(self) -> None:
        for stmt in self.func.node.body:
            self._visit(stmt, self.env)

    def _visit(self, node: ast.AST, env: TypeEnv) -> None:
        if isinstance(node, ast.FunctionDef):
            return  # nested defs are separate FuncInfos
        if isinstance(node, (ast.ListComp, ast.SetComp, ast.GeneratorExp, ast.DictComp)):
            sub = _CompEnv(env, node.generators)
            for g in node.generators:
                self._visit(g.iter, env)
                for c in g.ifs:
                    self._visit(c, sub)
            if isinstance(node, ast.DictComp):
                self._visit(node.key, sub)
                self._visit(node.value, sub)
            else:
                self._visit(node.elt, sub)
            return
        if isinstance(node, ast.Lambda):
            sub = LambdaEnv(env, node, self.cg._lambda_arg_types.get(id(node), []))
            self._visit(node.body, sub)
            return
        if isinstance(node, ast.Call):
            self._pre_lambda_types(node, env)
            self.cg._record_call(self.func, node, env)
        self.cg._record_writes(self.func, node, env)
        for ch in ast.iter_child_nodes(node):
            self._visit(ch, env)

    def _pre_lambda_types(self, call: ast.Call, env: TypeEnv) -> None:
        # map(lambda x: ..., xs) / filter(lambda x: ..., xs): type the lambda parameter
        if isinstance(call.func, ast.Name) and call.func.id in ("map", "filter", "sorted", "min", "max"):
            lam = None
            seqs: List[ast.AST] = []
            for a in call.args:
                if isinstance(a, ast.Lambda):
                    lam = a
                else:
                    seqs.append(a)
            for kw in call.keywords:
                if isinstance(kw.value, ast.Lambda):
                    lam = kw.value
            if lam is not None and seqs:
                self.cg._lambda_arg_types[id(lam)] = [
                    env._iter_elem(s, env.type_of(s)) for s in seqs
                ]


class CallGraph:
    def __init__(self, program: Program, ctab: Optional[ClassTable] = None):
        self.program = program
        self.ctab = ctab or ClassTable(program)
        self.sites: List[CallSite] = []
        self.writes: List[Write] = []
        self._lambda_arg_types: Dict[int, List[Type]] = {}
        self._by_caller: Dict[str, List[CallSite]] = {}
        self._by_target: Dict[str, List[CallSite]] = {}
        self._writes_by_func: Dict[str, List[Write]] = {}
        self._envs: Dict[str, TypeEnv] = {}
        self._method_names: Dict[str, List[FuncInfo]] = {}
        for f in program.all_functions():
            if f.cls is not None and f.outer is None:
                self._method_names.setdefault(f.name, []).append(f)
        for f in program.all_functions():
            sc = _Scope(self, f)
            self._envs[f.qualname] = sc.env
            sc.walk()
        for s in self.sites:
            self._by_caller.setdefault(s.caller.qualname, []).append(s)
            for t in s.targets:
                self._by_target.setdefault(t.qualname, []).append(s)
        for w in self.writes:
            self._writes_by_func.setdefault(w.func.qualname, []).append(w)
        self._mod_cache: Dict[str, Set[Tuple[str, str]]] = {}

    def env(self, f: FuncInfo) -> TypeEnv:
        return self._envs[f.qualname]

    # ------------------------------------------------------------------ calls
    def resolve(self, caller: FuncInfo, call: ast.Call, env: Optional[TypeEnv] = None) -> CallSite:
        env = env or self._envs[caller.qualname]
        p = self.program
        f = call.func
        if isinstance(f, ast.Name):
            n = f.id
            if n in p.classes:
                init = p.lookup_method(n, "__init__")
                return CallSite(caller, call, [init] if init else [], "ctor", n, [n])
            tv = strip_opt(env.lookup(n))
            if tv[0] == "type" and tv[1] != UNK:
                cs = classes_of(tv[1])
                tg: List[FuncInfo] = []
                for c in cs:
                    if c in p.classes:
                        for sc in p.subclasses(c):
                            m = p.lookup_method(sc, "__init__")
                            if m and m not in tg:
                                tg.append(m)
                return CallSite(caller, call, tg, "ctor", n, cs)
            fi = env.resolve_plain(n)
            if fi is not None:
                return CallSite(caller, call, [fi], "plain", n)
            return CallSite(caller, call, [], "external", n)
        if isinstance(f, ast.Attribute):
            meth = f.attr
            # super().m()
            if (
                isinstance(f.value, ast.Call)
                and isinstance(f.value.func, ast.Name)
                and f.value.func.id == "super"
            ):
                owner = caller
                while owner.outer is not None:
                    owner = owner.outer
                if owner.cls is not None:
                    m = p.lookup_super_method(owner.cls.name, meth)
                    return CallSite(caller, call, [m] if m else [], "super", meth, [owner.cls.name])
            bt = env.type_of(f.value)
            cs = [c for c in classes_of(bt) if c in p.classes]
            if cs:
                tg = []
                for c in cs:
                    m = p.lookup_method(c, meth)
                    if m is not None and m not in tg:
                        tg.append(m)
                    for o in p.overrides(c, meth):
                        if o not in tg:
                            tg.append(o)
                return CallSite(caller, call, tg, "cha" if len(tg) > 1 else "exact", meth, cs)
            sbt = strip_opt(bt)
            if sbt != UNK and not (sbt[0] == "cls" and sbt[1] not in p.classes and False):
                # typed, but not a package class (container, external class, primitive)
                return CallSite(caller, call, [], "external", meth)
            nm = _name_of(f)
            root = (nm or "").split(".")[0]
            if root and root in caller.module.imports and not caller.module.imports[root].startswith(p.pkg):
                return CallSite(caller, call, [], "external", meth)
            if meth in self._method_names and meth not in CONTAINER_METHODS and not meth.startswith("__"):
                return CallSite(caller, call, list(self._method_names[meth]), "byname", meth)
            return CallSite(caller, call, [], "unknown", meth)
        return CallSite(caller, call, [], "unknown", "<expr>")

    def _record_call(self, caller: FuncInfo, call: ast.Call, env: TypeEnv) -> None:
        site = self.resolve(caller, call, env)
        self.sites.append(site)
        # deferred-call idiom: X.append((obj.meth, {...})) and X.append((func, {...}))
        if (
            isinstance(call.func, ast.Attribute)
            and call.func.attr == "append"
            and len(call.args) == 1
            and isinstance(call.args[0], ast.Tuple)
            and len(call.args[0].elts) == 2
            and isinstance(call.args[0].elts[1], ast.Dict)
        ):
            fn = call.args[0].elts[0]
            fake = ast.Call(func=fn, args=[], keywords=[])
            ast.copy_location(fake, call)
            s2 = self.resolve(caller, fake, env)
            if s2.targets:
                s2.how = "deferred"
                s2.node = call
                self.sites.append(s2)

    # ------------------------------------------------------------------ writes
    def _recv(self, expr: ast.AST, env: TypeEnv) -> List[str]:
        return [c for c in classes_of(env.type_of(expr))]

    def _alias_attr(self, expr: ast.AST, func: FuncInfo) -> Optional[ast.Attribute]:
        """If `expr` is a local name that is (only) assigned from an attribute expression,
        return that attribute expression (one level of aliasing)."""
        if not isinstance(expr, ast.Name):
            return None
        found: List[ast.AST] = []
        for node in ast.walk(func.node):
            if isinstance(node, (ast.Assign, ast.AnnAssign)):
                tgs = node.targets if isinstance(node, ast.Assign) else [node.target]
                for tg in tgs:
                    if isinstance(tg, ast.Name) and tg.id == expr.id and node.value is not None:
                        found.append(node.value)
        if len(found) == 1 and isinstance(found[0], ast.Attribute):
            return found[0]
        return None

    def _alias_attrs(self, expr: ast.AST, func: FuncInfo) -> List[ast.Attribute]:
        """as _alias_attr, also for a local assigned once from `a.x if c else a.y`: both attributes"""
        one = self._alias_attr(expr, func)
        if one is not None:
            return [one]
        if not isinstance(expr, ast.Name):
            return []
        found: List[ast.AST] = []
        for node in ast.walk(func.node):
            if isinstance(node, (ast.Assign, ast.AnnAssign)):
                tgs = node.targets if isinstance(node, ast.Assign) else [node.target]
                for tg in tgs:
                    if isinstance(tg, ast.Name) and tg.id == expr.id and node.value is not None:
                        found.append(node.value)
        if len(found) == 1 and isinstance(found[0], ast.IfExp) and isinstance(found[0].body, ast.Attribute) and isinstance(found[0].orelse, ast.Attribute):
            return [found[0].body, found[0].orelse]
        return []

    def _record_writes(self, func: FuncInfo, node: ast.AST, env: TypeEnv) -> None:
        W = self.writes

        def attr_store(tg: ast.AST, kind: str) -> None:
            if isinstance(tg, ast.Attribute):
                W.append(Write(func, node, kind, tg.attr, self._recv(tg.value, env), tg.value))
            elif isinstance(tg, ast.Subscript):
                base = tg.value
                many = self._alias_attrs(base, func)
                if len(many) > 1:
                    k = {"store": "elem", "aug": "elem_aug", "del": "delelem"}[kind]
                    for a_ in many:
                        W.append(Write(func, node, k, a_.attr, self._recv(a_.value, env), a_.value, "alias"))
                    return
                al = self._alias_attr(base, func)
                if al is not None:
                    base = al
                if isinstance(base, ast.Attribute):
                    k = {"store": "elem", "aug": "elem_aug", "del": "delelem"}[kind]
                    W.append(Write(func, node, k, base.attr, self._recv(base.value, env), base.value))
                elif isinstance(base, ast.Subscript):
                    # x.a[i][j] = v : element store into a
                    b2 = base.value
                    if isinstance(b2, ast.Attribute):
                        k = {"store": "elem", "aug": "elem_aug", "del": "delelem"}[kind]
                        W.append(Write(func, node, k, b2.attr, self._recv(b2.value, env), b2.value, "nested"))
            elif isinstance(tg, (ast.Tuple, ast.List)):
                for el in tg.elts:
                    attr_store(el, kind)
            elif isinstance(tg, ast.Starred):
                attr_store(tg.value, kind)

        if isinstance(node, ast.Assign):
            for tg in node.targets:
                attr_store(tg, "store")
        elif isinstance(node, ast.AnnAssign) and node.value is not None:
            attr_store(node.target, "store")
        elif isinstance(node, ast.AugAssign):
            attr_store(node.target, "aug")
        elif isinstance(node, ast.Delete):
            for tg in node.targets:
                attr_store(tg, "del")
        elif isinstance(node, (ast.For, ast.comprehension)):
            attr_store(node.target, "store")
        elif isinstance(node, ast.Call):
            f = node.func
            if isinstance(f, ast.Attribute) and f.attr in MUTATORS:
                base = f.value
                al = self._alias_attr(base, func)
                if al is not None:
                    base = al
                if isinstance(base, ast.Subscript):
                    base = base.value  # x.a[k].append(v) mutates content of a
                    if isinstance(base, ast.Subscript):
                        base = base.value
                if isinstance(base, ast.Attribute):
                    bt = strip_opt(env.type_of(base))
                    # only containers (or unknown) -- a package-class receiver is a method call
                    if not (bt[0] == "cls" and bt[1] in self.program.classes):
                        W.append(Write(func, node, "mutcall", base.attr, self._recv(base.value, env), base.value, f.attr))
            nm = _name_of(f) or ""
            if nm.split(".")[-1] in HEAP_MUTATORS and nm.split(".")[0] in ("heapq",) and node.args:
                base = node.args[0]
                al = self._alias_attr(base, func)
                if al is not None:
                    base = al
                if isinstance(base, ast.Attribute):
                    W.append(Write(func, node, "heap", base.attr, self._recv(base.value, env), base.value, nm.split(".")[-1]))

    # ------------------------------------------------------------------ queries
    def calls_in(self, f: FuncInfo) -> List[CallSite]:
        return self._by_caller.get(f.qualname, [])

    def sites_calling(self, qualname: str) -> List[CallSite]:
        return self._by_target.get(qualname, [])

    def callers_of(self, qualname: str) -> List[FuncInfo]:
        out: List[FuncInfo] = []
        for s in self.sites_calling(qualname):
            if s.caller not in out:
                out.append(s.caller)
        return out

    def sites_by_name(self, name: str) -> List[CallSite]:
        return [s for s in self.sites if s.name == name]

    def writes_in(self, f: FuncInfo) -> List[Write]:
        return self._writes_by_func.get(f.qualname, [])

    def writers_of(self, clsname: str, attr: str, kinds: Optional[Iterable[str]] = None) -> List[Write]:
        """Writes of `attr` whose receiver may be an instance of clsname (unknown receivers
        are included: over-approximation)."""
        p = self.program
        fam = set(p.subclasses(clsname)) | set(p.mro(clsname)) if clsname in p.classes else {clsname}
        out = []
        for w in self.writes:
            if w.attr != attr:
                continue
            if kinds is not None and w.kind not in kinds:
                continue
            if w.recv and not (set(w.recv) & fam):
                # resolved to an unrelated class -- but only trust it if that class
                # (or the external type) cannot be clsname
                continue
            out.append(w)
        return out

    def reachable(self, entries: Iterable[str], stop: Iterable[str] = ()) -> Set[str]:
        seen: Set[str] = set()
        stop = set(stop)
        work = [e for e in entries if e in self.program.functions]
        while work:
            q = work.pop()
            if q in seen or q in stop:
                continue
            seen.add(q)
            f = self.program.functions[q]
            for s in self.calls_in(f):
                for t in s.targets:
                    if t.qualname not in seen:
                        work.append(t.qualname)
            for n in f.nested.values():
                # a nested def is reachable when its outer function is (it is either
                # called or handed out as a callback there)
                if n.qualname not in seen:
                    work.append(n.qualname)
        return seen

    def attr_owner(self, classes: List[str], attr: str) -> str:
        """The class that declares `attr` for receivers of the given classes ('?' if unknown
        or ambiguous).  Used to keep equally named fields of unrelated classes apart."""
        owners: Set[str] = set()
        for c in classes:
            if c not in self.program.classes:
                return "?"
            found = None
            for k in reversed(self.program.mro(c)):
                if attr in self.ctab.attrs.get(k, {}):
                    found = k
                    break
            if found is None:
                return "?"
            owners.add(found)
        if len(owners) == 1:
            return next(iter(owners))
        return "?"

    def mod_attrs(self, f: FuncInfo) -> Set[Tuple[str, str]]:
        """(owner class, attribute) pairs possibly written (transitively) by calling f.
        Stores to `self` inside constructors are excluded: the object is fresh and cannot alias."""
        if f.qualname in self._mod_cache:
            return self._mod_cache[f.qualname]
        self._mod_cache[f.qualname] = set()  # cycle guard
        res: Set[Tuple[str, str]] = set()
        for w in self.writes_in(f):
            if (
                f.name == "__init__"
                and isinstance(w.recv_expr, ast.Name)
                and w.recv_expr.id == "self"
            ):
                continue
            res.add((self.attr_owner(w.recv, w.attr) if w.recv else "?", w.attr))
        for s in self.calls_in(f):
            if s.how == "byname":
                continue
            for t in s.targets:
                if t.name == "__init__" and s.how in ("ctor", "super"):
                    sub = set(self.mod_attrs(t))
                    res |= sub
                else:
                    res |= self.mod_attrs(t)
        self._mod_cache[f.qualname] = res
        return res
