"""Rule kit: context object, instance records and query helpers shared by all rules."""
from __future__ import annotations

import ast
import os
import hashlib
import itertools
from dataclasses import dataclass, field
from typing import Any, Callable, Dict, Iterable, List, Optional, Sequence, Set, Tuple

from .callgraph import CallGraph, CallSite, Write
from .loader import AnalysisError, FuncInfo, Program, qual_site
from .paths import Evaluator, Event, Path
from .terms import (
    NONE, Term, Unrecognised, World, canon_pred, cmp_nf, key, poly_key, strip_ver, subterms,
    substitute, to_poly,
)
from .types import ClassTable

HOLDS, VIOLATED, UNREC = "HOLDS", "VIOLATED", "UNRECOGNISED"


@dataclass
class Instance:
    rule: str
    verdict: str
    site: Dict[str, Any]
    construct: str
    expected: str = ""
    found: str = ""
    detail: Dict[str, Any] = field(default_factory=dict)

    @property
    def key(self) -> str:
        h = hashlib.sha1(
            "|".join([self.rule, str(self.site.get("function", "")), self.construct]).encode()
        ).hexdigest()
        return h[:12]

    def to_json(self) -> Dict[str, Any]:
        return {
            "rule": self.rule, "verdict": self.verdict, "site": self.site, "construct": self.construct,
            "expected": self.expected, "found": self.found, "key": self.key, "detail": self.detail,
        }


@dataclass
class RuleDef:
    rid: str
    prop: str
    title: str
    template: str
    floor: int
    fn: Callable[["Ctx"], None]
    thorough_only: bool = False


REGISTRY: Dict[str, RuleDef] = {}


def rule(rid: str, title: str, template: str = "", floor: int = 1, thorough_only: bool = False):
    def deco(fn: Callable[["Ctx"], None]):
        REGISTRY[rid] = RuleDef(rid, rid.split(".")[0], title, template, floor, fn, thorough_only)
        return fn

    return deco


class Ctx:
    """Everything a rule needs: program tables, cached path summaries, result sink."""

    def __init__(self, program: Program):
        self.program = program
        self.ctab = ClassTable(program)
        self.cg = CallGraph(program, self.ctab)
        self._paths: Dict[Tuple, List[Path]] = {}
        self.instances: List[Instance] = []
        self.current_rule: str = ""
        self.stats: Dict[str, int] = {"functions": 0, "paths": 0, "worlds": 0, "call_sites": 0}
        self._funcs_seen: Set[str] = set()
        self._dedupe: Dict[Tuple, Instance] = {}

    # ---------------------------------------------------------------- evaluation
    def func(self, qualname: str) -> FuncInfo:
        f = self.program.func(qualname)
        return f

    def paths(self, qualname: str, inline: Sequence[str] = (), inline_helpers: bool = True, **kw: Any) -> List[Path]:
        k = (qualname, tuple(sorted(inline)), inline_helpers, tuple(sorted(kw.items())))
        if k not in self._paths:
            f = self.func(qualname)
            names = set(inline)
            ev = Evaluator(self.cg, f, inline=(lambda g: g.qualname in names or g.name in names or (inline_helpers and (is_helper(g) or _local_function(g)))), **kw)
            self._paths[k] = ev.run()
        ps = self._paths[k]
        if qualname not in self._funcs_seen:
            self._funcs_seen.add(qualname)
            self.stats["functions"] += 1
            self.stats["paths"] += count_paths(ps)
        return ps

    # ---------------------------------------------------------------- results
    def _add(self, verdict: str, f: Optional[FuncInfo], node: Optional[ast.AST], construct: str,
             expected: str = "", found: str = "", **detail: Any) -> Instance:
        site = qual_site(f, node) if f is not None else {"file": "", "function": ""}
        if f is None and node is not None and hasattr(node, "lineno"):
            site["line"] = node.lineno
        inst = Instance(self.current_rule, verdict, site, construct, expected, found, detail)
        dk = (self.current_rule, verdict, site.get("function"), site.get("line"), construct, found if verdict != HOLDS else "")
        if dk in self._dedupe:
            return self._dedupe[dk]
        self._dedupe[dk] = inst
        self.instances.append(inst)
        return inst

    def holds(self, f: Optional[FuncInfo], node: Optional[ast.AST], construct: str, expected: str = "", found: str = "", **kw: Any) -> Instance:
        return self._add(HOLDS, f, node, construct, expected, found, **kw)

    def violated(self, f: Optional[FuncInfo], node: Optional[ast.AST], construct: str, expected: str, found: str, **kw: Any) -> Instance:
        gone = self._vanished_names(expected + " " + construct)
        if gone:
            # the rule states its expectation in terms of a function or field that this tree does not have (renamed,
            # removed): it can no longer tell the expected construct from another one
            return self._add(UNREC, f, node, construct, f"the rule names {', '.join(gone)}, which does not exist in this tree (renamed or removed): the expectation `{expected[:120]}` cannot be matched against the code", found, **kw)
        kw.pop("novel_ok", None)
        if not kw.get("guard"):
            kw.pop("guard_text", None)
        guard = kw.pop("guard", None)  # "site": the function reported is new in this tree; "text": so is something the report names
        if guard and not os.environ.get("PAMSA_NO_NOVELTY"):
            gtext = kw.pop("guard_text", None)
            new = self._novel_names(f if guard == "site" or gtext is None else None, (gtext if gtext is not None else found + " " + construct) if guard == "text" else "")
            if new:
                # the offending construct is (in) something this tree has and the tree the rules were confirmed on had not:
                # the rule is looking at an extension of the mechanism it knows, and what it expects was stated without it
                return self._add(UNREC, f, node, construct, f"the construct involves {', '.join(new[:4])}, new in this tree (absent from the tree the rules were confirmed on): `{expected[:100]}` was stated without it, whether the extension keeps it is not decided", found, **kw)
        return self._add(VIOLATED, f, node, construct, expected, found, **kw)

    def _novel_names(self, f: Optional[FuncInfo], text: str) -> List[str]:
        """identifiers of this tree's functions / attributes / parameters that the reference tree does not have at all, named in
        a report or being the function the report is about"""
        import re as _re

        ref = getattr(self, "_ref_idents", None)
        if ref is None:
            from . import renames

            tab = renames.load_reference()
            ref = self._ref_idents = set(tab["idents"]) if tab else set()
            cur = set()
            for fn in self.program.all_functions():
                cur.add(fn.name)
                cur.update(fn.params)
            cur |= set(self.program.classes)
            for c, tabc in self.ctab.attrs.items():
                cur |= set(tabc)
            for mi in self.program.modules.values():
                for n in ast.walk(mi.tree):
                    # attributes this tree defines (stored somewhere), not every method name of the standard library it calls
                    if isinstance(n, ast.Attribute) and isinstance(n.ctx, (ast.Store, ast.Del)):
                        cur.add(n.attr)
            self._cur_idents = cur
        if not ref:
            return []
        out: List[str] = []
        g = f
        while g is not None:
            if g.name not in ref and not g.name.startswith("__") and g.qualname not in out:
                out.append(g.qualname)
            g = g.outer
        for m in _re.finditer(r"(?<![A-Za-z0-9_'\"])([A-Za-z_][A-Za-z_0-9]{2,})\b", text):
            nm = m.group(1)
            if nm in self._cur_idents and nm not in ref and nm not in out and not any(o.endswith("." + nm) for o in out):
                out.append(nm)
        return out

    def _vanished_names(self, text: str) -> List[str]:
        import re as _re

        cache = getattr(self, "_known_names", None)
        if cache is None:
            p = self.program
            known = set()
            for fn in p.all_functions():
                known.add(fn.name)
            for c, tab in self.ctab.attrs.items():
                known |= set(tab)
            for ci in p.classes.values():
                known |= set(ci.methods)
                known |= set(getattr(ci, "class_annotations", {}) or {})
            for mi in p.modules.values():
                for node in mi.tree.body:
                    if isinstance(node, (ast.Assign, ast.AnnAssign)):
                        for t in (node.targets if isinstance(node, ast.Assign) else [node.target]):
                            if isinstance(t, ast.Name):
                                known.add(t.id)
            cache = self._known_names = known
        gone = []
        for m in _re.finditer(r"\b([A-Z][A-Za-z0-9]+)\.([a-z_][A-Za-z_0-9]*)\b", text):
            cls_, meth = m.group(1), m.group(2)
            if cls_ in self.program.classes and meth not in cache and f"{cls_}.{meth}" not in gone:
                gone.append(f"{cls_}.{meth}")
        for m in _re.finditer(r"(?<![A-Za-z0-9_])(_[a-z][a-z_0-9]{2,})\b", text):
            nm = m.group(1)
            if nm.startswith("__"):
                continue
            if nm not in cache and not any(g.endswith("." + nm) for g in gone) and nm not in gone:
                gone.append(nm)
        return gone

    def unrec(self, f: Optional[FuncInfo], node: Optional[ast.AST], construct: str, why: str, found: Optional[str] = None, **kw: Any) -> Instance:
        return self._add(UNREC, f, node, construct, why if found is not None else "", found if found is not None else why, **kw)

    def check(self, ok: bool, f: Optional[FuncInfo], node: Optional[ast.AST], construct: str, expected: str, found: str, **kw: Any) -> Instance:
        if ok:
            kw.pop("guard", None)
            kw.pop("guard_text", None)
            kw.pop("novel_ok", None)
            return self.holds(f, node, construct, expected=expected, found=found, **kw)
        return self.violated(f, node, construct, expected, found, **kw)

    def require(self, cond: bool, what: str) -> None:
        """An anchor the rule needs; its absence is an analysis failure, not a violation."""
        if not cond:
            raise AnalysisError(f"{self.current_rule}: {what}")


_ANCHOR_NAMES: Optional[Set[str]] = None


def anchor_names() -> Set[str]:
    """Every identifier-like string literal in the rule sources.  A package function whose
    name (or Class.name) occurs there is an *anchor*: rules look for calls to it, so it is
    never inlined.  Any other package function reached from an analysed function is a plain
    helper and is inlined, which makes the verdict independent of how a maintainer splits
    code into private helpers."""
    global _ANCHOR_NAMES
    if _ANCHOR_NAMES is None:
        import glob
        import os
        import re

        names: Set[str] = set()
        here = os.path.dirname(os.path.abspath(__file__))
        for fn in glob.glob(os.path.join(here, "rules", "*.py")) + [os.path.join(here, "kit.py")]:
            try:
                tree = ast.parse(open(fn).read())
            except SyntaxError:
                continue
            for n in ast.walk(tree):
                if isinstance(n, ast.Constant) and isinstance(n.value, str):
                    for m in re.findall(r"[A-Za-z_][A-Za-z_0-9]*", n.value):
                        names.add(m)
        _ANCHOR_NAMES = names
    return _ANCHOR_NAMES


def _local_function(g: FuncInfo) -> bool:
    """a plain (non-generator) function defined inside another function: its body is part of the function
    that defines it and is evaluated there, with the definer's variables in scope"""
    if g.outer is None:
        return False
    if any(isinstance(x, (ast.Yield, ast.YieldFrom)) for x in ast.walk(g.node)):
        return False
    return sum(1 for _ in ast.walk(g.node)) <= 600


def is_helper(g: FuncInfo) -> bool:
    """a non-anchor package function that may be inlined into its callers"""
    if g.name.startswith("__") or g.is_abstract or g.outer is not None:
        return False
    if g.name in anchor_names():
        return False
    body = [st for st in g.node.body if not (isinstance(st, ast.Expr) and isinstance(st.value, ast.Constant))]
    if not body or all(isinstance(st, ast.Pass) for st in body):
        return False  # an empty method is an extension point for user code, not a helper
    if any(isinstance(x, (ast.Yield, ast.YieldFrom)) for x in ast.walk(g.node)):
        return False  # a generator is not a plain helper (its body runs lazily)
    n = sum(1 for _ in ast.walk(g.node))
    return n <= 900


def current_field_read(ctx: "Ctx", ev: Event, base: Term, cls: str, attr: str) -> Term:
    """The term a read of <base>.<attr> yields at the moment of constructor call `ev`
    (when the field was not stored on the path): versioned by the calls made before."""
    snap = ev.data.get("ver_snapshot") or {}
    owner = ctx.cg.attr_owner([cls], attr)
    ver = snap.get((owner, attr), 0) + snap.get(("?", attr), 0) if owner != "?" else sum(v for (o, a), v in snap.items() if a == attr)
    return ("attr", base, attr, ver) if ver else ("attr", base, attr)


def super_init_forwarding(ctx: "Ctx", param: str) -> List[Tuple[FuncInfo, ast.Call, bool, str]]:
    """For every constructor in the package that takes `param` and whose base constructor
    takes it too: does its super().__init__ call hand the parameter on (by keyword, or in
    the matching position)?  -> (function, call node, ok, what was passed)"""
    out = []
    for f in ctx.program.all_functions():
        if f.name != "__init__" or f.cls is None or param not in f.params:
            continue
        base = ctx.program.lookup_super_method(f.cls.name, "__init__")
        if base is None or param not in base.params:
            continue
        calls_ = [n for n in ast.walk(f.node) if isinstance(n, ast.Call) and isinstance(n.func, ast.Attribute) and n.func.attr == "__init__"
                  and isinstance(n.func.value, ast.Call) and isinstance(n.func.value.func, ast.Name) and n.func.value.func.id == "super"]
        if not calls_:
            # the subclass stores the parameter itself or does not chain at all
            stores_it = any(isinstance(n, ast.Attribute) and isinstance(n.ctx, ast.Store) and n.attr.lstrip("_") == param.lstrip("_") for n in ast.walk(f.node))
            out.append((f, f.node, stores_it, "no super().__init__ call" + (" (stores it itself)" if stores_it else "")))  # type: ignore[arg-type]
            continue
        for c in calls_:
            passed = None
            for k in c.keywords:
                if k.arg == param:
                    passed = ast.unparse(k.value)
            if passed is None:
                bp = [x for x in base.params if x != "self"]
                i = bp.index(param)
                if i < len(c.args) and not any(isinstance(a, ast.Starred) for a in c.args):
                    passed = ast.unparse(c.args[i])
            out.append((f, c, passed == param, f"{param}={passed}"))
    return out


def caller_ok(ctx: "Ctx", f: FuncInfo, allowed: Callable[[FuncInfo], bool], _seen: Optional[Set[str]] = None) -> bool:
    """Is f an allowed caller/writer, directly or as a private helper all of whose own
    callers are (recursively) allowed?  Extracting code into a helper must not change a
    who-may-call / who-may-write verdict."""
    if allowed(f):
        return True
    if f.outer is not None:
        # code of a nested function (closure, local generator) belongs to the function that defines it
        return caller_ok(ctx, f.outer, allowed, _seen)
    seen = set(_seen or ())
    if f.qualname in seen or not is_helper(f):
        return False
    seen.add(f.qualname)
    sites = ctx.cg.sites_calling(f.qualname)
    if not sites:
        return False
    return all(caller_ok(ctx, s.caller, allowed, seen) for s in sites)


def _foreign_order_field(ctx: "Ctx", f: FuncInfo, msg: str) -> Optional[str]:
    """the comparator of Order reads a constructor field of the order that is not a priority key
    (agent_id, market_id, volume, ttl, or a new parameter): returns its name"""
    if f is None or f.cls is None or f.cls.name != "Order":
        return None
    import re as _re

    m = _re.search(r"atom (self|other)\.([A-Za-z_][A-Za-z_0-9]*) is not part", msg)
    if not m:
        return None
    init = ctx.program.cls("Order").methods.get("__init__")
    params = set(init.params) if init is not None else set()
    keys_ = {"kind", "is_buy", "price", "placed_at", "order_id", "self"}
    return f"{m.group(1)}.{m.group(2)}" if m.group(2) in params - keys_ else None


def path_text(p: Path) -> str:
    """what a path decided on and which routines were folded into it, as text for the novelty guard of Ctx.violated"""
    parts = [short(c) for c, _, _ in p.conds]
    for e in p.walk_events(True):
        if e.kind == "note" and e.data.get("what") == "inline":
            parts.append(str(e.data.get("target", "")).replace(".", " "))
        elif e.kind == "call":
            parts.append(e.name)
    return " ".join(parts)


def iter_source(t: Optional[Term]) -> Optional[Term]:
    """what a loop walks, a snapshot taken for the walk (list(X) / tuple(X)) read as X"""
    while t is not None:
        u = strip_ver(t)
        if u[0] == "call" and u[1] in (("name", "list"), ("name", "tuple")) and len(u[2]) == 1 and not u[3]:
            t = u[2][0]
            continue
        return u
    return None


def unknown_series(*ts: Optional[Term]) -> bool:
    """a guarded series read (`_extract_data_by_time(t, S)`) whose S is not an attribute of the market (a list made up on
    the way, a helper's result): the rules know the recorded series, not what stands in for them"""
    for t in ts:
        if t is None:
            continue
        for x in subterms(strip_ver(t)):
            if x[0] == "call" and key(x[1]).split(".")[-1] in ("_extract_data_by_time", "_extract_sequential_data_by_time"):
                sarg = x[2][1] if len(x[2]) > 1 else dict(x[3]).get("parameters")
                if sarg is not None and strip_ver(sarg)[0] != "attr":
                    return True
    return False


def memo_on_self(known: Iterable[str], *ts: Optional[Term]) -> Optional[str]:
    """a comparison reads `self.<attr>[...]` with <attr> not among the attributes the rule knows: a table kept on the
    object (a memo of a price, of a band). Whether its entries still equal what they were copied from is an invariant
    over every writer and every later change of the source -- not decided, so the caller refuses (seeds C15t, C16t)"""
    for t in ts:
        if t is None:
            continue
        for x in subterms(strip_ver(t)):
            if x[0] == "sub" and strip_ver(x[1])[0] == "attr" and strip_ver(strip_ver(x[1])[1]) == ("sym", "self") and strip_ver(x[1])[2] not in known:
                return strip_ver(x[1])[2]
    return None


def nonempty_decision(p: Path, seq: Term) -> Optional[bool]:
    """polarity of the path's decision `seq is non-empty` (len(seq) > 0, len(seq) == 0, truthiness)"""
    seq = strip_ver(seq)
    ln = ("call", ("name", "len"), (seq,), (), None)
    res: Optional[bool] = None
    for c, pol, _ in p.conds:
        c = strip_ver(c)
        if c == ("cmp", "<", ("const", 0), ln) or c == ("cmp", "<=", ("const", 1), ln):
            res = pol
        elif c in (("cmp", "==", ("const", 0), ln), ("cmp", "==", ln, ("const", 0)), ("cmp", "<=", ln, ("const", 0)), ("cmp", "<", ln, ("const", 1))):
            res = not pol
        elif c == seq or c == ln:
            res = pol
    return res


def count_paths(ps: List[Path]) -> int:
    n = len(ps)
    for p in ps:
        for e in p.events:
            if e.kind == "loop":
                n += count_paths(e.paths)
    return n


# --------------------------------------------------------------------------- event queries
def calls(path: Path, name: Optional[str] = None, into_loops: bool = True, pred: Optional[Callable[[Event], bool]] = None) -> List[Event]:
    out = []
    for e in path.walk_events(into_loops):
        if e.kind == "call" and (name is None or e.name == name) and (pred is None or pred(e)):
            out.append(e)
    return out


def deferred_calls(path: Path, name: Optional[str] = None) -> List[Tuple[Event, Event]]:
    """calls that sit inside a lambda which is stored instead of applied: (the note event of the
    lambda, the call).  They are not part of the path's own event stream."""
    out = []
    for e in path.walk_events(True):
        if e.kind == "note" and e.data.get("what") == "deferred":
            for c in e.data["events"]:
                if c.kind == "call" and (name is None or c.name == name):
                    out.append((e, c))
    return out


def late_bound(loop: Event, body: Path) -> Tuple[List[Event], List[str]]:
    """closures created (not applied) in one pass of `loop`: (their note events, the names assigned by
    the loop that they read when they finally run -- i.e. late-bound loop variables)"""
    notes = [e for e in body.walk_events(True) if e.kind == "note" and e.data.get("what") == "deferred"]
    names = {n.id for n in ast.walk(loop.node) if isinstance(n, ast.Name) and isinstance(n.ctx, ast.Store)} if loop.node is not None else set()
    captured = sorted({v for n in notes for v in n.data.get("free", []) if v in names})
    return notes, captured


def stores(path: Path, attr: Optional[str] = None, into_loops: bool = True) -> List[Event]:
    out = []
    for e in path.walk_events(into_loops):
        if e.kind == "store":
            a = e.attr
            if a is None and e.base[0] == "attr":
                a = e.base[2]  # element store into container attribute
            if attr is None or a == attr:
                out.append(e)
    return out


def loops(path: Path, into_loops: bool = False) -> List[Event]:
    return [e for e in path.walk_events(into_loops) if e.kind == "loop"]


def all_loops(paths: Iterable[Path]) -> List[Event]:
    seen: Dict[int, Event] = {}
    for p in paths:
        for e in p.walk_events(True):
            if e.kind == "loop":
                seen.setdefault(e.loopid, e)
    return [seen[k] for k in sorted(seen)]


def loop_by_node(paths: Iterable[Path], node: ast.AST) -> List[Event]:
    return [e for p in paths for e in p.walk_events(True) if e.kind == "loop" and e.node is node]


def calls_target(e: Event, qualname: str) -> bool:
    return any(t.qualname == qualname for t in e.site.targets)


def kw(e: Event, name: str, pos: Optional[int] = None) -> Optional[Term]:
    for k, v in e.kwargs:
        if k == name:
            return v
    if pos is not None and pos < len(e.args):
        return e.args[pos]
    return None


def alloc_literal(path: Path, symt: Optional[Term]) -> Optional[Term]:
    """Literal content a fresh list/dict/set symbol was created with on this path."""
    if symt is None:
        return None
    for e in path.walk_events(True):
        if e.kind == "note" and e.data.get("what") == "alloc" and e.data.get("sym") == symt:
            return e.data["literal"]
    if symt[0] in ("list", "dict", "set", "tuple"):
        return symt
    return None


def forall_pred(c: Term, pol: bool) -> Optional[Tuple[Term, Tuple]]:
    """If the decision (c, pol) says `for every element of a sequence, P holds`, return
    (P, generators).  Decisions are in the canonical any-form: any(<seq not P for ..>) decided false."""
    c = strip_ver(c)
    if c[0] == "call" and c[1] == ("name", "any") and len(c[2]) == 1 and c[2][0][0] == "comp" and not pol:
        comp = c[2][0]
        elt = comp[2]
        pred = elt[1] if elt[0] == "not" else ("not", elt)
        return pred, comp[3]
    return None


def seq_value(path: Path, symt: Optional[Term], outer: Sequence[Path] = ()) -> Optional[Term]:
    """Contents of a list that is built on this path, as a canonical comprehension term:
    either it was created from a literal/comprehension, or it starts empty and is filled by
    append/extend inside (nested) for-loops.  None when the construction is not of that shape."""
    from .terms import normalise

    if symt is None:
        return None
    if symt[0] == "comp":
        return normalise(strip_ver(symt))
    # x = []; for ...: [if c:] x = x + E   (the value after the loop is the loop's out-symbol of x)
    if symt[0] == "sym" and symt[1].startswith("ψ"):
        for cand in [path] + list(outer):
            for l in [e for e in cand.events if e.kind == "loop" and e.loopkind == "for" and e.iter is not None]:
                names = [n for n, o in l.out.items() if o == symt]
                if not names:
                    continue
                n0 = names[0]
                init = l.init.get(n0)
                ilit = alloc_literal(cand, init) if init is not None else None
                if not (init == ("list", ()) or (ilit is not None and ilit[0] == "list" and len(ilit[1]) == 0)):
                    return None
                ph = l.phi[n0]
                pieces = []
                for bp in l.paths:
                    if bp.exit[0] == "raise":
                        continue
                    v = bp.env.get(n0)
                    if v is None or v == ph:
                        continue
                    if v[0] == "bin" and v[1] == "+" and v[2] == ph and not list(il for il in bp.events if il.kind == "loop"):
                        conds = tuple((strip_ver(c) if pol else ("not", strip_ver(c))) for c, pol, _ in bp.conds)
                        pieces.append((strip_ver(v[3]), conds))
                    else:
                        return None
                if len(pieces) != 1:
                    return None
                E, conds = pieces[0]
                comp = ("comp", "seq", ("bound", "_flat"), ((tuple(l.target), strip_ver(l.iter), conds), (("_flat",), E, ())))

                def bind0(t: Term) -> Term:
                    if t[0] == "sym" and "∈" in t[1]:
                        return ("bound", t[1].split("∈")[0])
                    from .terms import map_children

                    return map_children(t, bind0)

                return normalise(bind0(comp))
    lit = None
    home = path
    for cand in [path] + list(outer):
        for e in cand.events:  # the path whose own statements created the list
            if e.kind == "note" and e.data.get("what") == "alloc" and e.data.get("sym") == symt:
                lit, home = e.data["literal"], cand
                break
        if lit is not None:
            break
    if lit is None:
        lit = alloc_literal(path, symt)
    if lit is None or lit[0] != "list":
        n = normalise(strip_ver(symt))
        return n if n[0] == "comp" else None
    if len(lit[1]) != 0:
        return None
    contribs: List[Term] = []

    def walk(p: Path, gens: Tuple) -> bool:
        for e in p.events:
            if e.kind == "call" and e.recv == symt and e.name in ("append", "extend") and e.args:
                conds = tuple((strip_ver(c) if pol else ("not", strip_ver(c))) for c, pol, _ in p.conds)
                if not gens:
                    return False
                g2 = gens[:-1] + ((gens[-1][0], gens[-1][1], gens[-1][2] + conds),)
                if e.name == "append":
                    contribs.append(("comp", "seq", strip_ver(e.args[0]), g2))
                else:
                    contribs.append(("comp", "seq", ("bound", "_flat"), g2 + ((("_flat",), strip_ver(e.args[0]), ()),)))
            elif e.kind == "call" and e.data.get("mutates") == symt:
                return False
            elif e.kind == "loop":
                if e.loopkind != "for" or e.iter is None:
                    if any(x.kind == "call" and x.recv == symt for bp in e.paths for x in bp.walk_events(True)):
                        return False
                    continue
                conds = tuple((strip_ver(c) if pol else ("not", strip_ver(c))) for c, pol, _ in p.conds) if gens else ()
                base = gens
                if gens and conds:
                    base = gens[:-1] + ((gens[-1][0], gens[-1][1], gens[-1][2] + conds),)
                for bp in e.paths:
                    if bp.exit[0] == "raise":
                        continue
                    if not walk(bp, base + ((tuple(e.target), strip_ver(e.iter), ()),)):
                        return False
        return True

    if not walk(home, ()):
        return None
    if len(contribs) != 1:
        return None
    # loop elements become bound variables
    comp = contribs[0]

    def bind(t: Term) -> Term:
        if t[0] == "sym" and "∈" in t[1]:
            return ("bound", t[1].split("∈")[0])
        from .terms import map_children

        return map_children(t, bind)

    return normalise(bind(comp))


def is_normal(p: Path) -> bool:
    return p.exit[0] != "raise"


def normal_paths(ps: Iterable[Path]) -> List[Path]:
    return [p for p in ps if is_normal(p)]


def cond_holds(p: Path, pred: Callable[[Term], bool], polarity: Optional[bool] = None, before: Optional[Event] = None) -> bool:
    """Does the path carry a decision matching pred (with given polarity)?  `before`
    restricts to decisions taken before the event (by position in source order is not
    available, so decisions are matched on the whole path: the evaluator only records
    decisions that dominate the rest of the path)."""
    for c, pol, _ in p.conds:
        if pred(c) and (polarity is None or pol == polarity):
            return True
    return False


def term_mentions(t: Term, sub_key: str) -> bool:
    return any(key(strip_ver(s)) == sub_key for s in subterms(t))


def short(t: Optional[Term]) -> str:
    return "-" if t is None else key(strip_ver(t))


# --------------------------------------------------------------------------- decision tables
@dataclass
class Case:
    conds: List[Tuple[Term, bool]]
    outcome: Callable[[World], Any]
    descr: str = ""


def table_check_cases(
    ctx: Ctx, f: FuncInfo, node: Optional[ast.AST], construct: str, cases: List[Case],
    worlds: Iterable[Dict[str, Any]], is_model_atom: Callable[[Term], bool],
    spec: Callable[[Dict[str, Any]], Any], rename: Optional[Callable[[str], str]] = None,
    describe_world: Optional[Callable[[Dict[str, Any]], str]] = None, need_cover: bool = True,
) -> Instance:
    """T6: for every world of the finite model, every case (path) consistent with the world
    must yield the specified outcome, and at least one case must be consistent.
    Decisions that mention no modelled atom are environmental: they do not restrict the world."""
    prepared = []
    for c in cases:
        model = [(t, pol) for t, pol in c.conds if any(is_model_atom(x) for x in subterms(t))]
        prepared.append((c, model))
    nworlds = 0
    mism: List[Dict[str, Any]] = []
    nmis = 0
    for wv in worlds:
        nworlds += 1
        w = World(wv, rename)
        want = spec(wv)
        matched = 0
        wd = describe_world(wv) if describe_world else {k: repr(v) for k, v in wv.items()}
        for c, model in prepared:
            try:
                ok = all(bool(w.eval(t)) == pol for t, pol in model)
            except Unrecognised as ex:
                fa = _foreign_order_field(ctx, f, str(ex))
                if fa is not None:
                    return ctx.violated(f, node, construct, "the ranking of two orders depends on kind, side, price, acceptance time and id only", f"it also depends on {fa}, which is no priority key: two orders equal in all keys are ranked by it, orders differing in a key can be ranked against it")
                return ctx.unrec(f, node, construct, f"path condition outside the finite model: {ex}")
            if not ok:
                continue
            matched += 1
            try:
                got = c.outcome(w)
            except Unrecognised as ex:
                fa = _foreign_order_field(ctx, f, str(ex))
                if fa is not None:
                    return ctx.violated(f, node, construct, "the ranking of two orders depends on kind, side, price, acceptance time and id only", f"it also depends on {fa}, which is no priority key: two orders equal in all keys are ranked by it, orders differing in a key can be ranked against it")
                return ctx.unrec(f, node, construct, f"outcome outside the finite model: {ex}")
            if got != want:
                nmis += 1
                if len(mism) < 6:
                    mism.append({"world": wd, "expected": repr(want), "found": repr(got), "path": c.descr[:400]})
        if matched == 0 and need_cover:
            nmis += 1
            if len(mism) < 6:
                mism.append({"world": wd, "expected": repr(want), "found": "no path is consistent with this world"})
    ctx.stats["worlds"] += nworlds
    if nmis:
        first = mism[0]
        return ctx.violated(
            f, node, construct, "decision table equals the specification in every world",
            f"{nmis} mismatches over {nworlds} worlds; e.g. world {first['world']}: expected {first['expected']}, found {first['found']}",
            worlds=nworlds, mismatches=mism,
        )
    return ctx.holds(f, node, construct, expected="decision table equals the specification", found=f"{nworlds} worlds agree", worlds=nworlds)


def table_check(
    ctx: Ctx, f: FuncInfo, node: Optional[ast.AST], construct: str, paths: List[Path],
    worlds: Iterable[Dict[str, Any]], is_model_atom: Callable[[Term], bool],
    outcome: Callable[[Path, World], Any], spec: Callable[[Dict[str, Any]], Any],
    rename: Optional[Callable[[str], str]] = None, relevant: Optional[Callable[[Path], bool]] = None,
    describe_world: Optional[Callable[[Dict[str, Any]], str]] = None,
) -> Instance:
    cases = []
    for p in paths:
        if relevant is not None and not relevant(p):
            continue
        cases.append(Case([(c, pol) for c, pol, _ in p.conds], (lambda w, p=p: outcome(p, w)), p.describe()))
    return table_check_cases(ctx, f, node, construct, cases, worlds, is_model_atom, spec, rename, describe_world)


def weak_orders(names: Sequence[str]) -> Iterable[Dict[str, int]]:
    """All weak orders of the names, as canonical rank assignments."""
    n = len(names)
    seen = set()
    for ranks in itertools.product(range(n), repeat=n):
        # canonical: ranks used must be 0..k-1 without gaps
        used = sorted(set(ranks))
        if used != list(range(len(used))):
            continue
        if ranks in seen:
            continue
        seen.add(ranks)
        yield dict(zip(names, ranks))


def product_worlds(*dims: Iterable[Dict[str, Any]]) -> Iterable[Dict[str, Any]]:
    lists = [list(d) for d in dims]
    for combo in itertools.product(*lists):
        w: Dict[str, Any] = {}
        for c in combo:
            w.update(c)
        yield w


def options(name: str, values: Sequence[Any]) -> List[Dict[str, Any]]:
    return [{name: v} for v in values]


# --------------------------------------------------------------------------- normal forms
def nf_cmp(t: Term, integer: bool = False, atom=None, transparent=()) -> Tuple[str, str]:
    c, pol = canon_pred(t)
    if c[0] != "cmp":
        raise Unrecognised(f"not a comparison: {key(t)}")
    op = c[1]
    if not pol:
        from .terms import negate_cmp

        op = negate_cmp(op)
    return cmp_nf(op, c[2], c[3], integer=integer, atom=atom, transparent=transparent)


def poly_of(t: Term, atom=None, transparent=("float", "int")) -> str:
    return poly_key(to_poly(t, atom, transparent))
