"""L7 driver: run the rules of one property, match known findings, write evidence/replay."""
from __future__ import annotations

import argparse
import importlib
import json
import os
import sys
import time
import traceback
from typing import Any, Dict, List, Optional

HERE = os.path.dirname(os.path.abspath(__file__))
VERIF = os.path.dirname(HERE)

from .kit import HOLDS, REGISTRY, UNREC, VIOLATED, Ctx, Instance  # noqa: E402
from .loader import AnalysisError, Program, default_root  # noqa: E402
from .terms import Unrecognised  # noqa: E402

PROPS = [f"C{i:02d}" for i in range(1, 21)]

TRUSTED_BASE = [
    "CPython ast module parses /repo/pams as the interpreter would",
    "pams is not monkey-patched at run time (C07.R4 checks pams itself contains no dynamic attribute writes)",
    "user-written agents/events/loggers use the documented API and do not write private platform fields",
    "heapq, random.Random, numpy and scipy behave as documented",
    "floating point idealised as reals in polynomial normal forms",
]


def load_rules() -> None:
    for p in PROPS:
        try:
            importlib.import_module(f"pamsa.rules.{p.lower()}")
        except ModuleNotFoundError as e:
            if f"pamsa.rules.{p.lower()}" not in str(e):
                raise


def load_known() -> List[Dict[str, Any]]:
    path = os.path.join(VERIF, "known_findings.json")
    if not os.path.exists(path):
        return []
    with open(path) as fh:
        return json.load(fh).get("findings", [])


def run_rules(ctx: Ctx, prop: str, tier: str, only: Optional[str] = None) -> Dict[str, Dict[str, Any]]:
    summary: Dict[str, Dict[str, Any]] = {}
    for rid in sorted(REGISTRY, key=lambda r: (r.split(".")[0], int("".join(ch for ch in r.split(".")[1] if ch.isdigit()) or 0), r)):
        rd = REGISTRY[rid]
        if rd.prop != prop:
            continue
        if only is not None and rid != only:
            continue
        if rd.thorough_only and tier != "thorough":
            continue
        ctx.current_rule = rid
        before = len(ctx.instances)
        err: Optional[str] = None
        try:
            rd.fn(ctx)
        except (AnalysisError, Unrecognised) as e:
            err = f"{type(e).__name__}: {e}"
        except Exception as e:  # a crash of the checker is an analysis failure, never a violation
            err = f"internal error {type(e).__name__}: {e} @ {traceback.format_exc().strip().splitlines()[-3:]}"
        mine = ctx.instances[before:]
        if err is not None:
            ctx.instances.append(Instance(rid, UNREC, {"file": "", "function": ""}, "rule aborted", "", err))
            mine = ctx.instances[before:]
        n_h = sum(1 for i in mine if i.verdict == HOLDS)
        n_v = sum(1 for i in mine if i.verdict == VIOLATED)
        n_u = sum(1 for i in mine if i.verdict == UNREC)
        floor_ok = len(mine) - n_u >= rd.floor or n_u > 0
        if not floor_ok:
            ctx.instances.append(Instance(
                rid, UNREC, {"file": "", "function": ""}, "instance floor",
                "", f"rule matched {len(mine)} instances, fewer than the floor {rd.floor} confirmed by reading"))
            n_u += 1
        summary[rid] = {"title": rd.title, "template": rd.template, "instances": len(mine), "holds": n_h,
                        "violated": n_v, "unrecognised": n_u, "floor": rd.floor}
    return summary


def check(prop: str, tier: str, root: Optional[str] = None, overlay: Optional[Dict[str, str]] = None,
          quiet: bool = False, write: bool = True, only: Optional[str] = None) -> int:
    t0 = time.time()
    seed = int(os.environ.get("VERIF_SEED", "0") or 0)
    out: List[str] = []
    say = out.append
    exit_code = 0
    ctx: Optional[Ctx] = None
    summary: Dict[str, Dict[str, Any]] = {}
    fatal: Optional[str] = None
    try:
        load_rules()
        program = Program(root, overlay)
        ctx = Ctx(program)
        summary = run_rules(ctx, prop, tier, only)
        if not summary:
            fatal = f"no rules registered for {prop}"
    except (AnalysisError, Unrecognised) as e:
        fatal = f"{type(e).__name__}: {e}"
    except Exception as e:
        fatal = f"internal error {type(e).__name__}: {e}\n{traceback.format_exc()}"

    known = load_known()
    known_keys = {k["key"]: k for k in known if k.get("property") == prop and k.get("status") == "known"}
    violations: List[Instance] = []
    known_hits: List[Instance] = []
    unrec: List[Instance] = []
    insts: List[Instance] = ctx.instances if ctx is not None else []
    if ctx is not None:
        for new, old in sorted(getattr(ctx.program, "renames", {}).items()):
            say(f"NOTE {new} is read as {old}: a pure rename of a private name (same classes, parameters and referencing functions); reports use the name {old}")
    for rid, s in summary.items():
        say(f"RULE {rid} instances={s['instances']} holds={s['holds']} violated={s['violated']} unrecognised={s['unrecognised']}  -- {s['title']}")
    for i in insts:
        if i.verdict == VIOLATED:
            (known_hits if i.key in known_keys else violations).append(i)
        elif i.verdict == UNREC:
            unrec.append(i)
    for i in known_hits:
        say(f"KNOWN-FINDING: property={prop} {known_keys[i.key].get('what', i.construct)} [{i.rule} {i.site.get('function')}]")
    replay_dir = os.path.join(VERIF, "replay", prop)
    for i in violations:
        path = os.path.join(replay_dir, f"{i.rule}-{i.key}.json")
        if write:
            os.makedirs(replay_dir, exist_ok=True)
            with open(path, "w") as fh:
                json.dump({"property": prop, **i.to_json(), "root": root or default_root()}, fh, indent=1, default=str)
        say(f"  violated: {i.rule} {i.site.get('file')}:{i.site.get('line', '?')} {i.site.get('function')} :: {i.construct}")
        say(f"     expected: {i.expected}")
        say(f"     found:    {i.found}")
        say(f"VIOLATION property={prop} replay={path}")
    for i in unrec:
        say(f"ANALYSIS-ERROR property={prop} rule={i.rule} {i.site.get('function') or ''} {i.construct}: {i.found}")
    if fatal:
        say(f"ANALYSIS-ERROR property={prop} {fatal}")
    if violations:
        exit_code = 1
    elif unrec or fatal:
        exit_code = 2

    selftest: Dict[str, Any] = {}
    if tier == "thorough" and exit_code == 0 and overlay is None:
        try:
            from . import selftest as st

            selftest = st.run_for_property(prop, root)
            for line in selftest.get("lines", []):
                say(line)
            if not selftest.get("ok", False):
                say(f"ANALYSIS-ERROR property={prop} self-test: the checker missed a mutant or flagged a benign twin")
                exit_code = 2
        except Exception as e:
            say(f"ANALYSIS-ERROR property={prop} self-test crashed: {type(e).__name__}: {e}")
            exit_code = 2

    wall = time.time() - t0
    if write and ctx is not None:
        write_evidence(prop, tier, seed, ctx, summary, insts, violations, known_hits, unrec, selftest, wall)
    elif write:
        write_evidence_fatal(prop, tier, seed, fatal or "", wall)
    say(f"RESULT property={prop} tier={tier} exit={exit_code} wall={wall:.2f}s")
    if not quiet:
        print("\n".join(out))
    check.last_output = out  # type: ignore[attr-defined]
    check.last_instances = insts  # type: ignore[attr-defined]
    return exit_code


def write_evidence(prop: str, tier: str, seed: int, ctx: Ctx, summary: Dict[str, Dict[str, Any]], insts: List[Instance],
                   violations: List[Instance], known_hits: List[Instance], unrec: List[Instance], selftest: Dict[str, Any], wall: float) -> None:
    obligations = len(insts)
    discharged = sum(1 for i in insts if i.verdict == HOLDS)
    samples = []
    picks = insts
    if len(picks) > 24:
        step = max(1, len(picks) // 24)
        off = seed % step
        picks = picks[off::step][:24]
    for i in picks:
        samples.append({"rule": i.rule, "site": i.site, "construct": i.construct, "verdict": i.verdict,
                        "expected": i.expected[:300], "found": i.found[:300]})
    rules_txt = "; ".join(f"{r}: {s['title']} [{s['template']}] {s['holds']}/{s['instances']}" for r, s in summary.items())
    cov: Dict[str, Any] = {
        "explanation": (
            f"Static analysis of /repo/pams (ast only, nothing imported or executed): {len(summary)} repository-specific rules "
            f"for {prop} evaluated on every run over path summaries of the anchored functions, the whole-package call graph and "
            f"attribute-writer sets. Each obligation is one rule instance (a call site, a writer, a path set or a decision table "
            f"over an exhaustively enumerated finite model). Rules: {rules_txt}"
        ),
        "obligations": obligations,
        "discharged": discharged,
        "checker_cmd": f"./check {prop} --tier {tier}",
        "trusted_base": TRUSTED_BASE,
        "rules": summary,
        "functions_analysed": ctx.stats["functions"],
        "paths": ctx.stats["paths"],
        "worlds": ctx.stats["worlds"],
        "program": ctx.program.stats(),
        "program_digest": ctx.program.digest(),
        "renames_read_back": dict(getattr(ctx.program, "renames", {})),
        "samples": samples,
        "exhaustive": True,
        "known_findings_reported": [i.to_json() for i in known_hits],
        "unrecognised": [i.to_json() for i in unrec],
        "violating_instances": [i.to_json() for i in violations][:20],
    }
    if selftest:
        cov.update({k: v for k, v in selftest.items() if k != "lines"})
    ev = {
        "property_id": prop, "tier": tier, "seed": seed, "level": "other", "coverage": cov,
        "assumptions": TRUSTED_BASE, "wall_s": round(wall, 3), "violations": len(violations),
    }
    os.makedirs(os.path.join(VERIF, "evidence"), exist_ok=True)
    with open(os.path.join(VERIF, "evidence", f"{prop}.json"), "w") as fh:
        json.dump(ev, fh, indent=1, default=str)


def write_evidence_fatal(prop: str, tier: str, seed: int, fatal: str, wall: float) -> None:
    ev = {
        "property_id": prop, "tier": tier, "seed": seed, "level": "other",
        "coverage": {"explanation": f"analysis failed before any rule ran: {fatal[:500]}", "obligations": 0, "discharged": 0,
                     "samples": [], "trusted_base": TRUSTED_BASE, "checker_cmd": f"./check {prop} --tier {tier}"},
        "assumptions": TRUSTED_BASE, "wall_s": round(wall, 3), "violations": 0,
    }
    os.makedirs(os.path.join(VERIF, "evidence"), exist_ok=True)
    with open(os.path.join(VERIF, "evidence", f"{prop}.json"), "w") as fh:
        json.dump(ev, fh, indent=1, default=str)


def replay(prop: str, path: str) -> int:
    with open(path) as fh:
        rec = json.load(fh)
    rid = rec["rule"]
    load_rules()
    program = Program(None)
    ctx = Ctx(program)
    run_rules(ctx, prop, "quick", only=rid)
    hit = [i for i in ctx.instances if i.key == rec["key"]]
    if not hit:
        print(f"REPLAY property={prop} rule={rid}: the instance {rec['key']} ({rec['construct']}) no longer exists on the current tree")
        others = [i for i in ctx.instances if i.rule == rid and i.verdict == VIOLATED]
        for i in others:
            print(f"  (other violated instance of the rule: {i.construct})")
        return 1 if others else 0
    rc = 0
    for i in hit:
        print(f"REPLAY property={prop} rule={rid} {i.site.get('file')}:{i.site.get('line')} {i.site.get('function')} :: {i.construct} -> {i.verdict}")
        print(f"   expected: {i.expected}\n   found:    {i.found}")
        if i.detail:
            print("   detail:   " + json.dumps(i.detail, default=str)[:1500])
        if i.verdict == VIOLATED:
            print(f"VIOLATION property={prop} replay={path}")
            rc = 1
        elif i.verdict == UNREC:
            rc = max(rc, 2)
    return rc


def selfcheck() -> int:
    """setup_cmd: parse the package, check every rule module imports and anchors resolve."""
    try:
        load_rules()
        program = Program(None)
        ctx = Ctx(program)
        print(f"selfcheck: {program.stats()} rules={len(REGISTRY)} digest={program.digest()[:12]}")
        return 0
    except Exception as e:
        print(f"ANALYSIS-ERROR selfcheck {type(e).__name__}: {e}")
        return 2


def main(argv: Optional[List[str]] = None) -> int:
    ap = argparse.ArgumentParser(prog="check")
    ap.add_argument("prop", nargs="?")
    ap.add_argument("--tier", default=os.environ.get("VERIF_TIER", "quick"), choices=["quick", "thorough"])
    ap.add_argument("--replay")
    ap.add_argument("--selfcheck", action="store_true")
    ap.add_argument("--root")
    ap.add_argument("--rule")
    ap.add_argument("--no-write", action="store_true")
    a = ap.parse_args(argv)
    if a.selfcheck:
        return selfcheck()
    if not a.prop:
        ap.error("property id required")
    if a.replay:
        return replay(a.prop, a.replay)
    return check(a.prop, a.tier, a.root, write=not a.no_write, only=a.rule)


if __name__ == "__main__":
    try:
        sys.exit(main())
    except SystemExit:
        raise
    except BaseException as e:  # never let a traceback look like a violation
        print(f"ANALYSIS-ERROR {type(e).__name__}: {e}")
        sys.exit(2)
