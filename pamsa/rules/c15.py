"""C15 -- price limit rule: accepted prices stay in the band; other markets untouched."""
from __future__ import annotations

from typing import Any, Dict, List, Optional

from ..kit import caller_ok, Ctx, alloc_literal, calls, kw, normal_paths, poly_of, rule, short, stores
from ..paths import Event, Path
from ..terms import NONE, Term, key, strip_ver, subterms
from .c14 import check_target_discipline
from .events import declared_hooks, is_effect

PLR = "PriceLimitRule"


def _ref_of(market_key: str) -> List[str]:
    return [f"{market_key}._extract_data_by_time(0, {market_key}._market_prices, allow_none=False)", f"{market_key}.get_market_price(0)", f"{market_key}.get_market_price(time=0)"]


@rule("C15.R1", "the rule hooks every order before acceptance at all times, only when enabled", "T9", floor=2)
def r1(ctx: Ctx) -> None:
    hooks, disabled = declared_hooks(ctx, PLR)
    g = ctx.func(f"{PLR}.hook_registration")
    ctx.check(len(hooks) == 1 and hooks[0].returned, g, g.node, f"{PLR}: exactly one hook when enabled", "1 returned hook", f"{len(hooks)} constructed")
    for h in hooks:
        en = [pol for c, pol, _ in h.path.conds if key(strip_ver(c)) == "self.is_enabled"]
        ok = h.hook_type == "order" and h.is_before is True and en == [True] and (h.time is None or h.time == NONE) and h.specific_instance in (None, NONE) and h.specific_class in (None, NONE)
        ctx.check(ok, g, h.event.node, f"{PLR}: order-before hook for all times", "EventHook(self, 'order', True, time=None) under is_enabled", f"type={h.hook_type} before={h.is_before} time={short(h.time)} enabled-cond={en}")
        # nothing but `enabled` (and `there are targets at all`) decides whether the rule is hooked
        extra = [(strip_ver(c), pol) for c, pol, _ in h.path.conds if key(strip_ver(c)) != "self.is_enabled" and "target_markets" not in key(strip_ver(c))]
        ctx.check(not extra, g, h.event.node, f"{PLR}: an enabled rule is always hooked (whatever its rate)", "no further condition on the hook", "; ".join(("" if pol else "not ") + short(c) for c, pol in extra) or "none")
    for p in disabled:
        lit = alloc_literal(p, p.exit[1])
        ctx.check(lit is not None and len(lit[1]) == 0, g, g.node, f"{PLR}: no hook when disabled", "return []", short(lit))
    ctx.require(bool(disabled), f"{PLR}: disabled branch not found")


@rule("C15.R2", "limit prices are clamped into [p0(1-r), p0(1+r)] with p0 the order's own market price at time 0; market orders pass before any arithmetic; the handler writes exactly the clamped price", "T6/T7 clamp shape", floor=4)
def r2(ctx: Ctx) -> None:
    f = ctx.func(f"{PLR}.get_limited_price")
    refs = _ref_of("market")
    r = ("attr", ("sym", "self"), "trigger_change_rate")
    n = 0
    for p in ctx.paths(f.qualname):
        if p.exit[0] != "return":
            continue
        n += 1
        ret = strip_ver(p.exit[1])
        is_none = [pol for c, pol, _ in p.conds if key(strip_ver(c)) == "(order.price is None)"]
        if is_none and is_none[-1]:
            arith = [e for e in calls(p) if e.name in ("abs", "min", "max")]
            ok = key(ret) in ("order.price", "None") and not arith
            ctx.check(ok, f, f.node, "market orders are returned unchanged before any arithmetic", "return order.price (None)", short(ret))
            continue
        if key(ret) == "order.price":
            # inside-band shortcut: only legal under a decision that the price is within the threshold
            band = [(strip_ver(c), pol) for c, pol, _ in p.conds if "abs(" in key(strip_ver(c))]
            ok = len(band) == 1
            if ok:
                c, pol = band[0]
                # not (|thr| <= |p - ref|)
                ok = c[0] == "cmp" and c[1] == "<=" and not pol and _abs_of(c[2], lambda t: _is_thr(t, refs, r)) and _abs_of(c[3], lambda t: _is_dev(t, refs))
            from ..kit import unknown_series

            if not ok and unknown_series(*[c_ for c_, _, _ in p.conds]):
                ctx.unrec(f, f.node, "a price is passed through unchanged only when it deviates from p0 by less than p0*r", "the reference price is read from something that stands in for the recorded series (not the series itself)", p.describe()[:160])
                continue
            from ..kit import memo_on_self

            memo = None if ok else memo_on_self(("target_markets",), *[c_ for c_, _ in band])
            if memo is not None:
                ctx.unrec(f, f.node, "a price is passed through unchanged only when it deviates from p0 by less than p0*r", f"the reference price is read from self.{memo}, a table kept on the rule: whether an entry still equals the market's price at time 0 is not decided", p.describe()[:160])
                continue
            ctx.check(ok, f, f.node, "a price is passed through unchanged only when it deviates from p0 by less than p0*r", "not (|p0*r| <= |price - p0|) -> return order.price", p.describe()[:200])
            continue
        # clamp: min(max(price, lo), hi) or max(min(price, hi), lo)
        ok = False
        found = short(ret)
        lo = hi = None
        if ret[0] == "call" and key(ret[1]) in ("min", "max") and len(ret[2]) == 2:
            outer = key(ret[1])
            inner = [a for a in ret[2] if a[0] == "call" and key(a[1]) in ("min", "max") and len(a[2]) == 2]
            bound_outer = [a for a in ret[2] if a not in inner]
            if len(inner) == 1 and len(bound_outer) == 1 and key(inner[0][1]) != outer:
                ins = list(inner[0][2])
                pr = [a for a in ins if key(a) == "order.price"]
                bound_inner = [a for a in ins if key(a) != "order.price"]
                if len(pr) == 1 and len(bound_inner) == 1:
                    if outer == "min":
                        hi, lo = bound_outer[0], bound_inner[0]
                    else:
                        lo, hi = bound_outer[0], bound_inner[0]
        if lo is not None and hi is not None:
            ok = any(poly_of(_sub_ref(lo, rf)) == poly_of(("bin", "*", ("sym", "P0"), ("bin", "-", ("const", 1), r))) and poly_of(_sub_ref(hi, rf)) == poly_of(("bin", "*", ("sym", "P0"), ("bin", "+", ("const", 1), r))) for rf in refs)
            found = f"lo={short(lo)[:90]} hi={short(hi)[:90]}"
        from ..kit import unknown_series

        if not ok and unknown_series(ret):
            ctx.unrec(f, f.node, "out-of-band limit prices are clamped to p0(1-r) .. p0(1+r), p0 = the given market's price at time 0", "the reference price is read from something that stands in for the recorded series (not the series itself)", found)
            continue
        ctx.check(ok, f, f.node, "out-of-band limit prices are clamped to p0(1-r) .. p0(1+r), p0 = the given market's price at time 0", "min(max(price, p0*(1-r)), p0*(1+r))", found, guard="text")
    ctx.require(n >= 3, f"{PLR}.get_limited_price: returning paths not found")
    # handler: the price written is the helper's result for the order's own market
    h = ctx.func(f"{PLR}.hooked_before_order")
    mk = ("simulator.id2market[order.market_id]", "self.simulator.id2market[order.market_id]")
    m = 0
    for p in normal_paths(ctx.paths(h.qualname)):
        ps = [e for e in stores(p, "price") if key(strip_ver(e.base)) == "order"]
        others = [e for e in stores(p) if key(strip_ver(e.base)) == "order" and e.attr != "price"]
        if not ps and not others:
            _unclamped_path_justified(ctx, h, p, mk)
            continue
        m += 1
        v = strip_ver(ps[-1].value) if ps else NONE
        ok = len(ps) == 1 and not others and v[0] == "call" and key(v[1]) == "self.get_limited_price" and key(v[2][0] if v[2] else dict(v[3]).get("order", NONE)) == "order" and key(v[2][1] if len(v[2]) > 1 else dict(v[3]).get("market", NONE)) in mk
        ctx.check(ok, h, h.node, "the handler replaces the order's price by the clamped price computed for the order's own market and touches nothing else of the order", "order.price = self.get_limited_price(order, id2market[order.market_id])", short(v) + (f"; other fields: {[e.attr for e in others]}" if others else ""))
    ctx.require(m >= 1, f"{PLR}.hooked_before_order: no path writes the price")
    st = ctx.func(f"{PLR}.setup")
    for p in normal_paths(ctx.paths(st.qualname)):
        rr = stores(p, "trigger_change_rate")
        ctx.check(len(rr) == 1 and key(strip_ver(rr[0].value)) == "settings['triggerChangeRate']", st, st.node, f"{PLR}: band width is the configured rate", "settings['triggerChangeRate']", "; ".join(short(e.value) for e in rr))
        break


def _unclamped_path_justified(ctx: Ctx, h, p: Path, mk) -> None:
    """a path of the handler that leaves the price alone: only for a non-target market, a market order
    (price is None / kind is MARKET_ORDER), a disabled rule, or a price that already equals the clamped one"""
    from .events import occurrence_market_keys, target_guard

    mkeys = list(mk) + occurrence_market_keys(h)
    op = ("attr", ("sym", "order"), "price")
    why = None
    suspicious = None
    for c, pol, node in p.conds:
        c = strip_ver(c)
        if target_guard(c, True, mkeys, {}) and pol is False:
            why = "not a target market"
        elif c == ("cmp", "is", op, NONE) and pol:
            why = "market order (price is None)"
        elif c[0] == "cmp" and c[1] == "==" and pol and op in (c[2], c[3]) and any(x[0] == "call" and key(x[1]) == "self.get_limited_price" for x in (c[2], c[3])):
            why = "already equal to the clamped price"
        elif c[0] == "cmp" and c[1] == "==" and pol and "MARKET_ORDER" in key(c) and "order.kind" in key(c):
            why = "market order (kind)"
        elif key(c) == "self.is_enabled" and pol is False:
            why = "rule disabled"
        elif c == op and pol is False:
            suspicious = "`not order.price` also holds for a limit price of 0.0"
    if why is not None:
        ctx.holds(h, h.node, "a path that leaves the price alone is one where nothing has to be clamped", "non-target / market order / already in band", why)
    elif suspicious is not None:
        ctx.violated(h, h.node, "a limit order on a target market never passes unclamped", "skip only when `order.price is None`", suspicious)
    else:
        ctx.unrec(h, h.node, "a path of the handler leaves the price alone", "the reason is none of: non-target market, market order, disabled rule, price already clamped", p.describe()[:200])


def _sub_ref(t: Term, ref_key: str) -> Term:
    from ..terms import map_children

    t = strip_ver(t)
    if key(t) == ref_key:
        return ("sym", "P0")
    return map_children(t, lambda x: _sub_ref(x, ref_key))


def _abs_of(t: Term, pred) -> bool:
    return t[0] == "call" and key(t[1]) == "abs" and len(t[2]) == 1 and pred(t[2][0])


def _is_thr(t: Term, refs: List[str], r: Term) -> bool:
    return any(poly_of(_sub_ref(t, rf)) == poly_of(("bin", "*", ("sym", "P0"), r)) for rf in refs)


def _is_dev(t: Term, refs: List[str]) -> bool:
    want = poly_of(("bin", "-", ("attr", ("sym", "order"), "price"), ("sym", "P0")))
    neg = poly_of(("bin", "-", ("sym", "P0"), ("attr", ("sym", "order"), "price")))
    return any(poly_of(_sub_ref(t, rf)) in (want, neg) for rf in refs)


@rule("C15.R3", "orders of markets that are not targets are left alone", "T3 target-filter discipline (same rule as C14.R3, applied to this class)", floor=1)
def r3(ctx: Ctx) -> None:
    check_target_discipline_one(ctx)


def check_target_discipline_one(ctx: Ctx) -> None:
    from .c14 import _flatten
    from .events import occurrence_market_keys, target_guard

    m = ctx.func(f"{PLR}.hooked_before_order")
    mk = occurrence_market_keys(m)
    n = 0
    for top in ctx.paths(m.qualname):
        for path, outer, elems in _flatten(top):
            effs = [e for e in path.events if is_effect(ctx, e)]
            if not effs and path.exit[0] != "raise":
                continue
            n += 1
            conds = outer + [(c, pol) for c, pol, _ in path.conds]
            ok = any(target_guard(c, pol, mk, elems) for c, pol in conds)
            what = "raises" if path.exit[0] == "raise" and not effs else f"{len(effs)} effect(s)"
            ctx.check(ok, m, (effs[0].node if effs else m.node), f"{PLR}.hooked_before_order acts (or fails) only for a target market", "`market in self.target_markets.values()` decided true before any effect",
                      "guarded" if ok else f"{what} without a target test: {path.describe()[:140]}")
    ctx.require(n >= 1, f"{PLR}.hooked_before_order: no effect found")
    # the helper may be reached for a non-target only by raising -- and the handler never lets it
    g = ctx.func(f"{PLR}.get_limited_price")
    for s in ctx.cg.sites_calling(g.qualname):
        ctx.check(caller_ok(ctx, s.caller, lambda g: g.qualname == m.qualname), s.caller, s.node, "caller of get_limited_price", m.qualname, s.caller.qualname)


@rule("C15.H1", "mechanism shared with C13: the before-order hook runs before acceptance (hence before tick rounding) for every order in both phases", "T5 ordering (the before-order part of C13.R3)", floor=1)
def h1(ctx: Ctx) -> None:
    from .c13 import check_call_sites

    check_call_sites(ctx, {"before_order"})


@rule("C15.R4", "the rule's targets are exactly the configured markets, and each rule object keeps its own target table", "T10 provenance + per-instance state", floor=2)
def r4(ctx: Ctx) -> None:
    from .events import check_instance_state, check_target_table

    check_target_table(ctx, PLR)
    n = check_instance_state(ctx, PLR)
    ctx.require(n >= 1, f"{PLR}: no container changed in place found (the target table is expected)")


@rule("C15.H2", "mechanism shared with C13: the hooks an event declares are registered for that very event (the rule is only active if its own hook reaches the simulator)", "T4 + closure capture (same rule as C13.R5)", floor=3)
def h2(ctx: Ctx) -> None:
    from .c13 import r5 as registration_rule

    registration_rule(ctx)


@rule("C15.H3", "mechanism shared with C13: the before-order trigger reaches every registered hook, and hooks are registered as declared", "T6 + T7 (same rules as C13.R2 row order/before and C13.R4)", floor=8)
def h3(ctx: Ctx) -> None:
    from .c13 import check_registration, check_triggers

    check_triggers(ctx, {("order", "before")})
    check_registration(ctx)


@rule("C15.H4", "mechanism shared with C18: targets and rate of the rule are the configured ones (nearest definition wins along an `extends` chain)", "T4 loop structure (same rule as C18.R1)", floor=5)
def h4(ctx: Ctx) -> None:
    from .c18 import r1 as inheritance_rule

    inheritance_rule(ctx)



@rule("C15.H5", "whether an order is a limit order (and so subject to the price range) is decided by value", "T13 lint over PriceLimitRule, Order, OrderKind", floor=1)
def h5(ctx: Ctx) -> None:
    from .events import check_identity_comparisons

    check_identity_comparisons(ctx, ["PriceLimitRule", "Order", "OrderKind"], floor=8)


@rule("C15.R5", "the width of the price range is the configured rate: nothing else changes it", "T10 provenance of every store outside the constructor", floor=1)
def r5(ctx: Ctx) -> None:
    from .events import check_configured_params

    check_configured_params(ctx, "PriceLimitRule", {"trigger_change_rate": "triggerChangeRate"})
