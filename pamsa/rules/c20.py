"""C20 -- built-in agents emit well-formed orders that follow their documented strategy.

Decided: own id, kind/price well-formedness, market access, direction / hedge structure.
NOT decided: the numeric expected-return formula of the FCN agent.
"""
from __future__ import annotations

import ast
from typing import Any, Dict, List, Optional, Tuple

from ..kit import path_text, Ctx, calls, calls_target, kw, loops, normal_paths, poly_of, rule, short, stores
from ..paths import Event, Path
from ..terms import NONE, Term, key, strip_ver, substitute, subterms

AGENT_MODS = "pams.agents."


def _agent_funcs(ctx: Ctx):
    """functions of the agents package that are analysed on their own: private helpers that
    are inlined into their callers are seen there, with the callers' guards in force"""
    from ..kit import is_helper

    for f in ctx.program.all_functions():
        if f.module.name.startswith(AGENT_MODS) and f.outer is None:
            if is_helper(f) and ctx.cg.sites_calling(f.qualname):
                continue
            yield f


def _paths(ctx: Ctx, q: str) -> List[Path]:
    return ctx.paths(q, auto_inline_trivial=False)  # helpers are inlined; trivial accessors stay calls


def _orders_in(p: Path) -> List[Tuple[Event, List[Tuple[Term, bool]], Optional[Event]]]:
    """(Order construction, decisions in force, enclosing loop) for every Order built on the path"""
    out = []

    def walk(path: Path, conds: List[Tuple[Term, bool]], loop: Optional[Event]) -> None:
        cs = conds + [(strip_ver(c), pol) for c, pol, _ in path.conds]
        for e in path.events:
            if e.kind == "call" and e.site.how == "ctor" and e.name == "Order":
                out.append((e, cs, loop))
            if e.kind == "loop":
                for bp in e.paths:
                    walk(bp, cs, e)

    walk(p, [], None)
    return out


@rule("C20.R1", "every order a built-in agent constructs carries the agent's own id and a kind consistent with its price", "T11 on every construction site", floor=5)
def r1(ctx: Ctx) -> None:
    seen = set()
    classes = set()
    for f in _agent_funcs(ctx):
        if f.cls is None:
            continue
        for p in _paths(ctx, f.qualname):
            for e, conds, lp in _orders_in(p):
                aid = strip_ver(kw(e, "agent_id", 0) or NONE)
                kind = strip_ver(kw(e, "kind", 3) or NONE)
                price = strip_ver(kw(e, "price", 5) or NONE)
                vol = kw(e, "volume", 4)
                k = (id(e.node), key(aid), key(kind), key(price))
                if k in seen:
                    continue
                seen.add(k)
                classes.add(f.cls.name)
                kname = key(kind).rsplit(".", 1)[-1]
                if kname not in ("LIMIT_ORDER", "MARKET_ORDER"):
                    ctx.unrec(f, e.node, "order kind is one of the two module constants", "LIMIT_ORDER | MARKET_ORDER", short(kind))
                    continue
                has_price = price != NONE
                ok = key(aid) == "self.agent_id" and ((kname == "LIMIT_ORDER" and has_price) or (kname == "MARKET_ORDER" and not has_price))
                ctx.check(ok and vol is not None, f, e.node, "order is issued under the agent's own id; limit orders have a price, market orders none", "agent_id=self.agent_id; LIMIT_ORDER with price | MARKET_ORDER without",
                          f"agent_id={short(aid)}, kind={kname}, price={'set' if has_price else 'none'}")
    ctx.require(len(classes) >= 4, "fewer agent classes constructing orders than confirmed by reading")


def kw_term(call: Term, name: str, pos: int) -> Optional[Term]:
    d = dict(call[3])
    if name in d:
        return d[name]
    return call[2][pos] if len(call[2]) > pos else None


def canon(c: Term):
    from ..terms import canon_pred

    return canon_pred(c)


def _access_test(c: Term, pol: bool, mterm: Term) -> bool:
    """decision that the agent can access market `mterm` (a market object term)"""
    if not pol:
        return False
    mid = ("attr", mterm, "market_id")
    if c[0] == "call" and key(c[1]) == "self.is_market_accessible" and (dict(c[3]).get("market_id") == mid or (c[2] and c[2][0] == mid)):
        return True
    if c[0] == "cmp" and c[1] == "in" and c[2] == mid and key(c[3]) == "self.asset_volumes":
        return True
    return False


def _all_access_test(c: Term, pol: bool, container: Term) -> bool:
    """`every market of <container> is accessible` (all(...) true / any(not ...) false / ...)"""
    from ..kit import forall_pred

    fa = forall_pred(c, pol)
    if fa is None:
        return False
    pred, gens = fa
    if len(gens) != 1 or gens[0][2] or len(gens[0][0]) != 1:
        return False
    b = ("bound", gens[0][0][0])
    return strip_ver(gens[0][1]) == strip_ver(container) and _access_test(pred, True, b)


def _setup_guards_attr(ctx: Ctx, cname: str, attr: str) -> bool:
    """every normal path of <cname>.setup that assigns self.<attr> has decided that market accessible"""
    f = ctx.program.lookup_method(cname, "setup")
    if f is None:
        return False
    found = False
    for p in normal_paths(_paths(ctx, f.qualname)):
        st = [e for e in stores(p, attr) if key(strip_ver(e.base)) == "self"]
        if not st:
            continue
        found = True
        v = strip_ver(st[-1].value)
        ok = any(_access_test(strip_ver(c), pol, v) or _access_test(strip_ver(c), pol, ("attr", ("sym", "self"), attr)) for c, pol, _ in p.conds)
        if not ok:
            return False
    return found


@rule("C20.R2", "orders are only built for markets the agent can access: an access test on that very market dominates the construction (or the agent's setup rejects an inaccessible target)", "T3 guard dominates construction", floor=11)
def r2(ctx: Ctx) -> None:
    n = 0
    for f in _agent_funcs(ctx):
        if f.cls is None:
            continue
        for p in _paths(ctx, f.qualname):
            for e, conds, lp in _orders_in(p):
                n += 1
                mid = strip_ver(kw(e, "market_id") or NONE)
                if mid[0] != "attr" or mid[2] != "market_id":
                    ctx.violated(f, e.node, "order names its market through a market object", "market_id=<market>.market_id", short(mid))
                    continue
                M = mid[1]
                ok = any(_access_test(c, pol, M) for c, pol in conds)
                how = "access test on the path"
                if not ok and M[0] == "sym" and "∈" in M[1] and lp is not None:
                    ok = any(_all_access_test(c, pol, lp.iter) for c, pol in conds)
                    how = "all(...) access test over the iterated markets"
                    if not ok:
                        it = strip_ver(lp.iter)
                        if it[0] == "comp" and any(_access_test(c, True, ("bound", it[3][0][0][0])) for c in it[3][0][2]):
                            ok, how = True, "iteration over a list filtered by accessibility"
                if not ok and M[0] == "attr" and M[1] == ("sym", "self"):
                    ok = _setup_guards_attr(ctx, f.cls.name, M[2])
                    how = f"setup rejects an inaccessible self.{M[2]}"
                ctx.check(ok, f, e.node, f"{f.qualname}: order for {short(M)} is built only if that market is accessible", "is_market_accessible(market_id=M.market_id) decided true (or validated in setup)", how if ok else "no access test dominates this construction", guard="text",
                          guard_text=" ".join(str(x.data.get("target", "")).replace(".", " ") for x in p.walk_events(True) if x.kind == "note" and x.data.get("what") == "inline"))  # orders built inside a routine that is new in this tree
    ctx.require(n >= 8, "fewer reachable Order constructions than confirmed by reading")


def _expected_price_formula(ctx: Ctx, f, p: Path, E: Term, P: Term, conds) -> None:
    """E = P x exp(r x window), r = (wf F + (+/-) wc C + wn N) / (wf + wc + wn) with the documented F, C, N"""
    from ..terms import Unrecognised

    def A(name: str) -> Term:
        return ("attr", ("sym", "self"), name)

    def call(fn: Term, *args: Term, **kws: Term) -> Term:
        return ("call", fn, tuple(args), tuple(kws.items()), None)

    def mul(*xs: Term) -> Term:
        out = xs[0]
        for x in xs[1:]:
            out = ("bin", "*", out, x)
        return out

    def inv(x: Term) -> Term:
        return ("bin", "/", ("const", 1.0), x)

    follow = [pol for c, pol in conds if key(c) == "self.is_chart_following"]
    if E[0] != "bin" or E[1] != "*" or P not in (E[2], E[3]):
        ctx.unrec(f, f.node, "expected future price = market price x exp(expected log-return x window)", "the expected price is not written as a product with the market price", short(E)[:200])
        return
    ex = E[3] if E[2] == P else E[2]
    if not (ex[0] == "call" and key(ex[1]) == "math.exp" and len(ex[2]) == 1):
        ctx.unrec(f, f.node, "expected future price = market price x exp(expected log-return x window)", "no exponential factor", short(E)[:200])
        return
    if len(follow) != 1:
        ctx.unrec(f, f.node, "the chart term enters with the sign of the agent's trend attitude", "one decision on self.is_chart_following expected", str(follow))
        return
    t = call(("attr", ("sym", "market"), "get_time"))
    tws = A("time_window_size")
    w = call(("name", "min"), t, tws)
    F = mul(inv(call(("name", "max"), A("mean_reversion_time"), ("const", 1))), call(("name", "math.log"), ("bin", "/", call(("attr", ("sym", "market"), "get_fundamental_price")), P)))
    C = mul(inv(call(("name", "max"), w, ("const", 1))), call(("name", "math.log"), ("bin", "/", P, call(("attr", ("sym", "market"), "get_market_price"), ("bin", "-", t, w)))))
    N = mul(A("noise_scale"), call(("attr", A("prng"), "gauss"), mu=("const", 0.0), sigma=("const", 1.0)))
    sgn = ("const", 1 if follow[0] else -1)
    R = mul(inv(("bin", "+", ("bin", "+", A("fundamental_weight"), A("chart_weight")), A("noise_weight"))),
            ("bin", "+", ("bin", "+", mul(A("fundamental_weight"), F), mul(A("chart_weight"), C, sgn)), mul(A("noise_weight"), N)))
    want = mul(R, tws)

    def norm_names(x: Term) -> Term:
        # math.log is written as a module attribute in the code; compare by printed name
        return x

    try:
        got_k = poly_of(_relabel(ex[2][0]))
        want_k = poly_of(_relabel(want))
    except Unrecognised as e:
        ctx.unrec(f, f.node, "expected log-return is a weighted mean of the three documented components", f"not polynomial in the documented components: {e}")
        return
    ctx.check(got_k == want_k, f, f.node, "expected future price = P x exp(r x window), r = (wf F + s wc C + wn N)/(wf + wc + wn), F = log(fundamental/P)/max(reversion,1), C = log(P/P(t-w))/max(w,1), w = min(t, window), N = noise_scale x gauss(0,1)",
              want_k[:400], got_k[:400])


def _relabel(t: Term) -> Term:
    """calls compared by their printed callee name so that `math.log` spelled as attribute or name agree"""
    from ..terms import map_children

    def go(x: Term) -> Term:
        x = map_children(x, go)
        if x[0] == "call":
            k = key(x[1])
            if k.endswith(".gauss") or k == "gauss":
                k = "gauss"  # a normal draw, whichever generator provides it
            return ("call", ("name", k), x[2], x[3], x[4] if len(x) > 4 else None)
        return x

    return go(t)


@rule("C20.R3", "FCN agent: one buy exactly when the expected future price exceeds the market price, one sell exactly when it is below; fixed margin quotes E(1-k) / E(1+k)", "T6 direction table + T7 product form", floor=4)
def r3(ctx: Ctx) -> None:
    q = "FCNAgent.submit_orders_by_market"
    f = ctx.func(q)
    P = ("call", ("attr", ("sym", "market"), "get_market_price"), (), (), None)
    n = 0
    for p in _paths(ctx, q):
        if p.exit[0] != "return":
            continue
        conds = [(strip_ver(c), pol) for c, pol, _ in p.conds]
        up = [(c, pol) for c, pol in conds if c[0] == "cmp" and c[1] in ("<", "<=") and c[2] == P and c[3] != P]
        down = [(c, pol) for c, pol in conds if c[0] == "cmp" and c[1] in ("<", "<=") and c[3] == P and c[2] != P]
        orders = [e for e, _, _ in _orders_in(p)]
        fixed = [pol for c, pol in conds if key(c) in ("(0 == self.margin_type)", "(pams.agents.fcn_agent.MARGIN_FIXED == self.margin_type)", "(self.margin_type == 0)")]
        normal = [pol for c, pol in conds if key(c) in ("(1 == self.margin_type)", "(pams.agents.fcn_agent.MARGIN_NORMAL == self.margin_type)", "(self.margin_type == 1)")]
        active = (bool(fixed) and fixed[0]) + (bool(normal) and normal[0])
        if not orders and not active:
            continue
        n += 1
        if not up or not down:
            ctx.violated(f, f.node, "direction depends on comparing the expected price with the market price", "decisions `P < E` and `E < P`", p.describe()[-200:])
            continue
        E = up[0][0][3]
        _expected_price_formula(ctx, f, p, E, P, conds)
        strict = up[0][0][1] == "<" and down[0][0][1] == "<" and down[0][0][2] == E
        want_buy = up[0][1] if strict else None
        want_sell = down[0][1] if strict else None
        buys = [e for e in orders if kw(e, "is_buy") == ("const", True)]
        sells = [e for e in orders if kw(e, "is_buy") == ("const", False)]
        ok = strict and (len(buys) == (active if want_buy else 0)) and (len(sells) == (active if want_sell else 0)) and len(buys) + len(sells) == len(orders)
        ctx.check(ok, f, f.node, "buy iff E > P, sell iff E < P, nothing when equal (per active margin mode)", "one buy per mode iff P < E (strict); one sell per mode iff E < P (strict)",
                  f"comparators: {up[0][0][1]}/{down[0][0][1]}; P<E={up[0][1]} E<P={down[0][1]}; modes={active}; buys={len(buys)} sells={len(sells)}")
        if fixed and fixed[0]:
            k = ("attr", ("sym", "self"), "order_margin")
            for e in orders:
                pr = strip_ver(kw(e, "price") or NONE)
                pe = poly_of(substitute(pr, {E: ("sym", "E")}))
                if "gauss" in key(pr):
                    continue  # normal-margin quote
                sign = "-" if kw(e, "is_buy") == ("const", True) else "+"
                want = poly_of(("bin", "*", ("sym", "E"), ("bin", sign, ("const", 1), k)))
                ctx.check(pe == want, f, e.node, f"fixed margin: {'buy' if sign == '-' else 'sell'} quote = E x (1 {sign} margin)", want, pe)
        for e in orders:
            ok = key(strip_ver(kw(e, "market_id") or NONE)) == "market.market_id" and kw(e, "volume") is not None
            ctx.check(ok, f, e.node, "the order is for the market that was evaluated", "market_id=market.market_id", short(kw(e, "market_id")))
    ctx.require(n >= 4, f"{q}: order-producing paths not found")


@rule("C20.R4", "market maker: one buy and one sell on its target market, symmetric around the base price and separated by fundamental price x spread", "T7 / T8 mirror", floor=1)
def r4(ctx: Ctx) -> None:
    q = "MarketMakerAgent.submit_orders"
    f = ctx.func(q)
    n = 0
    for p in _paths(ctx, q):
        if p.exit[0] != "return":
            continue
        n += 1
        orders = [e for e, _, _ in _orders_in(p)]
        buys = [e for e in orders if kw(e, "is_buy") == ("const", True)]
        sells = [e for e in orders if kw(e, "is_buy") == ("const", False)]
        ok = len(orders) == 2 and len(buys) == 1 and len(sells) == 1
        ctx.check(ok, f, f.node, "exactly one buy and one sell quote", "1 + 1", f"{len(buys)} buy(s), {len(sells)} sell(s)")
        if not ok:
            continue
        pb, ps = strip_ver(kw(buys[0], "price")), strip_ver(kw(sells[0], "price"))
        okm = pb[0] == "bin" and pb[1] == "-" and ps[0] == "bin" and ps[1] == "+" and pb[2] == ps[2] and pb[3] == ps[3]
        ctx.check(okm, f, f.node, "quotes are base - m and base + m with one base and one m", "buy = base - m; sell = base + m", f"buy={short(pb)[:80]} sell={short(ps)[:80]}")
        if okm:
            m = pb[3]
            F = ("call", ("attr", ("attr", ("sym", "self"), "target_market"), "get_fundamental_price"), (), (), None)
            want = poly_of(("bin", "*", ("bin", "*", ("sym", "F"), ("attr", ("sym", "self"), "net_interest_spread")), ("const", 0.5)))
            kept = sorted({"self." + x[2] for x in subterms(strip_ver(m)) if x[0] == "attr" and x[1] == ("sym", "self") and x[2].startswith("_")})
            if poly_of(substitute(m, {F: ("sym", "F")})) != want and kept:
                ctx.unrec(f, f.node, "half spread m = target's fundamental price x spread / 2 (ask - bid = fundamental x spread)", f"the half spread is read from state the agent keeps ({', '.join(kept[:3])}): whether it still equals fundamental x spread / 2 when the quote is made is not decided", short(m)[:100])
                continue
            ctx.check(poly_of(substitute(m, {F: ("sym", "F")})) == want, f, f.node, "half spread m = target's fundamental price x spread / 2 (ask - bid = fundamental x spread)", want, poly_of(substitute(m, {F: ("sym", "F")})))
            base = pb[2]
            okb = (base[0] == "call" and key(base[1]) == "self.get_base_price") or key(base) == "self.target_market.get_market_price()"
            ctx.check(okb, f, f.node, "base price = mid of best quotes over accessible markets, else the target's market price", "self.get_base_price(markets) | self.target_market.get_market_price()", short(base)[:100])
            if base[0] == "call" and key(base[1]) == "self.get_base_price":
                # `accessible` is decided by get_base_price itself, at the time of the call: it is given all markets
                from ..terms import normalise

                arg = normalise(strip_ver(kw_term(base, "markets", 0) or NONE))
                if arg == ("sym", "markets"):
                    ctx.holds(f, f.node, "the base price looks at all markets the agent is given (accessibility is tested per call)", "get_base_price(markets=markets)", short(arg))
                elif arg[0] == "comp" and len(arg[3]) == 1 and strip_ver(arg[3][0][1]) == ("sym", "markets") and arg[2] == ("bound", arg[3][0][0][0]) and all(_access_test(canon(c)[0], canon(c)[1], ("bound", arg[3][0][0][0])) for c in arg[3][0][2]):
                    ctx.holds(f, f.node, "the base price looks at all accessible markets the agent is given", "markets filtered by the access test only", short(arg)[:100])
                elif arg[0] == "comp" and strip_ver(arg[3][0][1]) == ("sym", "markets"):
                    ctx.violated(f, f.node, "the base price looks at all accessible markets the agent is given", "get_base_price(markets=markets)", f"markets are pre-selected by {short(arg[3][0][2][0]) if arg[3][0][2] else '?'}: a list fixed elsewhere (e.g. at setup) is not `the markets the agent can access now`")
                else:
                    ctx.unrec(f, f.node, "the base price looks at all accessible markets the agent is given", "argument of get_base_price not understood", short(arg)[:100])
        for e in orders:
            ctx.check(key(strip_ver(kw(e, "market_id") or NONE)) == "self.target_market.market_id", f, e.node, "quotes go to the target market", "market_id=self.target_market.market_id", short(kw(e, "market_id")))
    ctx.require(n >= 1, f"{q}: no returning path")
    g = ctx.func("MarketMakerAgent.get_base_price")
    for p in _paths(ctx, g.qualname):
        if p.exit[0] != "return" or p.exit[1] == NONE:
            continue
        lps = loops(p)
        ok = len(lps) == 2
        for l in lps:
            el = ("sym", f"{l.target[0]}∈{l.loopid}")
            for bp in l.paths:
                changed = [k for k, ph in l.phi.items() if bp.env.get(k) not in (None, ph) and ph in list(subterms(bp.env.get(k)))]  # accumulators: new value built from the old one
                if changed and not any(_access_test(strip_ver(c), pol, el) for c, pol, _ in bp.conds):
                    ok = False
        ctx.check(ok, g, g.node, "only accessible markets contribute to the base price", "best quotes are folded in only under is_market_accessible(market)", f"{len(lps)} loop(s)")
        r = strip_ver(p.exit[1])
        okr = r[0] == "bin" and r[1] == "/" and r[3] in (("const", 2.0), ("const", 2)) and r[2][0] == "bin" and r[2][1] == "+"
        ctx.check(okr, g, g.node, "base price is the midpoint of the best bid and best ask found", "(max_buy + min_sell) / 2", short(r)[:80])


@rule("C20.R5", "arbitrage agent: acts only on an accessible, running index whose components all run; when index price and computed index differ by more than the threshold it sends one index order of n x v against n component orders of v on the opposite side", "T6 table + T7", floor=2)
def r5(ctx: Ctx) -> None:
    q = "ArbitrageAgent._submit_orders"
    f = ctx.func(q)
    P = ("call", ("attr", ("sym", "market"), "get_market_price"), (), (), None)
    I = ("call", ("attr", ("sym", "market"), "get_index"), (), (), None)
    thr = ("attr", ("sym", "self"), "order_threshold_price")
    v = ("attr", ("sym", "self"), "order_volume")
    n = 0
    for p in _paths(ctx, q):
        if p.exit[0] != "return":
            continue
        conds = [(strip_ver(c), pol) for c, pol, _ in p.conds]
        ck = {key(c): pol for c, pol in conds}
        items = _orders_in(p)
        if not items:
            continue
        n += 1
        pre = ck.get("isinstance(market, pams.index_market.IndexMarket)") is True and ck.get("self.is_market_accessible(market_id=market.market_id)") is True \
            and (ck.get("market.is_running") is True or ck.get("market._is_running") is True) and ck.get("market.is_all_markets_running()") is True
        ctx.check(pre, f, f.node, "orders only for an accessible, running index market whose components all run", "IndexMarket, accessible, index running, all components running", str({k: v_ for k, v_ in ck.items() if "running" in k or "accessible" in k or "isinstance" in k}))
        low = ck.get(key(("cmp", "<", P, I))) is True and ck.get(key(("cmp", "<", thr, ("bin", "-", I, P)))) is True
        high = ck.get(key(("cmp", "<", I, P))) is True and ck.get(key(("cmp", "<", thr, ("bin", "-", P, I)))) is True
        idx_orders = [(e, lp) for e, _, lp in items if lp is None]
        comp_orders = [(e, lp) for e, _, lp in items if lp is not None]
        want_sides = []
        if low:
            want_sides.append((True, False))
        if high:
            want_sides.append((False, True))
        got_sides = []
        ok = len(idx_orders) == len(want_sides) and len(comp_orders) == len(want_sides)
        for (ie, _), (ce, cl) in zip(idx_orders, comp_orders):
            got_sides.append((kw(ie, "is_buy") == ("const", True), kw(ce, "is_buy") == ("const", True)))
            comps = ("call", ("attr", ("sym", "market"), "get_components"), (), (), None)
            okv = poly_of(strip_ver(kw(ie, "volume"))) == poly_of(("bin", "*", ("call", ("name", "len"), (comps,), (), None), v)) and strip_ver(kw(ce, "volume")) == v
            okm = key(strip_ver(kw(ie, "market_id"))) == "market.market_id" and strip_ver(cl.iter) == comps and strip_ver(kw(ce, "market_id")) == ("attr", ("sym", f"{cl.target[0]}∈{cl.loopid}"), "market_id")
            one = all(len([x for x in calls(bp) if x.site.how == "ctor" and x.name == "Order"]) == 1 and not bp.conds for bp in cl.paths)
            cv = strip_ver(kw(ce, "volume"))
            hedged = poly_of(strip_ver(kw(ie, "volume"))) == poly_of(("bin", "*", ("call", ("name", "len"), (comps,), (), None), cv))
            if not okv and hedged and okm and one:
                # the basket is hedged (index leg = n x the component leg) but its size is not the configured volume: a sizing policy the rule has no statement about
                ctx.unrec(f, ie.node, "hedged basket: index leg n x v on the index, one leg of v per component", "the legs are hedged, but v is not the configured order volume: how the basket is sized is not decided", f"v = {short(cv)[:120]}")
                continue
            ctx.check(okv and okm and one, f, ie.node, "hedged basket: index leg n x v on the index, one leg of v per component", "index volume = len(components) x v; each component exactly one order of v", f"index vol={short(kw(ie, 'volume'))}, component vol={short(kw(ce, 'volume'))}, per-component orders ok={one}")
        ctx.check(ok and got_sides == want_sides, f, f.node, "direction: index cheap (P < I, I - P > thr) -> buy index / sell components; index dear -> the mirror image; otherwise nothing", str(want_sides), str(got_sides), guard="text", guard_text=path_text(p))
    ctx.require(n >= 2, f"{q}: acting paths not found")
    # nothing is sent when neither gap condition holds
    for p in _paths(ctx, q):
        if p.exit[0] == "return" and not _orders_in(p):
            pass
    g = ctx.func("ArbitrageAgent.submit_orders")
    for p in normal_paths(_paths(ctx, g.qualname)):
        lp = [l for l in loops(p) if key(strip_ver(l.iter)) == "markets"]
        ok = len(lp) == 1 and all(len([c for c in calls(bp) if calls_target(c, q)]) == 1 for bp in lp[0].paths)
        ctx.check(ok, g, g.node, "every market is examined once", "for market in markets: self._submit_orders(market)", f"{len(lp)} loop(s)")
        # ... and every basket is passed on whole (an index leg without all its component legs is not a hedge)
        from ..kit import seq_value

        comp = seq_value(p, p.exit[1]) if p.exit[1] is not None else None
        okc = comp is not None and comp[0] == "comp" and len(comp[3]) == 2
        if okc:
            g0, g1 = comp[3]
            inner = strip_ver(g1[1])
            okc = key(strip_ver(g0[1])) == "markets" and not g0[2] and not g1[2] and len(g0[0]) == 1 and len(g1[0]) == 1 and comp[2] == ("bound", g1[0][0]) \
                and inner[0] == "call" and key(inner[1]) == "self._submit_orders" and (dict(inner[3]).get("market") or (inner[2][0] if inner[2] else None)) in (("bound", g0[0][0]), ("sym", f"{g0[0][0]}∈{lp[0].loopid}") if lp else None)
        if comp is None:
            # not a recognised construction: a violation only if some basket element is visibly skipped
            skipping = [bp for l in [x for x in p.walk_events(True) if x.kind == "loop"] for bp in l.paths if bp.conds and bp.exit[0] in ("continue", "break", "fall")
                        and not [e for e in calls(bp, into_loops=False) if e.name in ("append", "extend")] and any([e for e in calls(o, into_loops=False) if e.name in ("append", "extend")] for o in l.paths)]
            if skipping:
                ctx.violated(g, g.node, "the result is the concatenation of every market's whole basket, nothing dropped or filtered", "[o for market in markets for o in self._submit_orders(market)]", "an order of a basket is skipped under " + skipping[0].describe()[:120])
            else:
                ctx.unrec(g, g.node, "the result is the concatenation of every market's whole basket", "the way the result list is built is not modelled")
        else:
            ctx.check(okc, g, g.node, "the result is the concatenation of every market's whole basket, nothing dropped or filtered", "[o for market in markets for o in self._submit_orders(market)]", short(comp)[:200])


@rule("C20.R6", "market-share FCN agent: picks one market among the accessible ones and places the FCN order on that market only", "T4 + T10", floor=1)
def r6(ctx: Ctx) -> None:
    q = "MarketShareFCNAgent.submit_orders"
    f = ctx.func(q)
    n = 0
    for p in _paths(ctx, q):
        if p.exit[0] != "return":
            continue
        n += 1
        r = strip_ver(p.exit[1])
        cs = [e for e in calls(p) if e.name == "submit_orders_by_market"]
        ok = len(cs) == 1 and strip_ver(cs[0].term) == r
        ctx.check(ok, f, f.node, "exactly one delegation to the FCN strategy", "return super().submit_orders_by_market(market=<chosen>)", f"{len(cs)} call(s)")
        if not ok:
            continue
        m = strip_ver(kw(cs[0], "market", 0) or NONE)
        okc = m[0] == "sub" and m[2] == ("const", 0) and m[1][0] == "call" and key(m[1][1]).endswith(".choices")
        src = m[1][2][0] if okc and m[1][2] else None
        if okc:
            okc = key(m[1][1]).endswith(".choices")  # whose generator draws is C07's concern
        comp = None
        for e in p.walk_events():
            if e.kind == "note" and e.data.get("what") == "alloc":
                pass
        # the population is the list of accessible markets
        filt = p.env.get("filter_markets")
        ok_f = False
        for t in ([src] if src is not None else []):
            tt = strip_ver(t)
            if tt[0] == "comp" and len(tt[3]) == 1 and key(tt[3][0][1]) == "markets" and len(tt[3][0][2]) == 1 and _access_test(tt[3][0][2][0], True, ("bound", tt[3][0][0][0])) and tt[2] == ("bound", tt[3][0][0][0]):
                ok_f = True
            # ... or the first components of pairs (market, weight) that were built for the accessible markets only
            if tt[0] == "comp" and len(tt[3]) == 1 and len(tt[3][0][0]) == 2 and not tt[3][0][2] and tt[2] == ("bound", tt[3][0][0][0]):
                inner = strip_ver(tt[3][0][1])
                if inner[0] == "comp" and len(inner[3]) == 1 and key(inner[3][0][1]) == "markets" and len(inner[3][0][2]) == 1 and len(inner[3][0][0]) == 1 \
                        and _access_test(inner[3][0][2][0], True, ("bound", inner[3][0][0][0])) and inner[2][0] == "tuple" and len(inner[2][1]) == 2 and inner[2][1][0] == ("bound", inner[3][0][0][0]):
                    ok_f = True
        ctx.check(okc and ok_f, f, f.node, "the market is drawn from the accessible markets only", "self.get_prng().choices([m for m in markets if accessible(m)], weights)[0]", short(m)[:160])
    ctx.require(n >= 1, f"{q}: no returning path")


@rule("C20.H1", "mechanism shared with C07: an agent's setup reads the group's settings and never writes them (all agents of a group are configured from the same values)", "T14 taint (same rule as the setup part of C07.R5)", floor=3)
def h1(ctx: Ctx) -> None:
    from .c07 import check_setups_pure

    check_setups_pure(ctx, "Agent")


@rule("C20.H2", "mechanism shared with C17: the computed index the arbitrage agent compares with is the current weighted average of the components", "accumulator shape (same rule as C17.R2)", floor=2)
def h2(ctx: Ctx) -> None:
    from .c17 import r2 as index_rule

    index_rule(ctx)


@rule("C20.R7", "an FCN agent runs its strategy on every market it is given and can access: no market is left out for another reason", "T4 coverage of the market loop", floor=1)
def r7(ctx: Ctx) -> None:
    from ..terms import canon_pred, normalise

    q = "FCNAgent.submit_orders"
    f = ctx.func(q)
    n = 0
    for p in _paths(ctx, q):
        if p.exit[0] != "return":
            continue
        n += 1
        # comprehension form
        def has_call(t: Term) -> bool:
            return any(x[0] == "call" and key(x[1]) == "self.submit_orders_by_market" for x in subterms(t))

        comps = [s_ for s_ in subterms(normalise(strip_ver(p.exit[1]))) if s_[0] == "comp" and (has_call(s_[2]) or any(has_call(g_[1]) for g_ in s_[3]))]
        lps = [l for l in loops(p) if any(e.name == "submit_orders_by_market" for bp in l.paths for e in calls(bp))]
        if comps:
            c0 = comps[0]
            g0 = c0[3][0]
            okc = strip_ver(g0[1]) == ("sym", "markets") and all(_access_test(canon_pred(c)[0], canon_pred(c)[1], ("bound", g0[0][0])) for c in g0[2])
            ctx.check(okc, f, f.node, "every given market is handed to the strategy", "[self.submit_orders_by_market(m) for m in markets]", short(c0)[:160])
        elif lps:
            l = lps[0]
            el = ("sym", f"{l.target[0]}∈{l.loopid}")
            ctx.check(strip_ver(l.iter) == ("sym", "markets"), f, l.node, "the loop runs over the markets the agent is given", "for market in markets", short(l.iter)[:100])
            for bp in l.paths:
                if bp.exit[0] == "raise":
                    continue
                called = [e for e in calls(bp) if e.name == "submit_orders_by_market"]
                if called:
                    continue
                justified = any(_access_test(strip_ver(c), not pol, el) for c, pol, _ in bp.conds)
                ctx.check(justified, f, l.node, "a market is skipped only because the agent cannot access it", "skip iff not is_market_accessible(market)", bp.describe()[:140])
        else:
            ctx.unrec(f, f.node, "every given market is handed to the strategy", "neither a loop nor a comprehension over the markets was found", short(p.exit[1])[:120])
    ctx.require(n >= 1, f"{q}: no returning path")


@rule("C20.H3", "mechanism shared with C18: the thresholds, volumes and weights an agent acts on are the configured ones, 0 included", "T13 lint (same rule as C18.R10, agents only)", floor=1)
def h3(ctx: Ctx) -> None:
    from .events import check_or_defaults

    check_or_defaults(ctx, "Agent", floor=3)
