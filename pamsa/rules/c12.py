"""C12 -- fundamentals: positive geometric walk with configured drift, volatility, correlation.

Decided: history preservation / continuation (regeneration keeps the prefix, starts from
the kept level, every parameter change and shock moves the regeneration point).
Necessary conditions only: positivity structure and the shape of the return transform.
NOT decided: that log-returns have the configured mean, deviation and correlation
(distributional), and exactness of the zero-volatility path in floats.
"""
from __future__ import annotations

from typing import Any, Dict, List, Optional

from ..kit import caller_ok, Case, Ctx, calls, kw, loops, normal_paths, poly_of, rule, short, stores, table_check_cases
from ..paths import Event, Path
from ..terms import NONE, Term, Unrecognised, World, diff_const, key, strip_ver, subterms

GN = "Fundamentals._generate_next"
GL = "Fundamentals._generate_log_return"
G = ("attr", ("sym", "self"), "_generated_until")


def _find(t: Term, pred) -> List[Term]:
    return [s for s in subterms(strip_ver(t)) if pred(s)]


def _is_call(t: Term, name: str) -> bool:
    return t[0] == "call" and key(t[1]).split(".")[-1] == name


@rule("C12.R1", "regeneration keeps every price up to the regeneration point, continues from the price at that point, and advances the point by exactly the generated length", "T7 slice/index identities", floor=4)
def r1(ctx: Ctx) -> None:
    f = ctx.func(GN)
    if "prices" in ctx.program.cls("Fundamentals").methods and ctx.program.cls("Fundamentals").methods["prices"].is_property:
        ctx.unrec(f, f.node, "the generated paths are kept in Fundamentals.prices", "`prices` is a computed view now and the paths are stored elsewhere: the rules follow the stored dictionary of lists only")
        return
    n = 0
    for p in normal_paths(ctx.paths(GN)):
        n += 1
        gen = [e for e in calls(p, into_loops=False) if e.name == "_generate_log_return"]
        ctx.require(len(gen) == 1, f"{GN}: exactly one call of _generate_log_return expected")
        length = kw(gen[0], "length", 1)
        targets = kw(gen[0], "generate_target_ids", 0)
        st = [e for e in stores(p, "_generated_until", into_loops=False)]
        ok = len(st) == 1 and length is not None and poly_of(strip_ver(st[0].value)) == poly_of(("bin", "+", G, strip_ver(length)))
        ctx.check(ok, f, f.node, "regeneration point advances by the length handed to the generator", "_generated_until += length", "; ".join(short(e.value) for e in st))
        lps = loops(p)
        if len(lps) > 1:
            # besides the pass over the regenerated markets: loops that only compute are nobody's business; a loop
            # that changes the generator's state (parameters applied on the way, schedules consumed) is an extension
            # of the mechanism this rule does not model
            passes = [l for l in lps if _is_call(strip_ver(l.iter), "zip")]
            extra = [l for l in lps if l not in passes]
            touching = [l for l in extra if any(e.kind in ("store", "del") or (e.kind == "call" and e.data.get("mutates") is not None and key(strip_ver(e.data["mutates"])).startswith("self.")) for bp in l.paths for e in bp.walk_events())]
            if touching:
                ctx.unrec(f, touching[0].node, "regeneration is one pass that assigns the generated series", "another loop of the function changes state of the generator (" + short(touching[0].iter)[:80] + "): what that does to already generated prices is not decided")
                continue
            if len(passes) == 1:
                lps = passes
        ctx.check(len(lps) == 1, f, f.node, "one pass over the regenerated markets", "1 loop", str(len(lps)))
        for l in lps:
            it = strip_ver(l.iter)
            ok_zip = _is_call(it, "zip") and len(it[2]) == 2 and targets is not None and it[2][0] == strip_ver(targets)
            ctx.check(ok_zip, f, l.node, "generated series are assigned to the markets they were generated for, in the same order", "zip(target_market_ids, prices)", short(it)[:160])
            prices = it[2][1] if ok_zip else None
            if prices is not None:
                # prices = base.T.reshape(-1, 1) * exp(cumsum(log_return, axis=-1)), base = [prices[x][G] for x in targets]
                exps = _find(prices, lambda s: _is_call(s, "exp"))
                cums = _find(prices, lambda s: _is_call(s, "cumsum"))
                base = _find(prices, lambda s: s[0] == "comp" and s[2][0] == "sub" and s[2][1][0] == "sub" and key(s[2][1][1]) == "self.prices")
                ok = prices[0] == "bin" and prices[1] == "*" and len(exps) == 1 and len(cums) == 1 and cums[0] in list(subterms(exps[0])) and gen[0].term is not None \
                    and strip_ver(gen[0].term) in list(subterms(cums[0])) and dict(cums[0][3]).get("axis") == ("const", -1)
                ctx.check(ok, f, l.node, "new prices = kept level x exp(cumulative log-return along time)", "base * np.exp(np.cumsum(log_return, axis=-1))", short(prices)[:200])
                okb = len(base) == 1 and base[0][2][2] == G and base[0][2][1][2] == ("bound", base[0][3][0][0][0]) and base[0][3][0][1] == strip_ver(targets) and not base[0][3][0][2]
                ctx.check(okb, f, l.node, "the level continued from is the price at the regeneration point of each regenerated market", "[self.prices[x][_generated_until] for x in target_market_ids]", short(base[0])[:160] if base else "not found")
            mid = ("sym", f"{l.target[0]}∈{l.loopid}")
            seq = ("sym", f"{l.target[1]}∈{l.loopid}") if len(l.target) > 1 else None
            for bp in l.paths:
                sts = [e for e in bp.events if e.kind == "store"]
                ok = len(sts) == 1 and sts[0].attr is None and key(strip_ver(sts[0].base)) == "self.prices" and sts[0].index == mid and not bp.conds
                v = strip_ver(sts[0].value) if sts else NONE
                if ok:
                    ok = v[0] == "bin" and v[1] == "+" and v[2][0] == "sub" and v[2][1] == ("sub", ("attr", ("sym", "self"), "prices"), mid) and v[2][2][0] == "slice" \
                        and v[2][2][1] is None and v[2][2][3] is None and v[2][2][2] is not None and diff_const(v[2][2][2], G) == 1 \
                        and seq is not None and any(s == seq for s in subterms(v[3]))
                ctx.check(ok, f, l.node, "kept prefix is prices[: regeneration point + 1], followed by the newly generated values", "self.prices[m] = self.prices[m][: _generated_until + 1] + new", short(v)[:200])
    ctx.require(n >= 2, f"{GN}: both length branches expected")
    # lookups regenerate until the requested time is covered, and only then read
    for q, plural in (("Fundamentals.get_fundamental_price", False), ("Fundamentals.get_fundamental_prices", True)):
        g = ctx.func(q)
        for p in normal_paths(ctx.paths(q)):
            wl = [l for l in loops(p) if l.loopkind == "while"]
            ok = len(wl) == 1 and any(any(e.name == "_generate_next" for e in calls(bp)) for bp in wl[0].paths)
            ctx.check(ok, g, g.node, f"{q} generates until the requested time is covered", "while requested >= _generated_until: _generate_next()", f"{len(wl)} loop(s)")
            if ok:
                _lookup_guard(ctx, g, wl[0], plural)


def _requested(t: Term, plural: bool) -> bool:
    from ..terms import normalise

    t = normalise(strip_ver(t))
    if not plural:
        return t == ("sym", "time")
    if not (_is_call(t, "max") and len(t[2]) == 1):
        return False
    a = t[2][0]
    if a[0] == "comp" and len(a[3]) == 1 and not a[3][0][2] and len(a[3][0][0]) == 1 and a[2] == ("bound", a[3][0][0][0]):
        a = a[3][0][1]
    while a[0] == "call" and a[1] in (("name", "list"), ("name", "tuple"), ("name", "sorted")) and len(a[2]) == 1 and not a[3]:
        a = a[2][0]  # max(list(times)) is max(times)
    return a == ("sym", "times")


def _lookup_guard(ctx: Ctx, g, l: Event, plural: bool) -> None:
    """the read is reached only once requested < regeneration point (values beyond it are provisional)"""
    from ..kit import nf_cmp
    from ..terms import Unrecognised, cmp_nf

    body = [bp for bp in l.paths if any(e.name == "_generate_next" for e in calls(bp))]
    for bp in body:
        if len(bp.conds) != 1:
            ctx.unrec(g, l.node, "regeneration loop has a single test", "while <requested> >= _generated_until", bp.describe()[:160])
            continue
        c, pol, _ = bp.conds[0]
        c = strip_ver(c)
        if not pol:
            c = ("not", c)
        from ..terms import canon_pred

        cc, cpol = canon_pred(c)
        sides = [cc[2], cc[3]] if cc[0] == "cmp" else []
        req = [x for x in sides if _requested(x, plural)]
        if len(req) != 1:
            ctx.unrec(g, l.node, "regeneration loop compares the requested time with the regeneration point", "requested >= _generated_until", short(c)[:160])
            continue
        other = sides[1] if sides[0] is req[0] else sides[0]
        try:
            got = nf_cmp(c, integer=True)
        except Unrecognised:
            ctx.unrec(g, l.node, "regeneration loop test", "requested >= _generated_until", short(c)[:160])
            continue
        if other == G:
            # continue while G <= requested; stopping earlier (G - 1 <= requested) regenerates more and is harmless
            ok = got in (cmp_nf("<=", G, req[0], integer=True), cmp_nf("<=", ("bin", "-", G, ("const", 1)), req[0], integer=True))
            ctx.check(ok, g, l.node, "values are read only below the regeneration point", "keep generating while requested >= _generated_until", short(c)[:160])
        elif _is_call(other, "len") and "prices" in key(other):
            # alternative design: the series itself is cut back at every change; then every mover of the
            # regeneration point has to discard the provisional tail as well
            ok_all = True
            for w in ctx.cg.writers_of("Fundamentals", "_generated_until"):
                wf = w.func
                if wf.qualname in (GN, "Fundamentals.__init__") or wf.name == "__init__":
                    continue
                for wp in normal_paths(ctx.paths(wf.qualname)):
                    if not [e for e in wp.walk_events(True) if e.kind == "store" and e.attr == "_generated_until"]:
                        continue
                    cut = [e for e in wp.walk_events(True) if (e.kind == "del" and e.index is not None and strip_ver(e.index)[0] == "slice") or
                           (e.kind == "store" and e.attr is None and "prices" in key(strip_ver(e.base)) and any(x[0] == "slice" for x in subterms(strip_ver(e.value))))]
                    if not cut:
                        ok_all = False
                        ctx.violated(wf, w.node, "lookups decide by the length of the series, so whoever moves the regeneration point must cut the provisional tail", "del prices[t + 1:] alongside _generated_until = t", f"{wf.qualname} moves the point and keeps the old tail: stale values are served after the change")
            if ok_all:
                ctx.holds(g, l.node, "lookups decide by series length and every mover of the regeneration point cuts the tail", "tail cut at every change", short(c)[:120])
        else:
            ctx.unrec(g, l.node, "regeneration loop compares the requested time with the regeneration point", "requested >= _generated_until", short(c)[:160])


@rule("C12.R2", "every parameter change moves the regeneration point to the time of the change on every path", "T4 all normal paths", floor=5)
def r2(ctx: Ctx) -> None:
    for q in ("Fundamentals.change_volatility", "Fundamentals.change_drift", "Fundamentals.set_correlation", "Fundamentals.remove_correlation"):
        f = ctx.func(q)
        n = 0
        for p in normal_paths(ctx.paths(q)):
            n += 1
            st = stores(p, "_generated_until")
            ok = len(st) == 1 and key(st[0].value) == "time" and key(strip_ver(st[0].base)) == "self"
            if not st and any(pol and key(strip_ver(c)) in ("(self._generated_until == time)", "(time == self._generated_until)") for c, pol, _ in p.conds):
                ctx.holds(f, f.node, f"{q}: regeneration point := time of the change", "the point already is the time of the change on this path (the store would change nothing)")
                continue
            ctx.check(ok, f, f.node, f"{q}: regeneration point := time of the change", "self._generated_until = time on every normal path", p.describe()[:120] + f" -> {len(st)} store(s)")
        ctx.require(n >= 1, f"{q}: no normal path")
    f = ctx.func("Fundamentals.add_market")
    for p in normal_paths(ctx.paths(f.qualname)):
        st = stores(p, "_generated_until")
        ok = len(st) == 1 and strip_ver(st[0].value) in (("call", ("name", "min"), (("sym", "start_at"), G), (), None), ("call", ("name", "min"), (G, ("sym", "start_at")), (), None))
        ctx.check(ok, f, f.node, "adding a market pulls the regeneration point back to its start", "min(start_at, _generated_until)", "; ".join(short(e.value) for e in st))
        pr = [e for e in stores(p, "prices") if e.attr is None]
        ok = len(pr) == 1 and strip_ver(pr[0].value)[0] == "comp" and key(strip_ver(pr[0].value)[2]) == "initial"
        if not pr and "prices" in ctx.program.cls("Fundamentals").methods and ctx.program.cls("Fundamentals").methods["prices"].is_property:
            ctx.unrec(f, f.node, "a new market's series starts at the configured initial value", "`prices` is a computed view now and the paths are stored elsewhere")
            continue
        ctx.check(ok, f, f.node, "a new market's series starts at the configured initial value", "[initial for _ in range(start_at + 1)]", "; ".join(short(e.value) for e in pr))
    # writers of the regeneration point / price store
    allowed = {"Fundamentals.__init__", "Fundamentals.add_market", "Fundamentals.change_volatility", "Fundamentals.change_drift", "Fundamentals.set_correlation",
               "Fundamentals.remove_correlation", GN, "Market.change_fundamental_price", "Fundamentals.remove_market"}
    for attr in ("_generated_until", "prices"):
        for w in ctx.cg.writers_of("Fundamentals", attr):
            if w.recv and "Fundamentals" not in w.recv:
                continue
            if not w.recv and w.func.cls is not None and w.func.cls.name not in ("Fundamentals", "Market"):
                continue
            ctx.check(caller_ok(ctx, w.func, lambda g: g.qualname in allowed), w.func, w.node, f"writer of Fundamentals.{attr}", "Fundamentals.* | Market.change_fundamental_price", w.func.qualname)


@rule("C12.R3", "a shock multiplies the current fundamental by the scale, records it in the market's and the generator's series at the current time and restarts generation from now", "T7", floor=2)
def r3(ctx: Ctx) -> None:
    f = ctx.func("Market.change_fundamental_price")
    if "prices" in ctx.program.cls("Fundamentals").methods and ctx.program.cls("Fundamentals").methods["prices"].is_property:
        ctx.unrec(f, f.node, "the generated paths are kept in Fundamentals.prices", "`prices` is a computed view now and the paths are stored elsewhere: the rules follow the stored dictionary of lists only")
        return
    now = ("attr", ("sym", "self"), "time")
    for p in normal_paths(ctx.paths(f.qualname)):
        own = [e for e in p.events if e.kind == "store" and e.attr is None and key(strip_ver(e.base)) == "self._fundamental_prices"]
        gen = [e for e in p.events if e.kind == "store" and e.attr is None and key(strip_ver(e.base)) == "self.simulator.fundamentals.prices[self.market_id]"]
        gu = [e for e in p.events if e.kind == "store" and e.attr == "_generated_until"]
        others = [e for e in p.walk_events() if e.kind in ("store", "del") and e not in own + gen + gu]
        loops_ = loops(p)

        def is_scaled(v: Term) -> bool:
            v = strip_ver(v)
            if v[0] != "bin" or v[1] != "*":
                return False
            a, b = v[2], v[3]
            if key(b) != "scale":
                a, b = b, a
            if key(b) != "scale":
                return False
            # current fundamental: the series' value at the current time
            return a[0] == "call" and key(a[1]) in ("self._extract_data_by_time", "self.get_fundamental_price") and (a[2][0] == now or dict(a[3]).get("time") == now) and \
                (len(a[2]) < 2 or key(a[2][1]) == "self._fundamental_prices")

        ok = len(own) == 1 and len(gen) == 1 and len(gu) == 1 and not others and not loops_
        ok = ok and strip_ver(own[0].index) == now and strip_ver(gen[0].index) == now and strip_ver(gu[0].value) == now
        ok = ok and is_scaled(own[0].value) and strip_ver(own[0].value) == strip_ver(gen[0].value) and key(strip_ver(gu[0].base)) == "self.simulator.fundamentals"
        ctx.check(ok, f, f.node, "shock: new = current x scale at `now` in both series; regeneration point := now; nothing else touched",
                  "_fundamental_prices[t] = fundamentals.prices[id][t] = current * scale; fundamentals._generated_until = t",
                  f"own={[short(e.target) + ':=' + short(e.value) for e in own]}, generator={[short(e.target) for e in gen]}, point={[short(e.value) for e in gu]}, other effects={len(others)}, loops={len(loops_)}")
    # who may call it
    for s in ctx.cg.sites_calling("Market.change_fundamental_price"):
        ok = caller_ok(ctx, s.caller, lambda g: g.cls is not None and ctx.program.is_subclass(g.cls.name, "EventABC"))
        ctx.check(ok, s.caller, s.node, "caller of change_fundamental_price", "an event handler", s.caller.qualname)


@rule("C12.R4", "positivity structure: non-positive initial values and negative volatilities are rejected; generated prices are a positive level times an exponential", "interval rejection sets (necessary condition)", floor=1)
def r4(ctx: Ctx) -> None:
    f = ctx.func("Fundamentals.add_market")
    cases = []
    for p in ctx.paths(f.qualname):
        conds = [(strip_ver(c), pol) for c, pol, _ in p.conds]
        n_eff = len([e for e in p.walk_events() if e.kind == "store" or (e.kind == "call" and e.data.get("mutates") is not None)])
        cases.append(Case(conds, (lambda w, ex=p.exit[0], n=n_eff: ("raise", n) if ex == "raise" else ("ok",)), p.describe()))
    atoms = {"initial", "volatility", "(market_id in self.market_ids)"}
    worlds = [{"initial": i, "volatility": v, "(market_id in self.market_ids)": d} for i in (-1.0, 0.0, 1.0) for v in (-0.5, 0.0, 0.5) for d in (True, False)]

    def spec(w: Dict[str, Any]) -> Any:
        return ("raise", 0) if w["(market_id in self.market_ids)"] or w["volatility"] < 0.0 or w["initial"] <= 0.0 else ("ok",)

    table_check_cases(ctx, f, f.node, "add_market validation (duplicate id, volatility < 0, initial <= 0 rejected before any store)", cases, worlds, lambda t: key(t) in atoms, spec)
    for q in ("Fundamentals.change_volatility",):
        g = ctx.func(q)
        bad = [p for p in normal_paths(ctx.paths(q)) if not any((not pol) and key(strip_ver(c)) == "(volatility < 0.0)" for c, pol, _ in p.conds)]
        ctx.check(not bad, g, g.node, "a negative volatility cannot be configured later either", "volatility < 0.0 -> raise", f"{len(bad)} unguarded path(s)")


def _drift_source(t: Term) -> List[Term]:
    """the id sequences over which `self.drifts[x]` is collected inside t (outermost generator that binds x)"""
    out: List[Term] = []

    def walk(u: Term, gens: tuple) -> None:
        if u[0] == "comp":
            g2 = gens + tuple(u[3])
            if u[2][0] == "sub" and key(u[2][1]) == "self.drifts" and u[2][2][0] == "bound":
                for names, it, conds in g2:
                    if u[2][2][1] in names:
                        if it not in out:
                            out.append(it)
                        if conds:
                            out.append(("filtered",))
            for ch in (u[2],) + tuple(x for g in u[3] for x in (g[1],) + tuple(g[2])):
                walk(ch, g2)
            return
        for ch in u[1:] if isinstance(u, tuple) else ():
            if isinstance(ch, tuple) and ch and isinstance(ch[0], str):
                walk(ch, gens)
            elif isinstance(ch, tuple):
                for x in ch:
                    if isinstance(x, tuple) and x and isinstance(x[0], str):
                        walk(x, gens)
                    elif isinstance(x, tuple) and len(x) == 2 and isinstance(x[1], tuple):
                        walk(x[1], gens)

    walk(t, ())
    return out


def _plain_vector(t: Term) -> bool:
    """t is reshape/asarray/.T wrapped around one comprehension -- no slicing or reindexing in between"""
    while True:
        if t[0] == "call" and _is_call(t, "reshape") and t[1][0] == "attr":
            t = t[1][1]
        elif t[0] == "attr" and t[2] == "T":
            t = t[1]
        elif t[0] == "call" and _is_call(t, "asarray") and t[2]:
            t = t[2][0]
        else:
            break
    return t[0] == "comp"


@rule("C12.R6", "chunk planning: a chunk never runs past the next market start, and exactly the markets that started before the chunk's end are regenerated", "T7 selection predicates", floor=4)
def r6(ctx: Ctx) -> None:
    from ..kit import nf_cmp
    from ..terms import Unrecognised, cmp_nf, normalise

    f = ctx.func(GN)
    for p in normal_paths(ctx.paths(GN)):
        gen = [e for e in calls(p, into_loops=False) if e.name == "_generate_log_return"]
        ctx.require(len(gen) == 1, f"{GN}: exactly one call of _generate_log_return expected")
        length = normalise(strip_ver(kw(gen[0], "length", 1) or NONE))
        T = normalise(strip_ver(kw(gen[0], "generate_target_ids", 0) or NONE))
        shape = T[0] == "comp" and T[1] == "seq" and len(T[3]) == 1 and len(T[3][0][0]) == 2 and T[2] == ("bound", T[3][0][0][0]) and key(T[3][0][1]) == "self.start_at.items()" and len(T[3][0][2]) == 1
        if not shape:
            ctx.unrec(f, gen[0].node, "regenerated markets are selected from the start table", "[m for m, start in self.start_at.items() if start < _generated_until + length]", short(T)[:200])
            continue
        v = ("bound", T[3][0][0][1])
        try:
            got = nf_cmp(T[3][0][2][0], integer=True)
            want = cmp_nf("<", v, ("bin", "+", G, length), integer=True)
        except Unrecognised:
            ctx.unrec(f, gen[0].node, "selection predicate of regenerated markets", "start < _generated_until + length", short(T[3][0][2][0])[:160])
            continue
        ctx.check(got == want, f, gen[0].node, "a market is regenerated in a chunk exactly when it started before the chunk's end (until its start it keeps the configured initial value)", "start < _generated_until + length", short(T[3][0][2][0])[:160])
        # length: up to the next start strictly beyond the regeneration point
        pts = [t for t in subterms(length) if _is_call(t, "min")]
        if pts:
            P = pts[0][2][0] if pts[0][2] else NONE
            okp = P[0] == "comp" and P[1] == "seq" and len(P[3]) == 1 and len(P[3][0][0]) == 1 and P[2] == ("bound", P[3][0][0][0]) and key(P[3][0][1]) == "self.start_at.values()" and len(P[3][0][2]) == 1
            if not okp:
                ctx.unrec(f, gen[0].node, "next change point is the earliest market start beyond the regeneration point", "min(x for x in self.start_at.values() if x > _generated_until)", short(P)[:160])
                continue
            try:
                okc = nf_cmp(P[3][0][2][0], integer=True) == cmp_nf("<", G, P[2], integer=True)
            except Unrecognised:
                okc = False
            okl = poly_of(length) == poly_of(("bin", "-", pts[0], G))
            ctx.check(okc and okl, f, gen[0].node, "a chunk ends at the next market start", "length = min(start for start in start_at.values() if start > _generated_until) - _generated_until", short(length)[:200])
            # this branch is taken exactly when there is such a start
            dec = [pol for c, pol, _ in p.conds if P in list(subterms(normalise(strip_ver(c))))]
            ctx.check(bool(dec), f, gen[0].node, "the short chunk is used only when a later market start exists", "decision on the change points being non-empty", p.describe()[:120])
        else:
            from ..kit import nonempty_decision

            ok = length[0] == "attr" and length[1] == ("sym", "self")
            pend = [c for c, pol, _ in p.conds]
            if not ok:
                if _bisect_on_unsorted(ctx, f, length):
                    continue
                ctx.unrec(f, gen[0].node, "length of the chunk", "neither `min(later starts) - _generated_until` nor the configured chunk size", short(length)[:160])
                continue
            ctx.check(ok and bool(pend), f, gen[0].node, "without a later market start the configured chunk size is generated", "length = self._generate_chunk_size when no start lies ahead", short(length)[:120])


def _bisect_on_unsorted(ctx: Ctx, f: Any, t: Term) -> bool:
    """bisect_* over `self.<list>` is only meaningful on a sorted list: every writer of that list in
    the class must keep it sorted (insort, sort() afterwards, assignment of sorted(...) or of an
    empty list).  A plain append / insert / extend is reported."""
    import ast as _ast

    hit = False
    for s_ in subterms(t):
        if not (s_[0] == "call" and key(s_[1]).split(".")[-1] in ("bisect", "bisect_left", "bisect_right") and s_[2]):
            continue
        lst = strip_ver(s_[2][0])
        if not (lst[0] == "attr" and lst[1] == ("sym", "self")):
            continue
        attr = lst[2]
        for g in ctx.program.functions.values():
            if g.cls is None or f.cls is None or g.cls.name != f.cls.name:
                continue
            sorts_after = any(isinstance(x, _ast.Call) and isinstance(x.func, _ast.Attribute) and x.func.attr == "sort" and isinstance(x.func.value, _ast.Attribute) and x.func.value.attr == attr for x in _ast.walk(g.node))
            for x in _ast.walk(g.node):
                if isinstance(x, _ast.Call) and isinstance(x.func, _ast.Attribute) and x.func.attr in ("append", "insert", "extend") and isinstance(x.func.value, _ast.Attribute) and x.func.value.attr == attr and isinstance(x.func.value.value, _ast.Name) and x.func.value.value.id == "self" and not sorts_after:
                    hit = True
                    ctx.violated(g, x, "the next market start is looked up in the ordered list of starts", f"every writer keeps self.{attr} sorted (insort / sort)", f"{g.qualname} uses .{x.func.attr}() on the list that {f.qualname} searches with bisect: starts registered out of order are skipped")
    return hit


@rule("C12.R5", "return transform: covariance = vol x corr x vol with a symmetric correlation matrix, lower Cholesky factor applied from the left to standard normals, drift added per market, zero-volatility markets get pure drift, rows restacked in the requested order", "T7 factor structure (necessary condition)", floor=6)
def r5(ctx: Ctx) -> None:
    f = ctx.func(GL)
    for p in normal_paths(ctx.paths(GL)):
        from ..terms import normalise

        NV = lambda t: normalise(strip_ver(t))  # noqa: E731
        ret_n = NV(p.exit[1])

        def part(op_true: bool) -> List[Term]:
            out = []
            for t in subterms(ret_n):
                if t[0] == "comp" and t[1] == "seq" and len(t[3]) == 1 and len(t[3][0][2]) == 1 and t[2] == ("bound", t[3][0][0][0]) and key(t[3][0][1]) == "generate_target_ids":
                    from ..terms import canon_pred

                    cc, pol = canon_pred(t[3][0][2][0])
                    if cc[0] == "cmp" and cc[1] == "==" and {key(cc[2]), key(cc[3])} == {f"self.volatilities[{t[3][0][0][0]}]", "0.0"} and pol == op_true and t not in out:
                        out.append(t)
            return out

        chol_ids, other_ids = part(False), part(True)
        ok = len(chol_ids) == 1 and len(other_ids) == 1
        if not chol_ids and not other_ids:
            ctx.unrec(f, f.node, "markets are split into volatile (Cholesky) and zero-volatility ones by `volatility != 0`", "the returned rows are not built from the two id lists in a form that is modelled", short(ret_n)[:160])
            continue
        ctx.check(ok, f, f.node, "markets are split into volatile (Cholesky) and zero-volatility ones by `volatility != 0`", "[x for x in ids if vol[x] != 0.0] / [x for x in ids if vol[x] == 0.0]", f"{len(chol_ids)}/{len(other_ids)} partitions found")
        if not ok:
            continue
        cid = chol_ids[0]
        # symmetric fill
        lps = [l for l in loops(p) if key(NV(l.iter)) == "self.correlation.items()"]
        ctx.check(len(lps) == 1, f, f.node, "one pass over the configured correlations", "for (id1, id2), corr in self.correlation.items()", str(len(lps)))
        for l in lps:
            i1, i2, cr = (("sym", f"{n}∈{l.loopid}") for n in l.target)
            for bp in l.paths:
                if bp.exit[0] != "fall":
                    continue
                sts = [e for e in bp.events if e.kind == "store" and e.attr is None]
                if not sts and any((not pol) and NV(c)[0] == "cmp" and NV(c)[1] == "in" and NV(c)[2] in (i1, i2) and NV(c)[3] == cid for c, pol, _ in bp.conds):
                    continue  # a pair with a market outside the volatile ones is skipped (by falling through instead of `continue`)
                cells = set()
                for e in sts:
                    ix = NV(e.index)
                    if ix[0] == "tuple" and len(ix[1]) == 2 and e.value == cr:
                        names = []
                        for c in ix[1]:
                            if _is_call(c, "index") and c[1][1] == cid and c[2]:
                                names.append("1" if c[2][0] == i1 else ("2" if c[2][0] == i2 else "?"))
                            else:
                                names.append("?")
                        cells.add(tuple(names))
                ctx.check(cells == {("1", "2"), ("2", "1")} and len(sts) == 2, f, l.node, "each configured correlation is written to both mirrored cells", "corr[i1, i2] = corr[i2, i1] = corr", str(sorted(cells)), guard="text", guard_text=__import__("ast").unparse(f.node))
        # covariance and Cholesky
        ch = [e for e in calls(p, into_loops=False) if e.name == "cholesky"]
        if not ch:
            ctx.unrec(f, f.node, "lower-triangular Cholesky factor of the covariance", "no factorisation on this path (the factor is taken from somewhere else, e.g. a memo): not modelled", p.describe()[:160])
            continue
        ctx.check(len(ch) == 1 and dict(ch[0].kwargs).get("lower") == ("const", True), f, f.node, "lower-triangular Cholesky factor", "cholesky(cov, lower=True)", f"{len(ch)} call(s), lower={short(dict(ch[0].kwargs).get('lower')) if ch else '-'}")
        if len(ch) == 1:
            cov = NV(ch[0].args[0])
            facs: List[Term] = []

            def flat(t: Term) -> None:
                if t[0] == "bin" and t[1] == "*":
                    flat(t[2]); flat(t[3])
                else:
                    facs.append(t)

            flat(cov)
            vol_vec = [t for t in facs if _is_call(t, "asarray") and "self.volatilities" in key(t)]
            vol_col = [t for t in facs if _is_call(t, "reshape") and "self.volatilities" in key(t) and t[2] == (("const", -1), ("const", 1))]
            eye = [t for t in facs if _is_call(t, "eye")]
            ctx.check(len(facs) == 3 and len(vol_vec) == 1 and len(vol_col) == 1 and len(eye) == 1, f, ch[0].node, "covariance = vol (row) * corr * vol (column)", "vol * corr_matrix * vol.reshape(-1, 1)", " * ".join(short(t)[:50] for t in facs))
            ret = ret_n
            dots = _find(ret, lambda s: _is_call(s, "dot"))
            ok = bool(dots) and all(d[2][0] == NV(ch[0].term) and _is_call(d[2][1], "standard_normal") for d in dots)
            ctx.check(ok, f, f.node, "the factor multiplies standard normals from the left (L @ Z)", "np.dot(cholesky_matrix, <generator>.standard_normal(...))", short(dots[0])[:120] if dots else "no product")
            if dots:
                sz = dict(dots[0][2][1][3]).get("size")
                ok = sz is not None and sz[0] == "tuple" and key(sz[1][1]) == "length" and _is_call(sz[1][0], "len") and sz[1][0][2][0] == cid
                ctx.check(ok, f, f.node, "one row of normals per volatile market, one column per generated step", "size=(len(volatile ids), length)", short(sz))
                adds = _find(ret, lambda s: s[0] == "bin" and s[1] == "+" and dots[0] in (s[2], s[3]))
                ok = bool(adds)
                if ok:
                    other = adds[0][3] if adds[0][2] == dots[0] else adds[0][2]
                    ok = _is_call(other, "reshape") and other[2] == (("const", -1), ("const", 1)) and _drift_source(other) == [cid]
                    if ok and not _plain_vector(other):
                        ctx.unrec(f, f.node, "drift column is the plain vector of the volatile markets' drifts", "np.asarray([self.drifts[x] for x in volatile]).reshape(-1, 1)", short(other)[:200])
                        ok = None
                if ok is not None:
                    ctx.check(ok, f, f.node, "each volatile market's drift is added to its own row", "+ np.asarray([self.drifts[x] for x in volatile ids]).reshape(-1, 1)", short(other if adds else NONE)[:200] if adds else "no drift term")
        # restacking
        ret = ret_n
        ok = _is_call(ret, "stack") and ret[2] and ret[2][0][0] == "comp"
        if ok:
            comp = ret[2][0]
            gens = comp[3]
            b = ("bound", gens[0][0][0])
            elt = comp[2]
            ok = len(gens) == 1 and key(gens[0][1]) == "generate_target_ids" and not gens[0][2] and elt[0] == "ifexp" and elt[1] == ("cmp", "in", b, cid)
            if ok:
                yes, no = elt[2], elt[3]
                ok = yes[0] == "sub" and _is_call(yes[2], "index") and yes[2][1][1] == cid and yes[2][2][0] == b and no[0] == "sub" and _is_call(no[2], "index") and no[2][1][1] == other_ids[0] and no[2][2][0] == b
                ok = ok and _drift_source(no[1]) == [other_ids[0]] and "standard_normal" not in key(no[1])
        ctx.check(ok, f, f.node, "rows are returned in the requested market order; zero-volatility markets get their drift and no noise", "np.stack([chol_row[idx(x)] if x in volatile else drift_row[idx(x)] for x in ids])", short(ret)[:80], guard="text", guard_text=__import__("ast").unparse(f.node))


@rule("C12.H1", "mechanism shared with C18: each market is registered with its own configured drift, volatility and initial value (defaults are per market type)", "T12 loop-carried dataflow (same rule as C18.R8)", floor=3)
def h1(ctx: Ctx) -> None:
    from .c18 import check_no_carry_over

    n = check_no_carry_over(ctx)
    ctx.require(n >= 3, "expansion loops not found")


@rule("C12.R7", "everything a generator changes in place (series, parameters, memos) belongs to that generator object", "per-instance state", floor=3)
def r7(ctx: Ctx) -> None:
    from .events import check_instance_state

    n = check_instance_state(ctx, "Fundamentals")
    ctx.require(n >= 3, "Fundamentals: containers changed in place not found (prices, drifts, correlation, ... expected)")


@rule("C12.R8", "every configured correlation reaches the generator and stays there: the runner passes each pairwise entry on, in whatever order its two markets are named, and only set_correlation / remove_correlation change the table", "T4 + T1", floor=2)
def r8(ctx: Ctx) -> None:
    q = "SequentialRunner._set_fundamental_correlation"
    f = ctx.func(q)
    n = 0
    for p in normal_paths(ctx.paths(q)):
        for l in [x for x in p.walk_events(True) if x.kind == "loop"]:
            for bp in l.paths:
                sets = [e for e in calls(bp, into_loops=False) if e.name == "set_correlation"]
                if sets:
                    n += 1
                    ctx.check(len(sets) == 1, f, sets[0].node, "one set_correlation per configured pair", "exactly one call", f"{len(sets)} calls")
                    c = kw(sets[0], "corr", 2)
                    okc = c is not None and "corr" in key(strip_ver(c))
                    ctx.check(okc, f, sets[0].node, "the configured coefficient is passed on", "corr=float(corr)", short(c))
                # an iteration that ends without the call although nothing was wrong with the entry
                skipped = bp.exit[0] in ("continue", "fall") and not sets and not [il for il in bp.events if il.kind == "loop"] and any(
                    e.name == "set_correlation" for o in l.paths for e in calls(o, into_loops=False))
                if skipped:
                    ordering = [strip_ver(c) for c, pol, _ in bp.conds if strip_ver(c)[0] == "cmp" and strip_ver(c)[1] in ("<", "<=") and "market_id" in key(strip_ver(c))]
                    if ordering:
                        ctx.violated(f, l.node, "a configured pair is registered whichever of its two markets is named first", "no skip that depends on the order of the two ids (set_correlation is symmetric)", "skipped under " + short(ordering[0]))
                    else:
                        ctx.unrec(f, l.node, "every configured pair is passed on", "an iteration ends without set_correlation", bp.describe()[:140])
    ctx.require(n >= 1, f"{q}: no path that registers a correlation")
    # the table itself
    allowed = {"Fundamentals.__init__", "Fundamentals.set_correlation", "Fundamentals.remove_correlation"}
    for w in ctx.cg.writers_of("Fundamentals", "correlation"):
        if w.func.qualname in allowed:
            ctx.holds(w.func, w.node, "writer of the correlation table", "set_correlation | remove_correlation", w.func.qualname)
            continue
        # somebody else rebuilds / edits the table: only entries of a market that is being removed may go
        g = w.func
        verdict = None
        for hp in normal_paths(ctx.paths(g.qualname)):
            for e in [x for x in hp.walk_events(True) if x.kind == "store" and x.attr == "correlation"]:
                from ..terms import normalise

                v = normalise(strip_ver(e.value))
                if v[0] == "comp" and len(v[3]) == 1 and key(v[3][0][1]) == "self.correlation.items()":
                    conds = v[3][0][2]
                    mentions_state = any(s_[0] == "attr" and s_[1] == ("sym", "self") for c in conds for s_ in subterms(c))
                    verdict = False if mentions_state else (verdict if verdict is not None else True)
        if verdict is True:
            ctx.holds(g, w.node, "entries are dropped from the correlation table only for the market being removed", "filter on the removed id only", g.qualname)
        elif verdict is False:
            ctx.violated(g, w.node, "entries are dropped from the correlation table only for the market being removed", "filter on the removed id only", f"{g.qualname} filters the table by the object's current state: correlations configured for markets that are not registered (yet) are lost")
        else:
            ctx.unrec(g, w.node, "writer of the correlation table", "an unexpected writer whose effect on the configured correlations is not modelled", g.qualname)


class _PairWorld(World):
    """finite model for code that handles (id, id) keys: subscripts of tuples, set()/frozenset()/sorted()/tuple()/len() of them"""

    def eval(self, t: Term) -> Any:  # noqa: A003
        if t[0] == "bound" and ("bound:" + t[1]) in self.values:
            return self.values["bound:" + t[1]]
        if t[0] == "sub":
            a, i = self.eval(t[1]), self.eval(t[2])
            if isinstance(a, (tuple, list, dict)):
                return a[i]
            raise Unrecognised(f"subscript of a non-sequence model value in {key(t)}")
        if t[0] == "call" and t[1][0] == "name" and t[1][1] in ("set", "frozenset", "sorted", "tuple", "list", "len", "min", "max") and len(t[2]) == 1 and not t[3]:
            a = self.eval(t[2][0])
            return {"set": set, "frozenset": frozenset, "sorted": sorted, "tuple": tuple, "list": list, "len": len, "min": min, "max": max}[t[1][1]](a)
        if t[0] == "set":
            return {self.eval(x) for x in t[1]}
        if t[0] == "cmp" and t[1] in ("in", "not in"):
            a, b = self.eval(t[2]), self.eval(t[3])
            return (a in b) if t[1] == "in" else (a not in b)
        return super().eval(t)


def _run_table_path(p: Path, w: Dict[str, Any]) -> Optional[Dict[Any, Any]]:
    """the correlation table after the path ran in world w; None if the path is not taken there"""
    table = dict(w["self.correlation"])
    world = _PairWorld(dict(w, **{"self.correlation": table}))
    for c, pol, _ in p.conds:
        if bool(world.eval(strip_ver(c))) != pol:
            return None
    for e in p.walk_events(True):
        if e.kind == "loop":
            raise Unrecognised("a loop in a correlation-table method is not modelled")
        if e.kind == "store" and e.attr is None and key(strip_ver(e.base)) == "self.correlation":
            table[world.eval(strip_ver(e.index))] = world.eval(strip_ver(e.value))
        elif e.kind == "del" and e.attr is None and key(strip_ver(e.base)) == "self.correlation":
            del table[world.eval(strip_ver(e.index))]
        elif e.kind == "call" and e.data.get("mutates") is not None and key(strip_ver(e.data["mutates"])) == "self.correlation":
            args = [world.eval(strip_ver(a)) for a in e.term[2]]
            if e.name == "pop" and len(args) >= 1:
                if args[0] in table:
                    del table[args[0]]
                elif len(args) < 2:
                    raise KeyError(args[0])
            elif e.name == "update" and len(args) == 1 and isinstance(args[0], dict):
                table.update(args[0])
            elif e.name == "clear":
                table.clear()
            else:
                raise Unrecognised(f"table changed through .{e.name}()")
        elif e.kind == "store" and e.attr == "correlation" and key(strip_ver(e.base)) == "self":
            from ..terms import normalise

            v = normalise(strip_ver(e.value))
            if not (v[0] == "comp" and v[1] == "dictcomp" and len(v[3]) == 1 and key(v[3][0][1]) == "self.correlation.items()" and len(v[3][0][0]) == 2):
                raise Unrecognised("table rebuilt in a form that is not modelled: " + short(v)[:120])
            kn, vn = v[3][0][0]
            new: Dict[Any, Any] = {}
            for k_, v_ in list(table.items()):
                wi = _PairWorld(dict(world.values, **{"bound:" + kn: k_, "bound:" + vn: v_}))
                if all(bool(wi.eval(c)) for c in v[3][0][2]):
                    kv = wi.eval(v[2])
                    new[kv[0]] = kv[1]
            table.clear()
            table.update(new)
        world.values["self.correlation"] = table
    return table


@rule("C12.R9", "set_correlation and remove_correlation change exactly the entry of the named pair, whichever way round it is stored; every other configured correlation stays", "T6 finite model (ids 1..4, both orientations)", floor=5)
def r9(ctx: Ctx) -> None:
    others = {(1, 3): 0.1, (3, 2): 0.2, (3, 4): 0.3, (4, 2): 0.4}
    for q, removing in (("Fundamentals.set_correlation", False), ("Fundamentals.remove_correlation", True)):
        f = ctx.func(q)
        ps = normal_paths(ctx.paths(q))
        for stored in ((1, 2), (2, 1), None):
            if removing and stored is None:
                continue
            table = dict(others)
            if stored is not None:
                table[stored] = 0.7
            w = {"market_id1": 1, "market_id2": 2, "corr": 0.5, "time": 0, "self.correlation": table}
            what = f"{q.split('.')[-1]}(1, 2) on a table holding {stored if stored else 'no entry for the pair'} and four other pairs"
            try:
                res = [r for r in (_run_table_path(p, w) for p in ps) if r is not None]
            except Unrecognised as ex:
                ctx.unrec(f, f.node, what, str(ex)[:200])
                continue
            except KeyError as ex:
                ctx.violated(f, f.node, what, "the stored entry is found in either orientation", f"KeyError {ex}")
                continue
            if len(res) != 1:
                ctx.unrec(f, f.node, what, f"{len(res)} normal paths are taken in this world")
                continue
            got = res[0]
            pair = {k: v for k, v in got.items() if set(k) == {1, 2}}
            rest = {k: v for k, v in got.items() if set(k) != {1, 2}}
            if removing:
                ok = not pair and rest == others
                exp = "pair gone, the four other pairs untouched"
            else:
                ok = len(pair) == 1 and list(pair.values()) == [0.5] and rest == others and (stored is None or stored in pair)
                exp = "one entry for the pair holding the new coefficient, the four other pairs untouched"
            ctx.check(ok, f, f.node, what, exp, f"pair entries {pair}, other entries {sorted(rest)}")


@rule("C12.R10", "a market's fundamental path starts at its configured fundamentalPrice; marketPrice stands in only when no fundamentalPrice is given", "T6 finite model over which of the two keys are present", floor=2)
def r10(ctx: Ctx) -> None:
    q = "SequentialRunner._generate_markets"
    f = ctx.func(q)

    class _W(_PairWorld):
        def eval(self, t: Term) -> Any:  # noqa: A003
            if t[0] == "call" and t[1][0] == "attr" and t[1][2] == "get" and len(t[2]) in (1, 2) and not t[3]:
                d = self.eval(t[1][1])
                k = self.eval(t[2][0])
                if isinstance(d, dict):
                    return d[k] if k in d else (self.eval(t[2][1]) if len(t[2]) == 2 else None)
            if t[0] == "call" and t[1][0] == "name" and t[1][1] in ("float", "int") and len(t[2]) == 1:
                v = self.eval(t[2][0])
                if v is None:
                    raise TypeError("float(None)")
                return float(v) if t[1][1] == "float" else int(v)
            return super().eval(t)

    def settings_terms(t: Term) -> List[Term]:
        return [x for x in subterms(t) if x[0] == "sym" and "setting" in x[1]] + [x for x in subterms(t) if x[0] == "call" and key(x[1]).endswith("json_extends")]

    seen = 0
    verdicts = set()
    for top in normal_paths(ctx.paths(q)):
        stack = [(top, list(top.conds))]
        while stack:
            path, conds = stack.pop()
            for e in path.events:
                if e.kind == "loop":
                    for bp in e.paths:
                        if bp.exit[0] != "raise":
                            stack.append((bp, conds + list(bp.conds)))
                if e.kind == "call" and e.name == "add_market" and kw(e, "initial") is not None:
                    init = strip_ver(kw(e, "initial"))
                    roots = {key(x) for x in settings_terms(init)}
                    if len(roots) != 1:
                        ctx.unrec(f, e.node, "initial value of the fundamental path", "the value is not read from one settings dictionary", short(init)[:120])
                        continue
                    root = next(iter(roots))
                    for present in (("fundamentalPrice",), ("marketPrice",), ("fundamentalPrice", "marketPrice")):
                        vals = {"fundamentalPrice": 1.0, "marketPrice": 2.0}
                        w = _W({root: {k: vals[k] for k in present}})
                        try:
                            feasible = True
                            for c, pol, _ in conds:
                                cs = strip_ver(c)
                                if not any(isinstance(x, tuple) and x and x[0] == "const" and x[1] in vals for x in subterms(cs)):
                                    continue
                                if bool(w.eval(cs)) != pol:
                                    feasible = False
                                    break
                            if not feasible:
                                continue
                            got = w.eval(init)
                        except (Unrecognised, TypeError, KeyError) as ex:
                            ctx.unrec(f, e.node, "initial value of the fundamental path", f"not evaluable in the model ({type(ex).__name__}: {str(ex)[:80]})", short(init)[:120])
                            continue
                        seen += 1
                        want = vals["fundamentalPrice"] if "fundamentalPrice" in present else vals["marketPrice"]
                        k_ = (present, got == want)
                        if k_ in verdicts:
                            continue
                        verdicts.add(k_)
                        ctx.check(got == want, f, e.node, f"initial value of the fundamental path when the market type gives {' and '.join(present)}", "fundamentalPrice if given, else marketPrice", f"{'marketPrice' if got == 2.0 else ('fundamentalPrice' if got == 1.0 else got)} is used ({short(init)[:100]})")
    ctx.require(seen >= 3, f"{q}: registration of the fundamental path not found for the three cases")
