"""Shared extraction of the structure of the matching walk (Market._execution).

Used by C01 (pairing, limits, price), C02 (consumption in pop order) and C03 (exits).
Everything is recovered from the path summaries -- variable names are discovered from the
data flow (which loop-carried variable holds the popped buy order, which one is passed as
`price=` to the fill routine, ...), not assumed.
"""
from __future__ import annotations

from dataclasses import dataclass, field
from typing import Dict, List, Optional, Tuple

from ..kit import Ctx, calls, calls_target, kw, loops
from ..loader import AnalysisError
from ..paths import Event, Path
from ..terms import Term, key, strip_ver, subterms

EXEC = "Market._execution"


def queue_side(t: Term) -> Optional[str]:
    """'B' / 'S' if the term denotes the buy / sell book's priority queue."""
    k = key(strip_ver(t))
    if k.endswith("buy_order_book.priority_queue"):
        return "B"
    if k.endswith("sell_order_book.priority_queue"):
        return "S"
    return None


def pop_side(e: Event) -> Optional[str]:
    if e.kind == "call" and e.name == "heappop" and e.fname.startswith("heapq") and e.args:
        return queue_side(e.args[0])
    return None


@dataclass
class BodyPath:
    path: Path
    pops: Dict[str, Event]  # side -> pop event on this path
    appended: Optional[Term]  # tuple appended to the pending list on this path
    exit: str


@dataclass
class Walk:
    top_paths: List[Path]
    main: Path  # the normal path through the walk
    loop: Event
    body: List[BodyPath]
    var: Dict[str, str]  # roles -> local variable names: B, S, btmp, stmp, price, pending
    pre_pops: Dict[str, Event]
    fill_call: Event
    pending_sym: Term
    popped_lists: Dict[str, Term] = field(default_factory=dict)
    early_exits: List[Path] = field(default_factory=list)  # returning paths through the walk that hand no pairs over

    def cur(self, bp: BodyPath, side: str) -> Term:
        """The order of `side` that is current when the pair is examined on this path."""
        if side in bp.pops:
            return bp.pops[side].term
        return self.loop.phi[self.var[side]]

    def cur_tmp(self, bp: BodyPath, side: str) -> Term:
        if side in bp.pops:
            return ("attr", bp.pops[side].term, "volume")
        return self.loop.phi[self.var["btmp" if side == "B" else "stmp"]]


def analyse_walk(ctx: Ctx) -> Walk:
    cached = getattr(ctx, "_walk", None)
    if cached is not None:
        return cached
    f = ctx.func(EXEC)
    top = ctx.paths(EXEC)
    mains = [p for p in top if p.exit[0] == "return" and any(l.loopkind == "while" for l in loops(p))]
    ctx.require(len(mains) >= 1, f"{EXEC}: no returning path through a loop")
    def _fills_after(p_: Path) -> bool:
        wl = [l for l in loops(p_) if l.loopkind == "while"]
        if len(wl) != 1:
            return False
        aft = p_.events[p_.events.index(wl[0]) + 1:]
        if any(e.kind == "call" and calls_target(e, "Market._execute_orders") for e in aft):
            return True
        return any(calls_target(e, "Market._execute_orders") for fl in aft if fl.kind == "loop" and fl.loopkind == "for" for bp in fl.paths for e in calls(bp, into_loops=False))

    # the normal way through a round hands the pairs over after the walk; a round may also return after the walk
    # without doing so (suppressed, nothing matched): those ways out are judged by the restore rule (C03.R3)
    with_fills = [p for p in mains if _fills_after(p)]
    main = (with_fills or mains)[0]
    early = [p for p in mains if not _fills_after(p)] if with_fills else []
    lps = [l for l in loops(main) if l.loopkind == "while"]
    ctx.require(len(lps) == 1, f"{EXEC}: expected exactly one while-loop (the matching walk)")
    loop = lps[0]
    # the fill call after the walk: in a comprehension / map over the pending list, or in a for-loop over it
    after = main.events[main.events.index(loop) + 1:]
    fills = [e for e in after if e.kind == "call" and calls_target(e, "Market._execute_orders")]
    for fl in [e for e in after if e.kind == "loop" and e.loopkind == "for"]:
        for bp in fl.paths:
            fills.extend(e for e in calls(bp, into_loops=False) if calls_target(e, "Market._execute_orders") and e.node not in [x.node for x in fills])
    ctx.require(len(fills) == 1, f"{EXEC}: expected exactly one call site of _execute_orders after the walk, found {len(fills)}")
    fill = fills[0]
    var: Dict[str, str] = {}
    # price role: the loop-carried variable whose out-symbol is passed as price=
    pterm = kw(fill, "price", 0)
    for n, out in loop.out.items():
        if pterm is not None and any(s == out for s in subterms(pterm)):
            var["price"] = n
    ctx.require("price" in var, f"{EXEC}: the price passed to _execute_orders is not a variable set by the walk")
    # pops before the loop
    pre: Dict[str, Event] = {}
    for e in main.events:
        if e is loop:
            break
        s = pop_side(e)
        if s:
            pre[s] = e
    # body paths
    body: List[BodyPath] = []
    pending_sym: Optional[Term] = None
    for p in loop.paths:
        pops: Dict[str, Event] = {}
        appended: Optional[Term] = None
        for e in p.events:
            s = pop_side(e)
            if s:
                if s in pops:
                    raise AnalysisError(f"{EXEC}: two pops of side {s} on one iteration path")
                pops[s] = e
            if e.kind == "call" and e.name == "append" and e.recv is not None and e.args and e.args[0][0] == "tuple" and len(e.args[0][1]) == 3:
                if appended is not None:
                    raise AnalysisError(f"{EXEC}: two pending appends on one iteration path")
                appended = e.args[0]
                pending_sym = e.recv
        body.append(BodyPath(p, pops, appended, p.exit[0]))
    ctx.require(pending_sym is not None, f"{EXEC}: no (volume, buy, sell) tuple is appended inside the walk")
    # roles of the carried variables, from a path that pops both sides and allocates
    both = [b for b in body if set(b.pops) == {"B", "S"} and b.appended is not None]
    ctx.require(bool(both), f"{EXEC}: no iteration path pops both sides and allocates")
    ref = both[0]
    for n in loop.phi:
        v = ref.path.env.get(n)
        if v is None:
            continue
        if v == ref.pops["B"].term:
            var["B"] = n
        elif v == ref.pops["S"].term:
            var["S"] = n
    ctx.require("B" in var and "S" in var, f"{EXEC}: cannot identify the variables holding the current buy/sell order")
    for n in loop.phi:
        v = ref.path.env.get(n)
        if v is None or v[0] != "bin" or v[1] != "-":
            continue
        l = v[2]
        if l == ("attr", ref.pops["B"].term, "volume"):
            var["btmp"] = n
        elif l == ("attr", ref.pops["S"].term, "volume"):
            var["stmp"] = n
    ctx.require("btmp" in var and "stmp" in var, f"{EXEC}: cannot identify the remaining-volume counters of the walk")
    w = Walk(top, main, loop, body, var, pre, fill, pending_sym)  # type: ignore[arg-type]
    w.early_exits = early
    ctx._walk = w  # type: ignore[attr-defined]
    return w
