"""Shape-tolerant analysis of OrderBook._check_expired_orders (shared by C04.R6, C10.R2/R3 and
the premises built on them).

The reaper may be written in many ways (one flattened list, nested loops over keys and buckets,
comprehensions, pops used as iterables, a private helper per order).  What has to hold is said
in terms of *where a value comes from*, not of the statement shape:

  KEY     a key of self.expire_time_list for which `key < self.time` was decided
          (element of a comprehension / sorted / list over the dict or its items with that filter,
           or the loop variable of a loop over the dict under that decision)
  BUCKET  self.expire_time_list[KEY], self.expire_time_list.pop(KEY), the value paired with a KEY
          by .items(), or a copy (list(...), tuple(...)) of one
  ORDER   an element of a BUCKET, or of the concatenation of the BUCKETs of all KEYs

and the obligations are: every `priority_queue.remove(x)` has x: ORDER; every ExpirationLog is
built from an ORDER with time = self.time; every pop / del on expire_time_list names a KEY; each
of the three happens on every path of its loop body (no condition, no early exit); nothing is
removed from a bucket while that bucket is being iterated.  Anything whose origin cannot be traced
is UNRECOGNISED, never VIOLATED.
"""
from __future__ import annotations

from typing import Dict, List, Optional, Tuple

from ..kit import Ctx, calls, nf_cmp, seq_value, short
from ..paths import Event, Path
from ..terms import NONE, Term, Unrecognised, cmp_nf, key, normalise, strip_ver, subterms

Q = "OrderBook._check_expired_orders"
ETL = ("attr", ("sym", "self"), "expire_time_list")
NOW = ("attr", ("sym", "self"), "time")
QUEUE = ("attr", ("sym", "self"), "priority_queue")
TRANSPARENT = ("sorted", "list", "tuple", "reversed", "iter")


def _expired_filter(conds: Tuple[Term, ...], k: Term) -> Optional[bool]:
    """True if conds decide exactly `k < self.time`; False if they decide something else about k; None if no filter"""
    rel = [c for c in conds if k in list(subterms(c)) and NOW in list(subterms(c))]
    if not rel:
        return None
    want = cmp_nf("<", k, NOW, integer=True)
    res = None
    for c in rel:
        try:
            nf = nf_cmp(c, integer=True)
        except Unrecognised:
            return False
        if nf == want:
            res = True
        else:
            return False  # the key is compared with the clock in some other way
    return res


class Origins:
    def __init__(self, top: Path):
        self.top = top
        self.kind: Dict[Term, Tuple[str, Optional[Term]]] = {}
        self.problems: List[Tuple[str, object, str]] = []  # (severity, node, text)
        self.loop_of: Dict[int, Event] = {}

    # ---------------------------------------------------------------- iterables
    def _strip(self, t: Term) -> Term:
        t = strip_ver(t)
        while t[0] == "call" and key(t[1]) in TRANSPARENT and len(t[2]) == 1:
            t = t[2][0]
        return t

    def keys_comp(self, t: Term, path: Path) -> Optional[str]:
        """'keys' if t denotes the expired keys, 'values' if it denotes the expired buckets, 'flat' if it
        denotes all orders of all expired buckets"""
        t0 = self._strip(t)
        if t0[0] == "sym":
            sv = seq_value(path, t0, outer=(self.top,))
            if sv is None:
                sv = seq_value(self.top, t0)
            if sv is not None:
                t0 = sv
        t0 = normalise(t0)
        t0 = self._strip(t0)
        if t0[0] != "comp":
            return None
        gens = t0[3]
        if not gens:
            return None
        g0 = gens[0]
        src = self._strip(g0[1])
        names = g0[0]
        kb = vb = None
        if src == ETL or (src[0] == "call" and src[1] == ("attr", ETL, "keys")):
            if len(names) != 1:
                return None
            kb = ("bound", names[0])
        elif src[0] == "call" and src[1] == ("attr", ETL, "items"):
            if len(names) != 2:
                return None
            kb, vb = ("bound", names[0]), ("bound", names[1])
        elif len(names) == 1 and not g0[2] and self.keys_comp(src, path) == "keys":
            # the first generator walks a list that is itself the list of expired keys
            kb = ("bound", names[0])
        else:
            return None
        if self.keys_comp(src, path) != "keys" and _expired_filter(tuple(g0[2]), kb) is not True:
            return None
        elt = t0[2]
        if len(gens) == 1:
            if elt == kb:
                return "keys"
            if vb is not None and elt == vb:
                return "values"
            if elt == ("sub", ETL, kb):
                return "values"
            return None
        if len(gens) == 2 and not gens[1][2] and len(gens[1][0]) == 1 and elt == ("bound", gens[1][0][0]):
            inner = self._strip(gens[1][1])
            if (vb is not None and inner == vb) or inner == ("sub", ETL, kb):
                return "flat"
        return None

    def bucket_of(self, t: Term) -> Optional[Term]:
        """the KEY whose bucket t denotes"""
        t0 = self._strip(t)
        if t0 in self.kind and self.kind[t0][0] == "BUCKET":
            return self.kind[t0][1]
        if t0[0] == "sub" and t0[1] == ETL and self.kind.get(t0[2], ("", None))[0] in ("KEY", "KEY?"):
            return t0[2]
        if t0[0] == "call" and t0[1] in (("attr", ETL, "pop"), ("attr", ETL, "get")) and t0[2] and self.kind.get(strip_ver(t0[2][0]), ("", None))[0] in ("KEY", "KEY?"):
            return strip_ver(t0[2][0])
        return None

    # ---------------------------------------------------------------- traversal
    def walk(self, path: Path, guards: Tuple[Tuple[Term, bool], ...] = ()) -> None:
        for e in path.events:
            if e.kind != "loop":
                continue
            self.bind_loop(e, path, guards)
            for bp in e.paths:
                g2 = guards + tuple((strip_ver(c), pol) for c, pol, _ in bp.conds)
                self.walk(bp, g2)

    def bind_loop(self, l: Event, path: Path, guards) -> None:
        if l.loopkind != "for" or l.iter is None or not l.target:
            return
        els = [("sym", f"{n}∈{l.loopid}") for n in l.target]
        for x in els:
            self.loop_of[id(x)] = l
        it = self._strip(l.iter)
        what = self.keys_comp(l.iter, path)
        if what == "keys" and len(els) == 1:
            self.kind[els[0]] = ("KEY", None)
            return
        if what == "values" and len(els) == 1:
            self.kind[els[0]] = ("BUCKET", None)
            return
        if what == "flat" and len(els) == 1:
            self.kind[els[0]] = ("ORDER", None)
            return
        # loop over the dict itself / its items with the expiry test decided inside the body
        if (it == ETL or (it[0] == "call" and it[1] in (("attr", ETL, "keys"), ("attr", ETL, "items")))):
            k = els[0]
            self.kind[k] = ("KEY?", None)  # KEY on the body paths that decided k < now
            if len(els) == 2:
                self.kind[els[1]] = ("BUCKET?", k)
            return
        bk = self.bucket_of(l.iter)
        if bk is not None and len(els) == 1:
            self.kind[els[0]] = ("ORDER", bk)
            return
        if it in self.kind and self.kind[it][0] == "BUCKET" and len(els) == 1:
            self.kind[els[0]] = ("ORDER", self.kind[it][1])

    def is_kind(self, t: Term, want: str, guards) -> Optional[bool]:
        """True / False (known to be something else) / None (unknown origin)"""
        t = strip_ver(t)
        k = self.kind.get(t)
        if k is None:
            if want == "BUCKET" and self.bucket_of(t) is not None:
                return True
            return None
        if k[0] == want:
            # an order / bucket of a key whose expiry is decided on the path only
            dep = k[1]
            if dep is not None and self.kind.get(dep, ("", None))[0] == "KEY?":
                dec = _expired_filter(tuple(c if pol else ("not", c) for c, pol in guards), dep)
                return True if dec is True else (None if dec is None else False)
            return True
        if k[0] == want + "?":
            key_t = t if want == "KEY" else k[1]
            dec = _expired_filter(tuple(c if pol else ("not", c) for c, pol in guards), key_t)
            return True if dec is True else (None if dec is None else False)
        return False


def analyse(ctx: Ctx) -> Tuple[Origins, List[Path]]:
    cached = getattr(ctx, "_reaper", None)
    if cached is not None:
        return cached
    paths = [p for p in ctx.paths(Q) if p.exit[0] != "raise"]
    out = []
    res = None
    for p in paths:
        o = Origins(p)
        o.walk(p)
        out.append((o, p))
    ctx._reaper = out  # type: ignore[attr-defined]
    return out  # type: ignore[return-value]


def sites(o: Origins, p: Path):
    """(event, guards, enclosing body path, enclosing loops) for removes, log constructions and key pops"""
    found = {"remove": [], "log": [], "pop": [], "bucket_mut": []}

    def rec(path: Path, guards, loops_: Tuple[Event, ...]) -> None:
        for e in path.events:
            if e.kind == "call":
                if e.name == "remove" and e.recv is not None and strip_ver(e.recv) == QUEUE and e.args:
                    found["remove"].append((e, guards, path, loops_, e.args[0]))
                elif any(t.qualname == "OrderBook._remove" for t in e.site.targets) and (e.args or dict(e.kwargs).get("order") is not None):
                    found["remove"].append((e, guards, path, loops_, dict(e.kwargs).get("order") or e.args[0]))
                elif e.site.how == "ctor" and e.name == "ExpirationLog":
                    found["log"].append((e, guards, path, loops_))
                elif e.name in ("pop", "__delitem__") and e.recv is not None and strip_ver(e.recv) == ETL and e.args:
                    found["pop"].append((e, guards, path, loops_))
                elif e.name in ("remove", "pop", "clear") and e.recv is not None and strip_ver(e.recv)[0] == "sub" and strip_ver(e.recv)[1] == ETL:
                    found["bucket_mut"].append((e, guards, path, loops_))
            elif e.kind == "del" and e.base is not None and strip_ver(e.base) == ETL:
                found["pop"].append((e, guards, path, loops_))
            elif e.kind == "loop":
                for bp in e.paths:
                    rec(bp, guards + tuple((strip_ver(c), pol) for c, pol, _ in bp.conds), loops_ + (e,))

    rec(p, (), ())
    # calls inside comprehensions (e.g. logs.extend(ExpirationLog(...) for o in bucket)) are events of the
    # enclosing path with the comprehension variable as bound term; they are picked up by `rec` as well
    return found


def check(ctx: Ctx, aspects=("remove", "log", "pop")) -> None:
    f = ctx.func(Q)
    runs = analyse(ctx)
    active = 0
    for o, p in runs:
        found = sites(o, p)
        if not (found["remove"] or found["log"] or found["pop"]):
            continue  # the `nothing expired` path
        active += 1
        nothing_to_do = _decided_empty(p)
        # coverage: all three kinds of work are present on a path that has work to do
        if "remove" in aspects and "pop" in aspects and not nothing_to_do:
            for what, label in (("remove", "expired orders leave the queue"), ("pop", "expired buckets leave the expiry index")):
                if not found[what]:
                    attr = "priority_queue" if what == "remove" else "expire_time_list"
                    other = [e for e in p.walk_events(True) if (e.kind == "store" and e.attr == attr) or (e.kind in ("store", "del") and e.attr is None and e.base is not None and key(strip_ver(e.base)).endswith(attr))
                             or (e.kind == "call" and e.data.get("mutates") is not None and key(strip_ver(e.data["mutates"])).endswith(attr) and e.name not in ("heapify",))]
                    if other:
                        ctx.unrec(f, f.node, f"reaper: {label}", f"self.{attr} is changed in a form that is not modelled ({', '.join(sorted({getattr(e, 'name', None) or e.kind for e in other}))})")
                    else:
                        ctx.violated(f, f.node, f"reaper: {label}", "present on every path that reaps", f"self.{attr} is left as it is on [" + p.describe()[:100] + "]")
        if "log" in aspects and not found["log"] and not nothing_to_do:
            handed = [e for e in p.walk_events(True) if e.kind == "call" and e.name in ("append", "extend") and p.exit[0] == "return" and p.exit[1] is not None and e.recv == p.exit[1]]
            if handed:
                ctx.unrec(f, f.node, "reaper: one expiry record per expired order", "records that were not built during the sweep (prepared earlier) are handed back: what they describe at that moment is not decided")
            else:
                ctx.violated(f, f.node, "reaper: one expiry record per expired order", "present on every path that reaps", "no record is built on [" + p.describe()[:100] + "]")

        def every_iteration(e: Event, path: Path, loops_, label: str) -> None:
            # the site is reached on every non-raising path of each enclosing loop body
            for l in loops_:
                kel = ("sym", f"{l.target[0]}∈{l.loopid}") if l.target else None
                for bp in l.paths:
                    if bp.exit[0] == "raise":
                        continue
                    if kel is not None and o.kind.get(kel, ("", None))[0] == "KEY?":
                        dec = _expired_filter(tuple((strip_ver(c) if pol else ("not", strip_ver(c))) for c, pol, _ in bp.conds), kel)
                        if dec is not True:
                            continue  # a key that has not expired: outside the domain
                    if _bucket_nonempty_after(bp, kel):
                        continue  # `pop the bucket once it is empty`: the other branch cannot be taken after every order was removed
                    here = any(x is e for x in bp.walk_events(True))
                    if not here:
                        ctx.violated(f, e.node, f"reaper: {label} for every expired item", "unconditional inside its loop", "skipped on [" + bp.describe()[:100] + "]")
                    elif bp.exit[0] not in ("fall", "continue"):
                        ctx.violated(f, e.node, f"reaper: {label} for every expired item", "the loop visits every item", f"the loop is left by `{bp.exit[0]}`")

        if "remove" in aspects:
            for e, guards, path, loops_, what in found["remove"]:
                v = o.is_kind(what, "ORDER", guards)
                if v is True:
                    ctx.holds(f, e.node, "reaper: what is removed from the queue is an order of an expired bucket", "element of expire_time_list[k], k < self.time", short(what))
                    every_iteration(e, path, loops_, "removal")
                elif v is False:
                    ctx.violated(f, e.node, "reaper: what is removed from the queue is an order of an expired bucket", "element of expire_time_list[k], k < self.time", short(what))
                else:
                    ctx.unrec(f, e.node, "reaper: what is removed from the queue is an order of an expired bucket", "origin of the removed value not traced", short(what))
        if "pop" in aspects:
            for e, guards, path, loops_ in found["pop"]:
                kt = e.args[0] if e.kind == "call" else e.index
                v = o.is_kind(kt, "KEY", guards)
                if v is True:
                    ctx.holds(f, e.node, "reaper: the bucket dropped from the expiry index is an expired one", "pop(k), k < self.time", short(kt))
                    every_iteration(e, path, loops_, "bucket removal")
                elif v is False:
                    ctx.violated(f, e.node, "reaper: the bucket dropped from the expiry index is an expired one", "pop(k), k < self.time", short(kt))
                else:
                    ctx.unrec(f, e.node, "reaper: the bucket dropped from the expiry index is an expired one", "origin of the key not traced", short(kt))
            # removing from a bucket that is being iterated skips every second order
            helper_mutates = False
            for hp in ctx.paths("OrderBook._remove"):
                for x in hp.walk_events(True):
                    if x.kind == "call" and x.name in ("remove", "pop") and x.recv is not None and strip_ver(x.recv)[0] == "sub" and strip_ver(x.recv)[1] == ETL:
                        helper_mutates = True
            for e, guards, path, loops_, what in found["remove"]:
                if not (helper_mutates and any(t.qualname == "OrderBook._remove" for t in e.site.targets)):
                    continue
                for l in loops_:
                    it = strip_ver(l.iter) if l.iter is not None else NONE
                    if it[0] == "sub" and it[1] == ETL:
                        ctx.violated(f, e.node, "reaper: a bucket is not changed while it is being walked", "iterate a copy, or remove after the walk", f"_remove() deletes the order from its bucket inside `for ... in {short(it)}`: every second order is skipped")
            for e, guards, path, loops_ in found["bucket_mut"]:
                for l in loops_:
                    it = strip_ver(l.iter) if l.iter is not None else NONE
                    if it[0] == "sub" and it[1] == ETL:
                        ctx.violated(f, e.node, "reaper: a bucket is not changed while it is being walked", "iterate a copy, or remove after the walk", f"{short(e.recv)}.{e.name}() inside `for ... in {short(it)}`")
        if "log" in aspects:
            for e, guards, path, loops_ in found["log"]:
                kws = dict(e.kwargs)
                oid = strip_ver(kws.get("order_id") or (e.args[0] if e.args else NONE))
                obj = oid[1] if oid[0] == "attr" and oid[2] == "order_id" else None
                if obj is None:
                    ctx.unrec(f, e.node, "reaper: the expiry record describes an expired order", "order_id is not read from an order object", short(oid))
                    continue
                v = o.is_kind(obj, "ORDER", guards)
                if v is None and obj[0] == "bound":
                    # built inside a comprehension: the comprehension's source must be a bucket / the flat list
                    src = _comp_source_of(e, path, obj[1])
                    if src is not None:
                        v = True if (o.bucket_of(src) is not None or o.keys_comp(src, path) == "flat") else None
                if v is True:
                    ctx.holds(f, e.node, "reaper: the expiry record describes an expired order", "ExpirationLog(order_id=o.order_id, ...), o an order of an expired bucket", short(obj))
                    every_iteration(e, path, loops_, "record")
                elif v is False:
                    ctx.violated(f, e.node, "reaper: the expiry record describes an expired order", "o an order of an expired bucket", short(obj))
                else:
                    ctx.unrec(f, e.node, "reaper: the expiry record describes an expired order", "origin of the recorded order not traced", short(obj))
    ctx.require(active >= 1, f"{Q}: no path that reaps")


def _decided_empty(p: Path) -> bool:
    """the path has decided that some list is empty / that no item exists: a guard for `nothing expired`"""
    for c, pol, _ in p.conds:
        k = key(strip_ver(c))
        if "len(" in k and ((k.startswith("(0 == len(") and pol) or (k.startswith("(0 < len(") and not pol) or (k.startswith("(1 <= len(") and not pol)):
            return True
        if k.startswith("any(") and not pol:
            return True
    return False


def _bucket_nonempty_after(bp: Path, kel: Optional[Term]) -> bool:
    if kel is None:
        return False
    for c, pol, _ in bp.conds:
        c0 = strip_ver(c)
        k = key(c0)
        if k.startswith("(0 == len(") and not pol and ("sub", ETL, kel) in list(subterms(c0)):
            return True
    return False


def _comp_source_of(e: Event, path: Path, bound_name: str) -> Optional[Term]:
    """iterable of the comprehension (argument of a call on the same path) whose variable is `bound_name`
    and whose element is the construction e"""
    places: List[Term] = []
    for c in path.events:
        if c.kind == "call":
            places.extend(list(c.args) + [v for _, v in c.kwargs])
        elif c.kind == "store":
            places.append(c.value)
    places.extend(v for v in path.env.values() if isinstance(v, tuple))
    if path.exit[0] == "return" and path.exit[1] is not None:
        places.append(path.exit[1])
    for a in places:
        if True:
            for s_ in subterms(a):
                if s_[0] == "comp" and len(s_[3]) >= 1 and any(bound_name in g[0] for g in s_[3]) and e.term is not None and strip_ver(s_[2]) == strip_ver(e.term):
                    for g in s_[3]:
                        if bound_name in g[0]:
                            return g[1]
    return None
