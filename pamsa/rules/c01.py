"""C01 -- trades honour both limits; one price per round, set by the resting side."""
from __future__ import annotations

from typing import Any, Dict, Iterable, List, Optional, Tuple

from ..kit import (
    Case, Ctx, calls, calls_target, kw, normal_paths, product_worlds, rule, short, stores,
    table_check_cases, weak_orders,
)
from ..paths import Event, Path
from ..terms import NONE, Term, Unrecognised, World, key, strip_ver, substitute, subterms
from .matching import EXEC, BodyPath, Walk, analyse_walk, queue_side

B, S, P0 = ("sym", "B"), ("sym", "S"), ("sym", "P0")
_ATOMS = {"B.price", "S.price", "B.placed_at", "S.placed_at", "B.order_id", "S.order_id", "P0"}


def _subst(w: Walk, bp: BodyPath) -> Dict[Term, Term]:
    m: Dict[Term, Term] = {w.cur(bp, "B"): B, w.cur(bp, "S"): S, w.loop.phi[w.var["price"]]: P0}
    return m


def _subst_term(t: Term, m: Dict[Term, Term]) -> Term:
    return strip_ver(substitute(strip_ver_keys(t), {strip_ver(k): v for k, v in m.items()}))


def strip_ver_keys(t: Term) -> Term:
    return strip_ver(t)


def _is_exhaustion(bp: BodyPath) -> bool:
    for c, pol, _ in bp.path.conds:
        if pol and c[0] == "cmp" and c[1] == "==":
            for side in (c[2], c[3]):
                if side[0] == "call" and key(side[1]) == "len" and side[2] and queue_side(side[2][0]):
                    return True
    return False


def _worlds() -> Iterable[Dict[str, Any]]:
    times = [{"B.placed_at": w["a"], "S.placed_at": w["b"]} for w in weak_orders(["a", "b"])]
    ids = [{"B.order_id": w["a"], "S.order_id": w["b"]} for w in weak_orders(["a", "b"])]
    p0 = [{"P0": None}, {"P0": "p0"}]
    # 0 is a legal limit price: code that tests a price for truth instead of `is None` shows in these worlds
    prices: List[Dict[str, Any]] = [{"B.price": None, "S.price": None}, {"B.price": 10, "S.price": None}, {"B.price": None, "S.price": 10},
                                    {"B.price": 0, "S.price": None}, {"B.price": None, "S.price": 0}]
    prices += [{"B.price": 10 + w["a"], "S.price": 10 + w["b"]} for w in weak_orders(["a", "b"])]
    prices += [{"B.price": w["a"], "S.price": w["b"]} for w in weak_orders(["a", "b"])]
    return product_worlds(prices, times, ids, p0)


def _spec(w: Dict[str, Any]) -> Any:
    bp, sp = w["B.price"], w["S.price"]
    if bp is None and sp is None:
        return ("alloc", w["P0"])
    if sp is None:
        return ("alloc", bp)
    if bp is None:
        return ("alloc", sp)
    if bp < sp:
        return ("stop",)
    if w["B.placed_at"] < w["S.placed_at"]:
        return ("alloc", bp)
    if w["B.placed_at"] > w["S.placed_at"]:
        return ("alloc", sp)
    if w["B.order_id"] < w["S.order_id"]:
        return ("alloc", bp)
    if w["B.order_id"] > w["S.order_id"]:
        return ("alloc", sp)
    return ("raise",)


def _pair_cases(w: Walk) -> List[Case]:
    cases: List[Case] = []
    for bp in w.body:
        if _is_exhaustion(bp):
            continue
        m = _subst(w, bp)
        conds = [(_subst_term(c, m), pol) for c, pol, _ in bp.path.conds]
        if bp.exit == "raise":
            if not conds or not any(key(x) in _ATOMS for x in subterms(conds[-1][0])):
                continue  # raised by an internal consistency assertion, not by the pair
            cases.append(Case(conds, (lambda wd: ("raise",)), bp.path.describe()))
            continue
        if bp.appended is not None:
            pt = _subst_term(bp.path.env[w.var["price"]], m)
            cases.append(Case(conds, (lambda wd, pt=pt: ("alloc", wd.eval(pt))), bp.path.describe()))
        elif bp.exit == "break":
            cases.append(Case(conds, (lambda wd: ("stop",)), bp.path.describe()))
        else:
            cases.append(Case(conds, (lambda wd: ("skip",)), bp.path.describe()))
    return cases


@rule("C01.R1", "every pending fill pairs the current buy-book order with the current sell-book order; books are side- and market-pure", "T10 provenance + T3 guards", floor=5)
def r1(ctx: Ctx) -> None:
    w = analyse_walk(ctx)
    f = ctx.func(EXEC)
    n = 0
    for bp in w.body:
        if bp.appended is None:
            continue
        n += 1
        _, bo, so = bp.appended[1]
        ok = bo == w.cur(bp, "B") and so == w.cur(bp, "S")
        ctx.check(ok, f, f.node, "pending tuple is (volume, order popped from the buy book, order popped from the sell book)",
                  f"(_, {short(w.cur(bp, 'B'))}, {short(w.cur(bp, 'S'))})", f"(_, {short(bo)}, {short(so)})")
    ctx.require(n >= 3, "fewer than 3 allocating paths in the walk")
    # variables holding the current orders are only ever (re)bound to pops of their own book
    for side in ("B", "S"):
        bad = []
        for bp in w.body:
            if bp.path.exit[0] == "raise":
                continue  # the iteration ends in an exception (possibly raised inside a helper): nothing is carried on
            v = bp.path.env.get(w.var[side])
            allowed = {w.loop.phi[w.var[side]]} | ({bp.pops[side].term} if side in bp.pops else set())
            if v not in allowed:
                bad.append(short(v))
        ctx.check(not bad, f, w.loop.node, f"current {'buy' if side == 'B' else 'sell'} order is only rebound to a pop of its own book",
                  "heappop(own book queue)", ", ".join(sorted(set(bad))) or "own-book pops only")
    # the consumer passes element 0/1/2 as volume/buy_order/sell_order over the whole pending list
    fc = w.fill_call
    want = {"volume": 0, "buy_order": 1, "sell_order": 2}
    got = {}
    for name, pos in want.items():
        t = kw(fc, name)
        got[name] = short(t)
    ok = True
    how = "?"
    mapped_over = None
    if "lambda" in fc.ctx:
        how = "map(lambda)"
        binder: Optional[str] = None
        for name, pos in want.items():
            t = kw(fc, name)
            if t is None or t[0] != "sub" or t[1][0] != "bound" or t[2] != ("const", pos):
                ok = False
            else:
                binder = t[1][1] if binder in (None, t[1][1]) else "?"
        for e in calls(w.main, into_loops=False):
            if e.name == "map" and len(e.args) == 2 and e.args[0][0] == "lambda":
                mapped_over = e.args[1]
        ok = ok and binder not in (None, "?")
    elif "comp" in fc.ctx:
        how = "comprehension"
        # [self._execute_orders(..., volume=v, buy_order=b, sell_order=s) for v, b, s in pending]
        comp = None
        for e in w.main.walk_events(False):
            for t in ([e.term] if e.kind == "call" else []) + ([e.value] if e.kind == "store" else []):
                for s_ in subterms(t):
                    if s_[0] == "comp" and strip_ver(s_[2]) == strip_ver(fc.term):
                        comp = s_
        for v in list(w.main.env.values()) + ([w.main.exit[1]] if w.main.exit[0] == "return" else []):
            for s_ in subterms(v):
                if s_[0] == "comp" and strip_ver(s_[2]) == strip_ver(fc.term):
                    comp = s_
        ok = comp is not None and len(comp[3]) == 1 and not comp[3][0][2]
        if ok:
            names = comp[3][0][0]
            mapped_over = comp[3][0][1]
            if len(names) == 3:
                ok = all(kw(fc, n_) == ("bound", names[pos]) for n_, pos in want.items())
            elif len(names) == 1:
                ok = all(kw(fc, n_) == ("sub", ("bound", names[0]), ("const", pos)) for n_, pos in want.items())
            else:
                ok = False
    else:
        # for v, b, s in pending: self._execute_orders(..., volume=v, buy_order=b, sell_order=s)
        ok = False
        for l in [e for e in w.main.events if e.kind == "loop" and e.loopkind == "for"]:
            if not any(fc in bp.events for bp in l.paths):
                continue
            how = "for loop"
            mapped_over = l.iter
            body_ok = all(bp.exit[0] == "fall" and not bp.conds and len([e for e in calls(bp) if calls_target(e, "Market._execute_orders")]) == 1 for bp in l.paths)
            if len(l.target) == 3:
                ok = body_ok and all(kw(fc, n_) == ("sym", f"{l.target[pos]}∈{l.loopid}") for n_, pos in want.items())
            elif len(l.target) == 1:
                el = ("sym", f"{l.target[0]}∈{l.loopid}")
                ok = body_ok and all(kw(fc, n_) == ("sub", el, ("const", pos)) for n_, pos in want.items())
    ok = ok and mapped_over == w.pending_sym
    ctx.check(ok, f, fc.node, "fills are executed for every pending tuple with (volume, buy_order, sell_order) = elements 0, 1, 2",
              "_execute_orders(price=p, volume=x[0], buy_order=x[1], sell_order=x[2]) for every x of the pending list", f"{how}: {got}, over {short(mapped_over)}")
    # OrderBook.add rejects the wrong side before insertion; _add_order rejects a foreign market before add
    _guard_before(ctx, "OrderBook.add", lambda e: e.kind == "call" and e.name == "heappush",
                  lambda c: _is_cmp(c, "order.is_buy", "self.is_buy"), "side test (order.is_buy vs self.is_buy)")
    _guard_before(ctx, "Market._add_order", lambda e: e.kind == "call" and calls_target(e, "OrderBook.add"),
                  lambda c: _is_cmp(c, "order.market_id", "self.market_id"), "market test (order.market_id vs self.market_id)")


def _is_cmp(c: Term, a: str, b: str) -> bool:
    if c[0] != "cmp" or c[1] != "==":
        return False
    ks = {key(strip_ver(c[2])), key(strip_ver(c[3]))}
    return ks == {a, b}


def _guard_before(ctx: Ctx, qual: str, is_effect, is_guard, what: str) -> None:
    f = ctx.func(qual)
    paths = ctx.paths(qual)
    n = 0
    bad = 0
    for p in paths:
        effs = [e for e in p.walk_events(True) if is_effect(e)]
        if not effs:
            continue
        n += 1
        if not any(pol and is_guard(c) for c, pol, _ in p.conds):
            bad += 1
    ctx.require(n > 0, f"{qual}: insertion effect not found")
    ctx.check(bad == 0, f, f.node, f"{qual}: {what} passed on every path that inserts", "guard decided (equal) before insertion", f"{bad} of {n} inserting paths lack it")


@rule("C01.R3", "the round price only ever takes the limit price of the current buy or sell order", "T10 provenance", floor=2)
def r3(ctx: Ctx) -> None:
    w = analyse_walk(ctx)
    f = ctx.func(EXEC)
    init = w.loop.init.get(w.var["price"])
    ctx.check(init == NONE, f, w.loop.node, "round price starts undefined", "None", short(init))
    srcs = set()
    bad = []
    for bp in w.body:
        if bp.exit == "raise":
            continue
        m = _subst(w, bp)
        pt = _subst_term(bp.path.env[w.var["price"]], m)
        k = key(pt)
        srcs.add(k)
        if k not in ("P0", "B.price", "S.price"):
            bad.append(k)
    ctx.check(not bad, f, w.loop.node, "price assigned inside the walk", "unchanged | current buy order's price | current sell order's price",
              ", ".join(sorted(set(bad))) if bad else ", ".join(sorted(srcs)))


@rule("C01.R2", "per matched pair: stop iff both are limit orders that do not cross; otherwise the price is the limit order's (one limit) or the earlier-accepted order's (two limits)", "T6 decision table", floor=1)
def r2(ctx: Ctx) -> None:
    w = analyse_walk(ctx)
    f = ctx.func(EXEC)
    cases = _pair_cases(w)
    ctx.require(len(cases) >= 6, "too few pair-handling paths in the walk")
    table_check_cases(ctx, f, w.loop.node, "stop / price-selection table of the matching walk", cases, list(_worlds()),
                      lambda t: key(t) in _ATOMS, _spec)


@rule("C01.R5", "all fills of a round are executed after the walk at the single final price", "T4 / T10", floor=2)
def r5(ctx: Ctx) -> None:
    w = analyse_walk(ctx)
    f = ctx.func(EXEC)
    fc = w.fill_call
    pt = kw(fc, "price", 0)
    out = w.loop.out[w.var["price"]]
    ctx.check(pt == out, f, fc.node, "price passed to every fill is the value the walk ended with", short(out), short(pt))
    # a round that matched nothing (price undefined) must not fill
    guarded = any((not pol) and c == ("cmp", "is", out, NONE) for c, pol, _ in w.main.conds)
    ctx.check(guarded, f, fc.node, "fills only after the price is known (price is None -> raise)", "guard `price is None` decided false before the fills", "present" if guarded else "absent")
    # no fill call inside the walk itself
    inside = [e for bp in w.body for e in calls(bp.path) if calls_target(e, "Market._execute_orders")]
    ctx.check(not inside, f, w.loop.node, "no fill is executed inside the walk (before the final price is known)", "0 calls", f"{len(inside)} calls")
    # ... nor before it, on any path of the round: every fill of a round is made by the stage after the walk
    for p in ctx.paths(EXEC):
        if p.exit[0] == "raise":
            continue
        wl = [e for e in p.events if e.kind == "loop" and e.loopkind == "while"]
        cut = p.events.index(wl[0]) if wl else len(p.events)
        early = [e for e in p.events[:cut] if e.kind == "call" and calls_target(e, "Market._execute_orders")]
        if early and not wl:
            ctx.unrec(f, early[0].node, "every fill of a round is made after the walk, at the walk's final price", "this path fills a pair and ends the round without the walk: whether it prices the pair as the walk would is not decided")
        elif early:
            ctx.violated(f, early[0].node, "every fill of a round is made after the walk, at the walk's final price", "no _execute_orders before the walk", f"{len(early)} fill(s) made before the walk (priced by their own pair): a round can then carry two prices")
    # _execute_orders records exactly the price it is given
    g = ctx.func("Market._execute_orders")
    for p in normal_paths(ctx.paths(g.qualname)):
        logs = [e for e in calls(p) if e.site.how == "ctor" and e.name == "ExecutionLog"]
        ok = len(logs) == 1 and key(kw(logs[0], "price") or NONE) == "price" and key(kw(logs[0], "volume") or NONE) == "volume"
        ctx.check(ok, g, logs[0].node if logs else g.node, "the fill record carries the given price and volume", "ExecutionLog(price=price, volume=volume)",
                  f"{len(logs)} record(s): " + ", ".join(f"price={short(kw(l, 'price'))}, volume={short(kw(l, 'volume'))}" for l in logs))


@rule("C01.H1", "premise shared with C02: book queues are valid heaps whenever they are popped (heap discipline)", "T4 typestate", floor=4)
def h1(ctx: Ctx) -> None:
    from .c02 import r2 as heap_rule

    heap_rule(ctx)


@rule("C01.H2", "premise shared with C19: tick rounding never makes a limit more aggressive than submitted (buy down, sell up)", "T6 (same rule as C19.R2)", floor=2)
def h2(ctx: Ctx) -> None:
    from .c19 import r2 as rounding_rule

    rounding_rule(ctx)


@rule("C01.H3", "mechanism shared with C02: `resting side` and `earlier accepted` are read off the book's ranking, which is the exact lexicographic order", "T6 decision table (same rule as C02.R1)", floor=1)
def h3(ctx: Ctx) -> None:
    from .c02 import r1 as comparator_rule

    comparator_rule(ctx)


@rule("C01.H4", "mechanism shared with C02: the acceptance time that decides which order of a pair was resting is stamped once, when the order enters the book (only Market._add_order calls OrderBook.add; sort keys are not rewritten afterwards)", "T2 who-may-call + T1 (same rule as C02.R3)", floor=5)
def h4(ctx: Ctx) -> None:
    from .c02 import r3 as enter_once_rule

    enter_once_rule(ctx)
