"""C11 -- agent callbacks: each party is told exactly once of its orders, cancels and fills."""
from __future__ import annotations

from typing import List

from ..kit import Ctx, caller_ok, calls, calls_target, deferred_calls, kw, loops, rule, short
from ..paths import Event
from ..terms import NONE, Term, key, strip_ver, subterms
from .runner import ADD, CANCEL, EXEC, HO, handling_blocks

UPD = "Simulator._update_agents_for_execution"


def _is_lookup_of(recv: Term, owner: Term) -> bool:
    """recv is the agent the simulator finds under the id `owner`: id2agent[owner], or a look-up through the
    simulator's own tables that depends on that id and on nothing else of the occurrence"""
    r = strip_ver(recv)
    if r == _agent_lookup(owner):
        return True
    if r[0] not in ("sub", "call"):
        return False
    has_owner = any(x == owner for x in subterms(r))
    rooted = any(key(x) in ("self.simulator", "self") for x in subterms(r))
    foreign = [x for x in subterms(r) if x[0] == "attr" and x[2].endswith("agent_id") and x != owner]
    return has_owner and rooted and not foreign and not _other_fields(r, owner)


def _other_fields(recv: Term, owner: Term) -> List[str]:
    """fields of the occurrence (the record / order the id `owner` is read from) that the receiver depends on besides the id"""
    if owner[0] != "attr":
        return []
    base = owner[1]
    return sorted({x[2] for x in subterms(strip_ver(recv)) if x[0] == "attr" and x[1] == base and x != owner})


def _agent_lookup(idterm):
    return ("sub", ("attr", ("attr", ("sym", "self"), "simulator"), "id2agent"), idterm)


@rule("C11.R1", "the owner is told exactly once of each accepted order / cancel, with the market's own record, before the after-hook", "T4 exactly-once + T10 provenance", floor=4)
def r1(ctx: Ctx) -> None:
    f = ctx.func(HO)
    blocks = handling_blocks(ctx)
    ctx.require(len(blocks) >= 8, "handling blocks not found")
    for b in blocks:
        evs = b.path.events
        i = evs.index(b.accept)
        cb_name = "submitted_order" if b.kind == "order" else "canceled_order"
        trig = "_trigger_event_after_order" if b.kind == "order" else "_trigger_event_after_cancel"
        owner = ("attr", b.elem, "agent_id") if b.kind == "order" else ("attr", ("attr", b.elem, "order"), "agent_id")
        cbs = [e for e in evs if e.kind == "call" and e.name in ("submitted_order", "canceled_order")]
        owners = [owner]
        cm = ctx.program.cls("Cancel").methods.get("agent_id") if b.kind == "cancel" and "Cancel" in ctx.program.classes else None
        if cm is not None and cm.is_property:
            import ast as _ast

            body = [x for x in cm.node.body if not (isinstance(x, _ast.Expr) and isinstance(x.value, _ast.Constant))]
            if len(body) == 1 and isinstance(body[0], _ast.Return) and body[0].value is not None and _ast.unparse(body[0].value) == "self.order.agent_id":
                owners.append(("attr", b.elem, "agent_id"))  # Cancel.agent_id is the id of the cancelled order's agent
        owners.append(strip_ver(("attr", b.accept.term, "agent_id")))  # the record's own agent id: the order's, by the field map of the records (C11.H3)
        good = [e for e in cbs if e.name == cb_name and kw(e, "log", 0) == b.accept.term and e.recv is not None and any(_is_lookup_of(e.recv, o) for o in owners)]
        ok = len(cbs) == 1 and len(good) == 1 and evs.index(good[0]) > i
        if not cbs:
            sib = [o for o in blocks if o is not b and o.phase == b.phase and o.kind == b.kind and any(e.kind == "call" and e.name == cb_name for e in o.path.events)]
            if sib:
                mine = {(key(strip_ver(c)), pol) for c, pol, _ in b.path.conds}
                theirs = {(key(strip_ver(c)), pol) for c, pol, _ in sib[0].path.conds}
                diff = sorted(("" if pol else "not ") + k for k, pol in mine - theirs)
                ctx.unrec(f, b.accept.node, f"{b.phase} {b.kind}: owner notified once with the market's record", "the call back is made under a condition that is not modelled (whether the skipped call would have done nothing is not decided)", "; ".join(diff)[:200])
                continue
        if not ok and len(cbs) == 1 and cbs[0].name == cb_name and kw(cbs[0], "log", 0) == b.accept.term and cbs[0].recv is not None and evs.index(cbs[0]) > i:
            rv = strip_ver(cbs[0].recv)
            if rv[0] == "sym" and "∈" in rv[1] and not rv[1].startswith("φ"):
                # told through the variable of the loop over the consulted agents, never rebound on the way (a rebound one is a
                # φ-term and is reported, seed C11t): it is the owner iff every order the agent hands in carries its own id, which
                # the spoofing test establishes at run time -- that implication is not followed here
                ctx.unrec(f, b.accept.node, f"{b.phase} {b.kind}: owner notified once with the market's record", "the call back goes to the agent being consulted instead of the one looked up by the order's agent id: equal only through the spoofing test, which is not followed", short(rv))
                continue
        ctx.check(ok, f, b.accept.node, f"{b.phase} {b.kind}: owner notified once with the market's record", f"id2agent[{short(owner)}].{cb_name}(log=<record>) once",
                  "; ".join(f"{short(e.recv)}.{e.name}(log={short(kw(e, 'log', 0))})" for e in cbs) or "no callback")
        if ok:
            t = [e for e in evs if e.kind == "call" and e.name == trig]
            ctx.check(all(evs.index(x) > evs.index(good[0]) for x in t), f, good[0].node, f"{b.phase} {b.kind}: the owner is told before the after-hook runs", "callback precedes trigger", "trigger first")


def _zip_parties_ok(ctx: Ctx, path, zl):
    """zip(logs, P): P is what the holdings update returned for these very logs, and that is one
    (buyer, seller) pair per log, looked up from the log's own ids, in order"""
    from ..kit import seq_value

    if len(zl.iter[2]) != 2 or len(zl.target) != 3:
        return None
    P = zl.iter[2][1]
    upd = [e for e in path.events if e.kind == "call" and calls_target(e, UPD) and e.term == P]
    if len(upd) != 1 or kw(upd[0], "execution_logs", 0) != zl.iter[2][0]:
        return None
    sim = ("sym", "self")
    for hp in ctx.paths(UPD):
        if hp.exit[0] != "return":
            continue
        sv = seq_value(hp, hp.exit[1]) if hp.exit[1] is not None else None
        if sv is None:
            # built in the loop over the logs, but not on every iteration?
            for l_ in loops(hp):
                if key(strip_ver(l_.iter)) == "execution_logs":
                    app = [any(e.name == "append" and e.recv == hp.exit[1] for e in calls(bp_, into_loops=False)) for bp_ in l_.paths if bp_.exit[0] != "raise"]
                    if app and any(app) and not all(app):
                        return False
            return None
        if sv[0] == "comp" and len(sv[3]) == 1 and sv[3][0][2] and key(sv[3][0][1]) == "execution_logs":
            return False  # filtered: fewer pairs than fills
        if sv[0] != "comp" or len(sv[3]) != 1 or len(sv[3][0][0]) != 1 or key(sv[3][0][1]) != "execution_logs":
            return None
        lb = ("bound", sv[3][0][0][0])
        want = ("tuple", (("sub", ("attr", sim, "id2agent"), ("attr", lb, "buy_agent_id")), ("sub", ("attr", sim, "id2agent"), ("attr", lb, "sell_agent_id"))))
        if strip_ver(sv[2]) != want:
            return None
    return True


@rule("C11.R2", "for every fill of the round the buyer and the seller are each told exactly once, with that fill's record", "T4 exactly-once per loop iteration", floor=4)
def r2(ctx: Ctx) -> None:
    f = ctx.func(HO)
    n = 0
    for b in handling_blocks(ctx):
        evs = b.path.events
        ex = [e for e in evs if e.kind == "call" and calls_target(e, EXEC)]
        if not ex:
            stray = [e for e in calls(b.path) if e.name == "executed_order"]
            ctx.check(not stray, f, b.accept.node, f"{b.phase} {b.kind}: no fill notification without a matching round", "0 executed_order calls", str(len(stray)))
            continue
        n += 1
        lps = [l for l in loops(b.path) if l.iter == ex[0].term]
        telling = [l for l in lps if any(e.name == "executed_order" for bp in l.paths for e in calls(bp))]
        if len(lps) > 1 and len(telling) == 1:
            lps = telling  # the other passes over the fills settle them (a folded-in routine of the simulator)
        zipped = [l for l in loops(b.path) if l.iter is not None and l.iter[0] == "call" and key(l.iter[1]) == "zip" and l.iter[2] and l.iter[2][0] == ex[0].term]
        if not lps and len(zipped) == 1:
            # for log, (buyer, seller) in zip(logs, <pairs returned by the holdings update>)
            zl = zipped[0]
            zok = _zip_parties_ok(ctx, b.path, zl)
            if zok is False:
                ctx.violated(f, zl.node, f"{b.phase} {b.kind}: buyer and seller of each fill are told once each", "one (buyer, seller) pair per fill, in the order of the fills", "the holdings update does not return a pair for every fill (some iterations skip the append): zip() pairs later fills with the wrong agents and drops the last ones")
                continue
            if zok:
                el = ("sym", f"{zl.target[0]}∈{zl.loopid}")
                pb, ps_ = (("sym", f"{zl.target[1]}∈{zl.loopid}"), ("sym", f"{zl.target[2]}∈{zl.loopid}"))
                for bp in zl.paths:
                    cbs = [e for e in calls(bp) if e.name == "executed_order"]
                    got_r = sorted(short(strip_ver(e.recv)) for e in cbs if kw(e, "log", 0) == el and e.recv is not None)
                    ok = len(cbs) == 2 and got_r == sorted([short(pb), short(ps_)]) and not bp.conds and bp.exit[0] == "fall"
                    ctx.check(ok, f, zl.node, f"{b.phase} {b.kind}: buyer and seller of each fill are told once each", "buyer.executed_order(log), seller.executed_order(log) with the pair resolved for that very fill", "; ".join(f"{short(e.recv)}.executed_order(log={short(kw(e, 'log', 0))})" for e in cbs) or "none")
            else:
                ctx.unrec(f, zl.node, f"{b.phase} {b.kind}: buyer and seller of each fill are told once each", "fills are walked together with a second sequence whose relation to the fills is not modelled", short(zl.iter)[:160])
            continue
        ctx.check(len(lps) == 1, f, ex[0].node, f"{b.phase} {b.kind}: one pass over the round's fills", "for log in <result of _execution()>", f"{len(lps)} loop(s)")
        for l in lps:
            el = ("sym", f"{l.target[0]}∈{l.loopid}")
            for bp in l.paths:
                cbs = [e for e in calls(bp) if e.name == "executed_order"]
                want = {short(_agent_lookup(("attr", el, "buy_agent_id"))), short(_agent_lookup(("attr", el, "sell_agent_id")))}
                got = [short(strip_ver(e.recv)) for e in cbs if kw(e, "log", 0) == el]
                parties = sorted(("buyer" if _is_lookup_of(e.recv, ("attr", el, "buy_agent_id")) else ("seller" if _is_lookup_of(e.recv, ("attr", el, "sell_agent_id")) else "?")) for e in cbs if kw(e, "log", 0) == el and e.recv is not None)
                ok = len(cbs) == 2 and (sorted(got) == sorted(want) or parties == ["buyer", "seller"]) and not bp.conds and bp.exit[0] == "fall"
                dfr = deferred_calls(bp, "executed_order")
                if not ok and bp.conds and bp.exit[0] == "fall" and not dfr and all(kw(e, "log", 0) == el for e in cbs) and all(short(strip_ver(e.recv)) in want for e in cbs) and len(cbs) <= 2:
                    ctx.unrec(f, l.node, f"{b.phase} {b.kind}: buyer and seller of each fill are told once each", "a call back is made under a condition that is not modelled (whether the skipped call would have done nothing is not decided)", bp.describe()[:160])
                    continue
                if not ok and dfr:
                    # the callbacks are wrapped in closures that run later: they see the loop's variables as they are THEN
                    import ast as _ast

                    loop_names = {n.id for n in _ast.walk(l.node) if isinstance(n, _ast.Name) and isinstance(n.ctx, _ast.Store)} if l.node is not None else set()
                    captured = sorted({v for note, _ in dfr for v in note.data.get("free", []) if v in loop_names})
                    if captured:
                        ctx.violated(f, dfr[0][0].node, f"{b.phase} {b.kind}: buyer and seller of each fill are told once each", "callbacks made per fill with that fill's record",
                                     f"the callback is deferred in a closure over the loop variable(s) {', '.join(captured)}: every deferred call sees the values of the last fill")
                    else:
                        ctx.unrec(f, dfr[0][0].node, f"{b.phase} {b.kind}: buyer and seller of each fill are told once each", "callbacks are deferred in closures; when they run is not modelled")
                    continue
                via = sorted({x for e in cbs if e.recv is not None for o_ in ("buy_agent_id", "sell_agent_id") for x in _other_fields(e.recv, ("attr", el, o_)) if not x.endswith("agent_id")})
                if not ok and via and 1 <= len(cbs) <= 2:
                    ctx.unrec(f, l.node, f"{b.phase} {b.kind}: buyer and seller of each fill are told once each", f"the agents are found through other fields of the record ({', '.join(via)}): whether that leads to the buyer and the seller is not decided", "; ".join(short(e.recv)[:80] for e in cbs))
                    continue
                ctx.check(ok, f, l.node, f"{b.phase} {b.kind}: buyer and seller of each fill are told once each", "id2agent[log.buy_agent_id].executed_order(log), id2agent[log.sell_agent_id].executed_order(log)",
                          "; ".join(f"{short(e.recv)}.executed_order(log={short(kw(e, 'log', 0))})" for e in cbs) or "none")
        # notification comes after the whole round has been applied to holdings
        upd = [e for e in evs if e.kind == "call" and calls_target(e, UPD)]
        if upd and lps:
            ctx.check(evs.index(upd[0]) < evs.index(lps[0]), f, lps[0].node, f"{b.phase} {b.kind}: fills are reported after holdings were updated for the whole round", "holdings update precedes the notification loop", "order reversed")
    ctx.require(n >= 4, "matching blocks not found")


@rule("C11.R3", "nothing else in pams invokes the agent callbacks", "T2 who-may-call", floor=3)
def r3(ctx: Ctx) -> None:
    for name in ("submitted_order", "canceled_order", "executed_order"):
        sites = ctx.cg.sites_by_name(name)
        ctx.require(len(sites) >= 1, f"call sites of {name} not found")
        for s in sites:
            ok = caller_ok(ctx, s.caller, lambda g: g.qualname == HO or (g.name == name and g.cls is not None and ctx.program.is_subclass(g.cls.name, "Agent")))
            ctx.check(ok, s.caller, s.node, f"caller of {name}", f"{HO} (or an agent's own override delegating to its base)", s.caller.qualname)


@rule("C11.H1", "mechanism shared with C18: call backs are routed through the id table of the simulator, which holds one agent per id (a second agent with an id in use is rejected, not stored over the first)", "T3 guard before the first store (registry part of C18.R2)", floor=3)
def h1(ctx: Ctx) -> None:
    from .c18 import check_registries

    check_registries(ctx)


@rule("C11.H2", "mechanism shared with C05: matching rounds are started only where their fills are reported (the run loop's handling of an order), and a round hands back exactly the fills it made", "T2 who-may-call + T10 (same rules as C05.R3, C05.R5)", floor=2)
def h2(ctx: Ctx) -> None:
    from .c05 import r3 as settle_rule, r5 as returned_rule

    settle_rule(ctx)
    returned_rule(ctx)


@rule("C11.H3", "mechanism shared with C10: the record a market makes of an order / cancel / fill carries the ids of the order(s) it is about (so the agent found under the record's agent id is the owner)", "T10 field provenance (same rule as C10.R3)", floor=10)
def h3(ctx: Ctx) -> None:
    from .c10 import r3 as record_fields_rule

    record_fields_rule(ctx)
