"""C06 -- one lock-step clock; no access to the future; recorded history never changes."""
from __future__ import annotations

from typing import Any, Dict, List, Optional, Tuple

from ..kit import caller_ok, Ctx, calls, calls_target, kw, loops, nf_cmp, normal_paths, poly_of, rule, short, stores
from ..paths import Event, Path
from ..terms import NONE, Term, Unrecognised, diff_const, key, strip_ver, subterms
from .c04 import writer_allowlist

SERIES = (
    "_market_prices", "_mid_prices", "_last_executed_prices", "_fundamental_prices",
    "_executed_volumes", "_executed_total_prices", "_n_buy_orders", "_n_sell_orders",
)
GETTERS = {
    "get_market_price": ("_market_prices", False), "get_market_prices": ("_market_prices", False),
    "get_mid_price": ("_mid_prices", True), "get_mid_prices": ("_mid_prices", True),
    "get_last_executed_price": ("_last_executed_prices", True), "get_last_executed_prices": ("_last_executed_prices", True),
    "get_fundamental_price": ("_fundamental_prices", False), "get_fundamental_prices": ("_fundamental_prices", False),
    "get_executed_volume": ("_executed_volumes", False), "get_executed_volumes": ("_executed_volumes", False),
    "get_executed_total_price": ("_executed_total_prices", False), "get_executed_total_prices": ("_executed_total_prices", False),
    "get_n_buy_order": ("_n_buy_orders", False), "get_n_buy_orders": ("_n_buy_orders", False),
    "get_n_sell_order": ("_n_sell_orders", False), "get_n_sell_orders": ("_n_sell_orders", False),
}
UT = "Market._update_time"
UTM = "Simulator._update_time_on_market"
UTS = "Simulator._update_times_on_markets"


@rule("C06.R1", "the market clock is written only by its constructor and the two clock methods; a step adds exactly one; only the simulator steps markets", "T1 + T2 + T7", floor=5)
def r1(ctx: Ctx) -> None:
    writer_allowlist(ctx, "Market", "time", {"Market.__init__": "constructor", "Market._set_time": "absolute setter (no caller in pams)", UT: "step"})
    f = ctx.func(UT)
    for p in normal_paths(ctx.paths(UT)):
        ts = stores(p, "time", into_loops=False)
        ts = [e for e in ts if e.owner in ("Market", "?")]
        ok = len(ts) == 1 and key(strip_ver(ts[0].base)) == "self" and poly_of(ts[0].value) == poly_of(("bin", "+", ("attr", ("sym", "self"), "time"), ("const", 1)))
        ctx.check(ok, f, f.node, "a clock step adds exactly one", "self.time = self.time + 1 (once)", "; ".join(f"{short(e.target)} := {short(e.value)}" for e in ts))
        if not ok:
            break
    sites = ctx.cg.sites_calling(UT)
    ctx.require(len(sites) >= 1, f"no caller of {UT}")

    def extends_only(s) -> Optional[bool]:
        """the site is `super().<same method>(<own parameters, unchanged>)` in an override of a Market subclass: True when it is
        one unconditional top-level statement of that override (the clock moves exactly as in Market; what the override adds is
        judged by the writer rules), False when it is such a call under a condition / loop / more than once, None otherwise"""
        import ast as _a
        g, c = s.caller, s.node
        if not (g.cls is not None and g.cls.name != "Market" and ctx.program.is_subclass(g.cls.name, "Market") and isinstance(c, _a.Call) and isinstance(c.func, _a.Attribute)
                and c.func.attr == g.name and isinstance(c.func.value, _a.Call) and isinstance(c.func.value.func, _a.Name) and c.func.value.func.id == "super" and not c.func.value.args):
            return None
        passed = [a for a in c.args] + [k.value for k in c.keywords]
        names_ok = all(isinstance(a, _a.Name) and a.id in g.params for a in passed) and all(k.arg is None or (isinstance(k.value, _a.Name) and k.value.id == k.arg) for k in c.keywords)
        top = [st for st in g.node.body if isinstance(st, _a.Expr) and st.value is c]
        same = [x for x in _a.walk(g.node) if isinstance(x, _a.Call) and isinstance(x.func, _a.Attribute) and x.func.attr == g.name and isinstance(x.func.value, _a.Call) and isinstance(x.func.value.func, _a.Name) and x.func.value.func.id == "super"]
        returns_before = any(isinstance(x, (_a.Return, _a.Raise)) for st in g.node.body[: g.node.body.index(top[0])] for x in _a.walk(st)) if top else True
        return bool(names_ok and top and len(same) == 1 and not returns_before)

    for s in sites:
        ext = extends_only(s)
        if ext is True:
            ctx.holds(s.caller, s.node, f"caller of {UT}", "an override that forwards to Market once, unconditionally, with its own arguments", s.caller.qualname)
            continue
        if ext is False:
            ctx.unrec(s.caller, s.node, f"caller of {UT}", f"{s.caller.qualname} overrides the clock step and forwards to Market under a condition, more than once or with other arguments: not modelled")
            continue
        if not caller_ok(ctx, s.caller, lambda g: g.qualname == UTM) and caller_ok(ctx, s.caller, lambda g: g.qualname == UTS):
            # the routine that steps all markets does one of the steps itself instead of going through the per-market routine
            ctx.unrec(s.caller, s.node, f"caller of {UT}", f"{UTS} steps a market directly; the rules decide the per-market routine {UTM} only")
            continue
        ctx.check(caller_ok(ctx, s.caller, lambda g: g.qualname == UTM), s.caller, s.node, f"caller of {UT}", UTM, s.caller.qualname)
    for s in ctx.cg.sites_calling("Market._set_time"):
        if extends_only(s) is True:
            continue  # an override of the setter forwarding to Market: still nobody in pams calls the setter
        ctx.violated(s.caller, s.node, "absolute clock setter is not used by the platform", "no caller of Market._set_time in pams", s.caller.qualname)
    for s in ctx.cg.sites_calling(UTM):
        ctx.check(caller_ok(ctx, s.caller, lambda g: g.qualname == UTS), s.caller, s.node, f"caller of {UTM}", UTS, s.caller.qualname)
    for s in ctx.cg.sites_calling("OrderBook._update_time"):
        ctx.violated(s.caller, s.node, "book-local clock stepping is not used (books follow the market clock)", "no caller of OrderBook._update_time", s.caller.qualname)


def _selector(l: Event, ctx: Optional[Ctx] = None) -> Optional[bool]:
    """True/False if the loop iterates only (non-)IndexMarket instances, None if unfiltered."""
    return _selector_of(l.iter, ctx)


def _segments(it: Optional[Term]) -> List[Optional[Term]]:
    """a + b (lists built one after the other) is walked as a, then b"""
    if it is not None:
        t = strip_ver(it)
        if t[0] == "bin" and t[1] == "+":
            return _segments(t[2]) + _segments(t[3])
        if t[0] == "call" and key(t[1]) in ("list", "tuple", "iter") and len(t[2]) == 1:
            return _segments(t[2][0])
    return [it]


def _selector_of(it: Optional[Term], ctx: Optional[Ctx] = None) -> Optional[bool]:
    # filter(pred, xs) / itertools.filterfalse(pred, xs) with a named predicate `return isinstance(x, IndexMarket)`
    if it is not None and ctx is not None and it[0] == "call" and key(it[1]) in ("filter", "itertools.filterfalse", "filterfalse") and len(it[2]) == 2 and it[2][0][0] == "name":
        nm_ = it[2][0][1]
        g = ctx.program.functions.get(nm_) or ctx.program.functions.get(":".join(nm_.rsplit(".", 1)))
        if g is not None and len(g.params) == 1:
            import ast as _ast

            body = [x for x in g.node.body if not (isinstance(x, _ast.Expr) and isinstance(x.value, _ast.Constant))]
            if len(body) == 1 and isinstance(body[0], _ast.Return) and body[0].value is not None:
                v = body[0].value
                pol = True
                while isinstance(v, _ast.UnaryOp) and isinstance(v.op, _ast.Not):
                    v, pol = v.operand, not pol
                if isinstance(v, _ast.Call) and isinstance(v.func, _ast.Name) and v.func.id == "isinstance" and len(v.args) == 2 and isinstance(v.args[0], _ast.Name) and v.args[0].id == g.params[0] and _ast.unparse(v.args[1]).endswith("IndexMarket"):
                    return pol if key(it[1]) == "filter" else not pol
    if it is not None and it[0] == "call" and key(it[1]) == "filter" and len(it[2]) == 2 and it[2][0][0] == "lambda":
        body = it[2][0][2]
        pol = True
        while body[0] == "not":
            body, pol = body[1], not pol
        if body[0] == "call" and key(body[1]) == "isinstance" and body[2][0][0] == "bound" and key(body[2][1]).endswith("IndexMarket"):
            return pol
    if it is not None and it[0] == "comp" and len(it[3]) == 1 and len(it[3][0][2]) == 1:
        c = it[3][0][2][0]
        pol = True
        while c[0] == "not":
            c, pol = c[1], not pol
        if c[0] == "call" and key(c[1]) == "isinstance" and key(c[2][1]).endswith("IndexMarket"):
            return pol
    return None


@rule("C06.R2", "all markets are stepped together: ordinary markets first, index markets after them, each asked for time+1", "T5 ordering + T7", floor=3)
def r2(ctx: Ctx) -> None:
    f = ctx.func(UTS)
    ctx.func(UTM)  # the per-market routine the stepping order is stated in terms of (a vanished anchor aborts the rule)
    for p in normal_paths(ctx.paths(UTS)):
        lps = loops(p)
        seq: List[Tuple[Optional[bool], str]] = []
        memo = None
        for l in lps:
          for seg in _segments(l.iter):
            base_sel = _selector_of(seg, ctx)
            src = seg
            if src is not None and src[0] == "call" and key(src[1]) in ("filter", "itertools.filterfalse", "filterfalse"):
                src = src[2][1]
            elif src is not None and src[0] == "comp":
                src = src[3][0][1]
            el = ("sym", f"{l.target[0]}∈{l.loopid}") if l.target else None
            for bp in l.paths:
                cs = [c for c in calls(bp) if calls_target(c, UTM)]
                sel = base_sel
                for c, pol, _ in bp.conds:
                    if c[0] == "call" and key(c[1]) == "isinstance" and c[2][0] == el and key(c[2][1]).endswith("IndexMarket"):
                        sel = pol
                if cs:
                    good = len(cs) == 1 and kw(cs[0], "market", 0) == el
                    seq.append((sel if good else None, short(src)))
                    if src is not None and any(x[0] == "attr" and x[1] == ("sym", "self") for x in subterms(strip_ver(src))):
                        memo = src
        if memo is not None:
            ctx.unrec(f, f.node, "stepping order over the given markets", "the markets are walked in an order kept in state of the simulator (" + short(memo)[:80] + "): whether that list is the current set of markets, ordinary ones first, is not decided")
            continue
        ok = [s for s, _ in seq] == [False, True] and all(src == "markets" for _, src in seq)
        if not ok:
            from ..kit import late_bound

            lb = [(l, late_bound(l, bp)) for l in lps for bp in l.paths]
            cap = sorted({v for _, (_, c) in lb for v in c})
            if cap:
                note = [n_ for _, (ns, c) in lb if c for n_ in ns][0]
                ctx.violated(f, note.node, "every market is stepped once per tick, index markets after the others", "the market is bound when its update is queued", f"updates are queued in closures over the loop variable(s) {', '.join(cap)}: when they run, all of them step the market the loop visited last")
                continue
            if any(ns for _, (ns, _) in lb):
                ctx.unrec(f, f.node, "stepping order over the given markets", "updates are queued in closures and run later; that form is not modelled")
                continue
        ctx.check(ok, f, f.node, "stepping order over the given markets", "[non-index markets..., index markets...] each stepped once", str(seq))
    g = ctx.func(UTM)
    n = 0
    for p in normal_paths(ctx.paths(UTM, keep=("compute_fundamental_index", "get_fundamental_price"))):
        ups = [e for e in calls(p) if calls_target(e, UT)]
        ctx.check(len(ups) == 1 and key(strip_ver(ups[0].recv)) == "market", g, g.node, "exactly one clock step of the given market per call", "market._update_time(...) once", f"{len(ups)} step(s)")
        if len(ups) != 1:
            continue
        n += 1
        is_index = [pol for c, pol, _ in p.conds if c[0] == "call" and key(c[1]) == "isinstance" and key(c[2][1]).endswith("IndexMarket")]
        arg = kw(ups[0], "next_fundamental_price", 0)
        want_t = poly_of(("bin", "+", ("attr", ("sym", "market"), "time"), ("const", 1)))
        if arg is not None and arg[0] == "call":
            t = dict(arg[3]).get("time") or (arg[2][-1] if arg[2] else None)
            callee = key(strip_ver(arg[1]))
            if is_index and is_index[0]:
                ok = callee == "market.compute_fundamental_index" and t is not None and poly_of(strip_ver(t)) == want_t
            else:
                mid = dict(arg[3]).get("market_id") or (arg[2][0] if arg[2] else None)
                ok = callee == "self.fundamentals.get_fundamental_price" and t is not None and poly_of(strip_ver(t)) == want_t and mid is not None and key(strip_ver(mid)) == "market.market_id"
            ctx.check(ok, g, ups[0].node, "the fundamental recorded for the new slot is the one for time + 1 of that market",
                      "fundamentals.get_fundamental_price(market_id, time+1) | compute_fundamental_index(time+1) for index markets", short(arg))
        elif arg is not None and any(x[0] == "attr" and ((x[1] == ("sym", "self") and x[2] not in ("fundamentals",)) or (x[1] == ("sym", "market") and x[2].startswith("_"))) for x in subterms(strip_ver(arg))):
            ctx.unrec(g, ups[0].node, "the fundamental recorded for the new slot is the one for time + 1 of that market", "the value comes from state kept by the simulator or the market (a memo): whether it equals the lookup for time + 1 is not decided", short(arg))
        elif arg is not None and strip_ver(arg)[0] != "const" and any(x[0] == "sym" and (x[1].startswith("new") or x[1].startswith("ψ")) for x in subterms(strip_ver(arg))):
            ctx.unrec(g, ups[0].node, "the fundamental recorded for the new slot is the one for time + 1 of that market", "the value is taken out of a container built on the way: what it holds is not followed", short(arg))
        elif arg is not None and any(x[0] == "attr" and x[2] == "prices" and key(x[1]).endswith("fundamentals") for x in subterms(strip_ver(arg))):
            ctx.unrec(g, ups[0].node, "the fundamental recorded for the new slot is the one for time + 1 of that market", "the value is read from the generator's storage instead of asked for: whether that slot holds the value for time + 1 at this moment is not decided", short(arg))
        else:
            ctx.violated(g, ups[0].node, "the fundamental recorded for the new slot is the one for time + 1 of that market", "a fundamental lookup for time + 1", short(arg))
    ctx.require(n >= 2, f"{UTM}: expected the ordinary and the index-market branch")


@rule("C06.R3", "the clock is stepped once before the first session and exactly once per iteration step; session start times accumulate the configured lengths", "T4 exactly-once + T7 + T9", floor=4)
def r3(ctx: Ctx) -> None:
    RUN, IT = "SequentialRunner._run", "SequentialRunner._iterate_market_updates"
    for s in ctx.cg.sites_calling(UTS):
        ctx.check(caller_ok(ctx, s.caller, lambda g: g.qualname in (RUN, IT)), s.caller, s.node, f"caller of {UTS}", f"{RUN} | {IT}", s.caller.qualname)
    f = ctx.func(RUN)
    for p in normal_paths(ctx.paths(RUN)):
        top = [e for e in p.events if e.kind == "call" and calls_target(e, UTS)]
        lps = [l for l in loops(p) if key(strip_ver(l.iter)) == "self.simulator.sessions"]
        ok = len(top) == 1 and len(lps) == 1 and p.events.index(top[0]) < p.events.index(lps[0])
        ctx.check(ok, f, f.node, "t: -1 -> 0 exactly once, before the first session", "one clock step before the session loop", f"{len(top)} step(s) outside, {len(lps)} session loop(s)")
        for l in lps:
            el = ("sym", f"{l.target[0]}∈{l.loopid}")
            for bp in l.paths:
                inner = [e for e in calls(bp) if calls_target(e, UTS)]
                its = [e for e in calls(bp, into_loops=False) if calls_target(e, IT)]
                if bp.exit[0] == "raise":
                    continue
                # unconditional = on every path of the loop body (decisions about other things may exist)
                ok = not inner and len(its) == 1 and kw(its[0], "session", 0) == el
                ctx.check(ok, f, l.node, "each session runs its steps once and the run loop itself does not touch the clock", "_iterate_market_updates(session) once on every path of the session loop", f"{len(its)} call(s), {len(inner)} direct clock step(s) on [{bp.describe()[:80]}]")
    g = ctx.func(IT)
    for p in normal_paths(ctx.paths(IT)):
        direct = [e for e in p.events if e.kind == "call" and calls_target(e, UTS)]
        steps = [l for l in loops(p) if l.iter is not None and l.iter[0] == "call" and key(l.iter[1]) == "range"]
        ok = not direct and len(steps) == 1
        if ok:
            l = steps[0]
            ok = len(l.iter[2]) == 1 and key(strip_ver(l.iter[2][0])) == "session.iteration_steps"
            for bp in l.paths:
                cs = [e for e in bp.events if e.kind == "call" and calls_target(e, UTS)]
                nested = [e for e in calls(bp) if calls_target(e, UTS)]
                if bp.exit[0] == "raise":
                    continue
                if len(cs) != 1 or len(nested) != 1 or bp.exit[0] != "fall" or bp.events.index(cs[0]) != max(i for i, e in enumerate(bp.events) if e.kind in ("call", "loop", "store")):
                    ok = False
                arg = kw(cs[0], "markets", 0) if cs else None
                if arg is None or key(strip_ver(arg)) not in ("self.simulator.markets", "markets"):
                    ok = False
        ctx.check(ok, g, g.node, "one unconditional clock step of all markets closes every iteration step", "for _ in range(session.iteration_steps): ...; _update_times_on_markets(all markets)",
                  f"{len(direct)} step(s) outside the loop, {len(steps)} step loop(s)")
    # session start offsets
    gs = ctx.func("SequentialRunner._generate_sessions")
    found = False
    for p in normal_paths(ctx.paths(gs.qualname)):
        for l in loops(p):
            ctors = [(bp, e) for bp in l.paths for e in calls(bp, into_loops=False) if e.site.how == "ctor" and e.name == "Session"]
            if not ctors:
                continue
            found = True
            var = None
            for bp, e in ctors:
                a = kw(e, "session_start_time", 2)
                for n, ph in l.phi.items():
                    if a == ph:
                        var = n
                if var is None and a is not None and strip_ver(a)[0] == "sub" and strip_ver(a)[1][0] == "sym" and strip_ver(a)[1][1].startswith("new"):
                    ctx.unrec(gs, e.node, "a session starts where the accumulated offset stands", "the start time is read from a table of start times built on the way: how that table accumulates the lengths is not decided", short(a))
                    continue
                ctx.check(var is not None, gs, e.node, "a session starts where the accumulated offset stands", "Session(session_start_time=<running offset>)", short(a))
            if var is None:
                continue
            ctx.check(l.init.get(var) == ("const", 0), gs, l.node, "the first session starts at 0", "0", short(l.init.get(var)))
            wants = {poly_of(("bin", "+", l.phi[var], ("sub", ("sym", f"{t}∈{l.loopid}"), ("const", "iterationSteps")))) for t in l.target}
            for bp in l.paths:
                if bp.exit[0] == "raise":
                    continue
                got = bp.env.get(var)
                ctx.check(got is not None and poly_of(strip_ver(got)) in wants, gs, l.node, "next start = this start + this session's iterationSteps", f"{var} + session_setting['iterationSteps']", short(got))
    ctx.require(found, "_generate_sessions: Session construction loop not found")
    ss = ctx.func("Session.setup")
    for p in normal_paths(ctx.paths(ss.qualname)):
        st = stores(p, "iteration_steps")
        ok = len(st) == 1 and any(key(strip_ver(s)) in ("settings['iterationSteps']", "settings.get('iterationSteps')") for s in subterms(st[0].value))
        ctx.check(ok, ss, ss.node, "the session length is the same configured value the offsets accumulate", "self.iteration_steps = int(settings['iterationSteps'])", "; ".join(short(e.value) for e in st))
        break


def _is_future_guard(c: Term, pol: bool, idx: Term) -> bool:
    """decision `idx > self.time` taken as false (scalar or aggregated over an iterable idx)."""
    c = strip_ver(c)
    idx = strip_ver(idx)
    now = ("attr", ("sym", "self"), "time")
    if c == ("cmp", "<", now, idx) and not pol:
        return True
    from ..kit import forall_pred

    fa = forall_pred(c, pol)
    if fa is not None:
        pred, gens = fa
        if len(gens) == 1 and not gens[0][2] and strip_ver(gens[0][1]) == idx and len(gens[0][0]) == 1:
            b = ("bound", gens[0][0][0])
            # for every t: not (now < t)
            if pred in (("not", ("cmp", "<", now, b)), ("cmp", "<=", b, now)):
                return True
    if c[0] == "cmp" and c[1] == "<" and c[2] == now and c[3] == ("call", ("name", "max"), (idx,), (), None) and not pol:
        return True
    return False


@rule("C06.R4", "every series read is either for the current time or dominated by a `later than now -> refuse` test; every public getter reads its own series through such an accessor", "T3 guard + T9 table", floor=19)
def r4(ctx: Ctx) -> None:
    now = ("attr", ("sym", "self"), "time")
    f = ctx.func("Market._extract_data_by_time")
    for p in ctx.paths(f.qualname):
        if p.exit[0] != "return":
            continue
        r = strip_ver(p.exit[1])
        ok = r[0] == "sub" and key(r[1]) == "parameters"
        idx = r[2] if ok else None
        ok = ok and (idx == now or any(_is_future_guard(c, pol, idx) for c, pol, _ in p.conds))
        if ok and idx != now:
            ok = key(idx) == "time"
        ctx.check(ok, f, f.node, "single-time accessor refuses the future", "parameters[self.time] | parameters[time] under `time > self.time -> raise`", p.describe()[:200])
    f = ctx.func("Market._extract_sequential_data_by_time")
    for p in ctx.paths(f.qualname):
        if p.exit[0] != "return":
            continue
        r = strip_ver(p.exit[1])
        ok = r[0] == "comp" and len(r[3]) == 1 and not r[3][0][2] and len(r[3][0][0]) == 1 and r[2] == ("sub", ("sym", "parameters"), ("bound", r[3][0][0][0]))
        src = r[3][0][1] if ok else None
        if ok:
            default = ("call", ("name", "range"), (("bin", "+", now, ("const", 1)),), (), None)
            ok = any(_is_future_guard(c, pol, src) for c, pol, _ in p.conds) and (src == default or key(src) == "times")
        ctx.check(ok, f, f.node, "multi-time accessor refuses the future", "[parameters[t] for t in times] under `any t > self.time -> raise`", p.describe()[:200])
    f = ctx.func("Market.get_vwap")
    for p in ctx.paths(f.qualname):
        if p.exit[0] != "return":
            continue
        sl = [s for s in subterms(strip_ver(p.exit[1])) if s[0] == "slice"] + [s for c, _, _ in p.conds for s in subterms(strip_ver(c)) if s[0] == "slice"]
        ok = bool(sl)
        guarded_t = any(_is_future_guard(c, pol, ("sym", "time")) for c, pol, _ in p.conds)
        for s in sl:
            if s[1] is not None or s[3] is not None or s[2] is None:
                ok = False
                continue
            # the slice [: hi] reads slots 0 .. hi-1; need hi - 1 <= now
            d_now = diff_const(s[2], now)
            d_t = diff_const(s[2], ("sym", "time"))
            if d_now is not None and d_now <= 1:
                continue
            if d_t is not None and d_t <= 1 and guarded_t:
                continue
            ok = False
        ctx.check(ok, f, f.node, "VWAP sums only slots up to a time that is not in the future", "[: t+1] with t = now or `t > self.time -> raise`", p.describe()[:200], guard="text", guard_text=p.describe())
    # getter table
    for g, (series, allow) in GETTERS.items():
        m = ctx.func(f"Market.{g}")
        many = g.endswith("s")
        acc = "_extract_sequential_data_by_time" if many else "_extract_data_by_time"
        arg0 = "times" if many else "time"
        for p in ctx.paths(m.qualname):
            r = p.exit[1] if p.exit[0] == "return" else None
            ok = r is not None and r[0] == "call" and key(strip_ver(r[1])) == f"self.{acc}"
            if ok:
                a0 = r[2][0] if r[2] else dict(r[3]).get(arg0)
                a1 = r[2][1] if len(r[2]) > 1 else dict(r[3]).get("parameters")
                an = r[2][2] if len(r[2]) > 2 else dict(r[3]).get("allow_none", ("const", False))
                ok = a0 is not None and key(a0) == arg0 and a1 is not None and key(strip_ver(a1)) == f"self.{series}" and an == ("const", allow)
            from ..kit import unknown_series

            if not ok and r is not None and unknown_series(r):
                ctx.unrec(m, m.node, f"{g} reads {series} through the guarded accessor", "the accessor is given something that stands in for the series (a list made on the way): what it holds is not decided", short(r))
                continue
            if not ok and r is not None and strip_ver(r)[0] == "call" and key(strip_ver(r)[1]).endswith("fundamentals.get_fundamental_price") and not many:
                # the getter answers from the generator instead of from what the market recorded: that is access to the future
                # unless the time asked for is pinned (step 0: the configured starting value) or bounded by the clock on this path
                rr = strip_ver(r)
                targ = dict(rr[3]).get("time") or (rr[2][-1] if rr[2] else None)
                bounded = any(strip_ver(c)[0] == "cmp" and strip_ver(c)[1] in ("<", "<=", ">", ">=") and {key(strip_ver(c)[2]), key(strip_ver(c)[3])} >= {"time", "self.time"} for c, _, _ in p.conds)
                if targ is not None and strip_ver(targ) == ("const", 0):
                    ctx.holds(m, m.node, f"{g} reads {series} through the guarded accessor", expected="recorded values only", found="the generator is asked for step 0 only (the configured starting value)")
                    continue
                if targ is not None and not bounded and any(x == ("sym", "time") for x in subterms(strip_ver(targ))):
                    ctx.violated(m, m.node, f"{g} reads {series} through the guarded accessor", f"self.{acc}({arg0}, self.{series}, allow_none={allow}): a time later than the clock is refused", f"{short(r)} on a path that never compares `time` with the clock: a query for a later time is answered from the generator ({p.describe()[:120]})", novel_ok=True)
                    continue
                ctx.unrec(m, m.node, f"{g} reads {series} through the guarded accessor", "the getter answers from the generator under conditions the rule does not model", short(r))
                continue
            ctx.check(ok, m, m.node, f"{g} reads {series} through the guarded accessor", f"self.{acc}({arg0}, self.{series}, allow_none={allow})", short(r))
    # nobody else indexes the series for reading with a foreign index: covered by R5 (stores) and by
    # the accessor rule above; direct reads inside Market use self.time or self.time - 1 (checked in C08.R3).


@rule("C06.R5", "series slots are written only at the current time; storage grows by appending fresh slots", "T7 index identity + prefix-preserving rebinding", floor=20)
def r5(ctx: Ctx) -> None:
    funcs = []
    for s in SERIES:
        for w in ctx.cg.writers_of("Market", s):
            if w.func not in funcs:
                funcs.append(w.func)
    nst = 0
    from ..kit import is_helper

    def series_of(base: Term) -> List[str]:
        """the series an element store goes into: self.<series>, one of two chosen by a conditional
        expression, or a series that is being extended (self.<series> + fresh slots)"""
        b = strip_ver(base)
        if b[0] == "attr" and b[2] in SERIES:
            return [b[2]] if key(strip_ver(b[1])) == "self" else ["?" + b[2]]
        if b[0] == "ifexp":
            l_, r_ = series_of(b[2]), series_of(b[3])
            return l_ + r_ if l_ and r_ else []
        if b[0] == "bin" and b[1] == "+":
            return series_of(b[2])
        return []

    for f in funcs:
        if is_helper(f) and ctx.cg.sites_calling(f.qualname) and all(s_.caller.cls is f.cls for s_ in ctx.cg.sites_calling(f.qualname)):
            for s_ in ctx.cg.sites_calling(f.qualname):
                if s_.caller not in funcs:
                    funcs.append(s_.caller)
            # a private helper of Market: its stores are judged in its callers, where its arguments are known;
            # a store at a fixed slot (an index that does not depend on anything it is given) is judged here
            for hp in ctx.paths(f.qualname):
                for e in hp.walk_events(True):
                    if e.kind == "store" and e.attr is None and series_of(e.base) and strip_ver(e.index)[0] == "const":
                        guards = [c for c, _, _ in hp.conds if any(x[0] == "attr" and x[2] in SERIES for x in subterms(strip_ver(c))) and not any(key(x) == "time" for x in subterms(strip_ver(c)))]
                        if guards:
                            ctx.unrec(f, e.node, f"store into {series_of(e.base)[0]} at the current time", "a fixed slot is written under a condition on the state of the series (e.g. only when storage is allocated for the first time): whether that can hit a recorded slot is not decided", short(guards[0])[:100])
                            continue
                        ctx.violated(f, e.node, f"store into {series_of(e.base)[0]} at the current time", "index == self.time", f"slot {short(e.index)} is written whenever {f.name} runs, whatever the time: a recorded value is overwritten later")
            continue
        for p in ctx.paths(f.qualname):
            if p.exit[0] == "raise":
                continue
            now: Term = ("attr", ("sym", "self"), "time")
            for e in p.walk_events(True):
                if e.kind == "store" and e.attr == "time" and key(strip_ver(e.base)) == "self":
                    now = e.value
                if e.kind == "store" and e.attr is None and series_of(e.base):
                    sn = series_of(e.base)
                    if any(x.startswith("?") for x in sn):
                        ctx.violated(f, e.node, f"element store into {sn[0][1:]} of another object", "markets write only their own series", short(e.target))
                        continue
                    nst += 1
                    d = diff_const(strip_ver(e.index), strip_ver(now)) if e.index[0] != "slice" else None
                    if not (d is not None and d == 0) and strip_ver(e.index)[0] == "const":
                        guards = [c for c, _, _ in p.conds if any(x[0] == "attr" and x[2] in SERIES for x in subterms(strip_ver(c))) and not any(key(x) == "time" for x in subterms(strip_ver(c)))]
                        if guards:
                            ctx.unrec(f, e.node, f"store into {' / '.join(sn)} at the current time", "a fixed slot is written under a condition on the state of the series (e.g. only when storage is allocated for the first time): whether that can hit a recorded slot is not decided", short(guards[0])[:100])
                            continue
                    if not (d is not None and d == 0) and getattr(e, "cur", None) is not None:
                        # writing back the value the slot already holds (`s[i] -= 0`, `s[i] = s[i]`) changes no recorded value
                        v_, c_ = strip_ver(e.value), strip_ver(e.cur)
                        if v_ == c_ or (v_[0] == "bin" and v_[1] in ("+", "-") and strip_ver(v_[2]) == c_ and strip_ver(v_[3]) in (("const", 0), ("const", 0.0))):
                            ctx.holds(f, e.node, f"store into {' / '.join(sn)}: the slot keeps its value", "the stored value is the slot's current value", short(v_))
                            continue
                    ctx.check(d is not None and d == 0, f, e.node, f"store into {' / '.join(sn)} at the current time", f"index == {short(now)}", short(e.index))
                if e.kind == "store" and e.attr in SERIES:
                    q = f.qualname
                    if f.name == "__init__":
                        continue
                    v = e.value
                    lit = None
                    for n in p.walk_events(True):
                        if n.kind == "note" and n.data.get("what") == "alloc" and n.data.get("sym") == v:
                            lit = n.data["literal"]
                    if f.name == "setup" and lit is not None and lit[0] == "list" and len(lit[1]) == 1:
                        ctx.holds(f, e.node, f"{e.attr} initialised with the configured time-0 value in setup", expected="[initial]", found=short(lit))
                        continue
                    ok = v[0] == "bin" and v[1] == "+" and strip_ver(v[2]) == ("attr", ("sym", "self"), e.attr) and not any(
                        s[0] == "attr" and s[2] in SERIES for s in subterms(strip_ver(v[3])) if not (s[0] == "attr" and s[2] == e.attr and _only_len(v[3], s)))
                    ctx.check(ok, f, e.node, f"{e.attr} is only ever extended: new = old + fresh slots", f"self.{e.attr} = self.{e.attr} + [fresh ...]", short(v))
                if e.kind == "call" and e.data.get("mutates") is not None:
                    mb = strip_ver(e.data["mutates"])
                    if mb[0] == "attr" and mb[2] in SERIES and e.name not in ("append", "extend"):
                        ctx.violated(f, e.node, f"in-place mutation of {mb[2]}", "series are only extended or written at the current slot", f".{e.name}()")
                if e.kind == "del" and e.attr is None and e.base[0] == "attr" and e.base[2] in SERIES:
                    ctx.violated(f, e.node, f"deletion from {e.base[2]}", "recorded slots are never deleted", short(e.target))
    ctx.require(nst >= 10, "fewer series stores than confirmed by reading")
    # _fill_until is a no-op when the slot exists
    f = ctx.func("Market._fill_until")
    for p in ctx.paths(f.qualname):
        sts = [e for e in p.events if e.kind == "store"]
        if not sts:
            ok = False
            for c, pol, _ in p.conds:
                try:
                    nf = nf_cmp(strip_ver(c) if pol else ("not", strip_ver(c)), integer=True)
                except Unrecognised:
                    continue
                if nf[0] == "<=0" and "time" in nf[1] and "len(self." in nf[1]:
                    ok = True
            ctx.check(ok, f, f.node, "storage is left untouched when the requested slot exists", "len(series) >= time + 1 -> return", p.describe()[:160])


def _only_len(t: Term, s: Term) -> bool:
    """series attribute `s` occurs in `t` only as the argument of len()."""
    t = strip_ver(t)
    for x in subterms(t):
        if x[0] == "call" and key(x[1]) == "len" and x[2] and x[2][0] == s:
            return True
    return False


@rule("C06.R6", "both order books follow the market clock: every clock method hands each book exactly the market's new time, and a book stores exactly the time it is given", "T4 exactly-once + T7 + T1", floor=6)
def r6(ctx: Ctx) -> None:
    BST = "OrderBook._set_time"
    for q in (UT, "Market._set_time"):
        f = ctx.func(q)
        n = 0
        for p in normal_paths(ctx.paths(q)):
            n += 1
            ts = [e for e in stores(p, "time", into_loops=False) if e.owner in ("Market", "?") and key(strip_ver(e.base)) == "self"]
            sets = [e for e in calls(p, into_loops=False) if calls_target(e, BST)]
            if len(ts) != 1:
                ctx.violated(f, f.node, f"{q}: the market clock is written once", "one store to self.time", f"{len(ts)} store(s)")
                continue
            new = strip_ver(ts[0].value)
            got = sorted(key(strip_ver(e.recv)) for e in sets if e.recv is not None)
            ok = got == ["self.buy_order_book", "self.sell_order_book"]
            args_ok = all(poly_of(strip_ver(kw(e, "time", 0) or NONE)) == poly_of(new) for e in sets)
            after = all(p.events.index(e) > p.events.index(ts[0]) for e in sets)
            ctx.check(ok and args_ok and after, f, ts[0].node, f"{q}: each book is set once to the market's new time", "buy_order_book._set_time(t'), sell_order_book._set_time(t') with t' the value just stored in self.time",
                      "; ".join(f"{short(e.recv)}._set_time({short(kw(e, 'time', 0))})" for e in sets) or "no book is told")
        ctx.require(n >= 1, f"{q}: no normal path")
    g = ctx.func(BST)
    for p in normal_paths(ctx.paths(BST)):
        ts = [e for e in stores(p, "time") if key(strip_ver(e.base)) == "self"]
        ok = len(ts) == 1 and strip_ver(ts[0].value) == ("sym", g.params[1] if len(g.params) > 1 else "time")
        ctx.check(ok, g, g.node, "a book stores exactly the time it is given", "self.time = time", "; ".join(short(e.value) for e in ts))
        reap = [e for e in calls(p) if e.name == "_check_expired_orders"]
        ctx.check(len(reap) == 1 and ts and p.events.index(reap[0]) > p.events.index(ts[0]), g, g.node, "expired orders are reaped against the new time", "self.time = time; self._check_expired_orders()", f"{len(reap)} reap call(s)")
    writer_allowlist(ctx, "OrderBook", "time", {"OrderBook.__init__": "constructor", BST: "setter used by the market", "OrderBook._update_time": "book-local step (no caller in pams)"})
    for s in ctx.cg.sites_calling(BST):
        ctx.check(caller_ok(ctx, s.caller, lambda h: h.qualname in (UT, "Market._set_time")), s.caller, s.node, f"caller of {BST}", "the market's clock methods", s.caller.qualname)


@rule("C06.H1", "mechanism shared with C18: a session lasts exactly the configured number of steps (the runner accumulates session start times from the same key)", "T8/T9 (same rule as C18.R5)", floor=5)
def h1(ctx: Ctx) -> None:
    from .c18 import r5 as session_keys_rule

    session_keys_rule(ctx)


@rule("C06.R7", "the recorded series of a market are read only by that market's own guarded accessors: nobody else indexes another market's series", "T2 who-may-read", floor=1)
def r7(ctx: Ctx) -> None:
    import ast as _ast

    n = 0
    for g in ctx.program.all_functions():
        for node in _ast.walk(g.node):
            if isinstance(node, _ast.Attribute) and node.attr in SERIES:
                n += 1
                own = isinstance(node.value, _ast.Name) and node.value.id == "self" and g.cls is not None and ctx.program.is_subclass(g.cls.name, "Market")
                if own:
                    continue
                ctx.violated(g, node, "a market's series is reached through its accessors (which refuse future times)", "market.get_<series>(time) / self.<series> inside Market", f"{_ast.unparse(node)} in {g.qualname}: the read bypasses the `later than now` test", guard="site")
    ctx.require(n >= 10, "series attribute accesses not found")
    ctx.holds(None, None, "no function outside Market reads a series attribute directly", "reads only via accessors", f"{n} accesses inspected")


@rule("C06.H2", "mechanism shared with C18: a session lasts the configured number of steps, 0 included (the value is not replaced or rejected through its truth value)", "T13 lint (same rule as C18.R10, Session only)", floor=1)
def h2(ctx: Ctx) -> None:
    from .events import check_or_defaults

    check_or_defaults(ctx, "Session", floor=1)
