"""C14 -- shocks hit only their target market, in their window, with their magnitude."""
from __future__ import annotations

from typing import Any, Dict, List, Optional, Tuple

from ..kit import path_text, iter_source, Ctx, alloc_literal, calls, kw, loops, normal_paths, poly_of, rule, short, stores
from ..paths import Event, Path
from ..terms import NONE, Term, key, strip_ver, subterms
from .events import declared_hooks, is_effect, occurrence_market_keys, target_guard

FPS, OMS = "FundamentalPriceShock", "OrderMistakeShock"
UNFILTERED = ("hooked_before_order", "hooked_after_order", "hooked_before_cancel", "hooked_after_cancel", "hooked_after_execution", "hooked_before_session", "hooked_after_session")


def _trigger_time_rule(ctx: Ctx, cname: str) -> None:
    f = ctx.func(f"{cname}.setup")
    n = 0
    for p in normal_paths(ctx.paths(f.qualname)):
        st = stores(p, "trigger_time")
        n += 1
        want = poly_of(("bin", "+", ("attr", ("attr", ("sym", "self"), "session"), "session_start_time"), ("sub", ("sym", "settings"), ("const", "triggerTime"))))
        ok = len(st) == 1 and poly_of(strip_ver(st[0].value)) == want
        ctx.check(ok, f, f.node, f"{cname}: trigger time counts from the start of the event's session", "self.session.session_start_time + settings['triggerTime']", "; ".join(short(e.value) for e in st))
        if not ok:
            break
    ctx.require(n >= 1, f"{cname}.setup: no normal path")


@rule("C14.R1", "fundamental price shock: hooked at market-step begin of its target instance for exactly the steps trigger .. trigger+length-1 of its session, scaling by 1 + rate; nothing when disabled", "T7 + T9", floor=5)
def r1(ctx: Ctx) -> None:
    _trigger_time_rule(ctx, FPS)
    f = ctx.func(f"{FPS}.setup")
    for p in normal_paths(ctx.paths(f.qualname)):
        tm = stores(p, "target_market")
        ok = len(tm) == 1 and key(strip_ver(tm[-1].value)) in ("self.simulator.name2market[settings['target']]", "self.simulator.name2market[self.target_market_name]")
        if ok and "target_market_name" in key(strip_ver(tm[-1].value)):
            nm = stores(p, "target_market_name")
            ok = len(nm) == 1 and key(strip_ver(nm[0].value)) == "settings['target']"
        ctx.check(ok, f, f.node, f"{FPS}: target market is the configured one", "simulator.name2market[settings['target']]", "; ".join(short(e.value) for e in tm))
        break
    nlen = 0
    for p in normal_paths(ctx.paths(f.qualname)):
        for e in stores(p, "shock_time_length"):
            nlen += 1
            v = strip_ver(e.value)
            good = ("settings['shockTimeLength']", "settings.get('shockTimeLength', self.shock_time_length)", "settings.get('shockTimeLength')")
            ok = key(strip_ver(e.base)) == "self" and key(v) in good
            if not ok and key(strip_ver(e.base)) == "self":
                # anything the value depends on besides the configured key (and the attribute's own default) is reported;
                # another spelling of the same read is not
                deps = {key(x) for x in subterms(v) if x[0] in ("attr", "sym") and key(x) not in ("settings", "self", "self.shock_time_length")}
                if not deps and "shockTimeLength" in key(v) and not any(x[0] == "bool" for x in subterms(v)):
                    ctx.unrec(f, e.node, f"{FPS}: the window length is the configured one, whatever the session", "the configured length is read in a form that is not modelled", short(v))
                    continue
            ctx.check(ok, f, e.node, f"{FPS}: the window length is the configured one, whatever the session", "self.shock_time_length = settings['shockTimeLength']", short(e.value))
    ctx.require(nlen >= 1, f"{FPS}.setup: shock_time_length is never configured")
    ws = {w.func.qualname for w in ctx.cg.writers_of(FPS, "shock_time_length")}
    ctx.check(ws <= {f"{FPS}.__init__", f"{FPS}.setup"}, f, f.node, f"{FPS}: nobody else adjusts the window length", "__init__, setup", str(sorted(ws)))
    hooks, disabled = declared_hooks(ctx, FPS)
    g = ctx.func(f"{FPS}.hook_registration")
    ctx.check(len(hooks) == 1 and hooks[0].returned, g, g.node, f"{FPS}: exactly one hook when enabled", "1 returned hook", f"{len(hooks)} constructed, returned={[h.returned for h in hooks]}")
    for h in hooks:
        en = [pol for c, pol, _ in h.path.conds if key(strip_ver(c)) == "self.is_enabled"]
        ok = h.hook_type == "market" and h.is_before is True and en == [True] and h.specific_instance is not None and key(strip_ver(h.specific_instance)) == "self.target_market" and (h.specific_class is None or h.specific_class == NONE)
        ctx.check(ok, g, h.event.node, f"{FPS}: market-step-begin hook filtered to the target instance, only when enabled", "EventHook(self, 'market', True, time=window, specific_instance=self.target_market) under is_enabled",
                  f"type={h.hook_type} before={h.is_before} instance={short(h.specific_instance)} enabled-cond={en}")
        t = strip_ver(h.time) if h.time is not None else NONE
        if t[0] != "comp" and h.time is not None:
            from ..kit import seq_value

            sv = seq_value(h.path, h.time)  # a list filled in a loop is the same sequence as the comprehension
            if sv is not None:
                t = strip_ver(sv)
        ok = t[0] == "comp" and len(t[3]) == 1 and not t[3][0][2] and len(t[3][0][0]) == 1
        if ok:
            b = ("bound", t[3][0][0][0])
            rng = t[3][0][1]
            ok = poly_of(t[2]) == poly_of(("bin", "+", ("attr", ("sym", "self"), "trigger_time"), b)) and rng == ("call", ("name", "range"), (("attr", ("sym", "self"), "shock_time_length"),), (), None)
        if not ok and any(x[0] == "comp" and any(gen[2] for gen in x[3]) for x in subterms(t)):
            # the window is built with a filter: whether the filter can remove a step of the window is arithmetic on times
            # (seed C14t cuts at the session end, its corrected version filters by a bound that is always true)
            ctx.unrec(g, h.event.node, f"{FPS}: window = trigger, trigger+1, ..., trigger+length-1", "the list of times is built with a filter condition: what it removes is not decided", short(t))
            continue
        ctx.check(ok, g, h.event.node, f"{FPS}: window = trigger, trigger+1, ..., trigger+length-1", "[self.trigger_time + i for i in range(self.shock_time_length)]", short(t))
    for p in disabled:
        lit = alloc_literal(p, p.exit[1])
        ctx.check(lit is not None and len(lit[1]) == 0 and not [e for e in p.walk_events() if is_effect(ctx, e)], g, g.node, f"{FPS}: no hook when disabled", "return []", short(lit))
    ctx.require(bool(disabled), f"{FPS}: disabled branch not found")
    h_ = ctx.func(f"{FPS}.hooked_before_step_for_market")
    n = 0
    for p in normal_paths(ctx.paths(h_.qualname)):
        cs = [e for e in calls(p) if e.name == "change_fundamental_price"]
        eff = [e for e in p.walk_events() if is_effect(ctx, e)]
        n += 1
        ok = len(cs) == 1 and len(eff) == 1 and key(strip_ver(cs[0].recv)) == "market" and poly_of(strip_ver(kw(cs[0], "scale", 0) or NONE)) == poly_of(("bin", "+", ("const", 1), ("attr", ("sym", "self"), "price_change_rate")))
        ctx.check(ok, h_, h_.node, f"{FPS}: one multiplication of the hooked market's fundamental by 1 + rate per firing", "market.change_fundamental_price(scale=1 + self.price_change_rate)", "; ".join(short(e.term) for e in cs) + f" ({len(eff)} effect(s))")
    ctx.require(n >= 1, f"{FPS}: handler has no normal path")
    st = ctx.func(f"{FPS}.setup")
    for p in normal_paths(ctx.paths(st.qualname)):
        r = stores(p, "price_change_rate")
        ctx.check(len(r) == 1 and key(strip_ver(r[0].value)) == "settings['priceChangeRate']", st, st.node, f"{FPS}: rate is the configured one", "settings['priceChangeRate']", "; ".join(short(e.value) for e in r))
        break


@rule("C14.R2", "order-mistake shock: hooked before orders at its trigger time; replaces one order, once, by a limit order of the configured volume and lifetime priced at market price x (1 + rate), buying iff rate > 0; nothing when disabled", "T6/T7 + once-flag typestate", floor=6)
def r2(ctx: Ctx) -> None:
    _trigger_time_rule(ctx, OMS)
    hooks, disabled = declared_hooks(ctx, OMS)
    g = ctx.func(f"{OMS}.hook_registration")
    ctx.check(len(hooks) == 1 and hooks[0].returned, g, g.node, f"{OMS}: exactly one hook when enabled", "1 returned hook", f"{len(hooks)} constructed")
    for h in hooks:
        en = [pol for c, pol, _ in h.path.conds if key(strip_ver(c)) == "self.is_enabled"]
        lit = alloc_literal(h.path, h.time) if h.time is not None else None
        ok = h.hook_type == "order" and h.is_before is True and en == [True] and lit is not None and [key(strip_ver(x)) for x in lit[1]] == ["self.trigger_time"]
        ctx.check(ok, g, h.event.node, f"{OMS}: order-before hook at exactly the trigger time, only when enabled", "EventHook(self, 'order', True, time=[self.trigger_time]) under is_enabled", f"type={h.hook_type} before={h.is_before} time={short(lit) if lit is not None else short(h.time)} enabled-cond={en}", guard="text")
    for p in disabled:
        lit = alloc_literal(p, p.exit[1])
        ctx.check(lit is not None and len(lit[1]) == 0, g, g.node, f"{OMS}: no hook when disabled", "return []", short(lit))
    ctx.require(bool(disabled), f"{OMS}: disabled branch not found")
    f = ctx.func(f"{OMS}.hooked_before_order")
    mk = occurrence_market_keys(f)
    flag: Optional[str] = None
    neff = 0
    for p in ctx.paths(f.qualname):
        if p.exit[0] == "raise":
            continue
        sts = [e for e in p.walk_events() if e.kind == "store"]
        order_sts = [e for e in sts if key(strip_ver(e.base)) == "order"]
        self_sts = [e for e in sts if key(strip_ver(e.base)) == "self"]
        if order_sts:
            neff += 1
            got = {e.attr: strip_ver(e.value) for e in order_sts}
            rate = ("attr", ("sym", "self"), "price_change_rate")
            okf = set(got) >= {"is_buy", "kind", "volume", "price", "ttl"}  # further fields: C14.R4 says which must be there
            okf = okf and got.get("is_buy") in (("cmp", ">", rate, ("const", 0.0)), ("cmp", ">", rate, ("const", 0)), ("cmp", "<", ("const", 0.0), rate), ("cmp", "<", ("const", 0), rate))
            okf = okf and key(got.get("kind", NONE)).endswith("LIMIT_ORDER") and key(got.get("volume", NONE)) == "self.order_volume" and key(got.get("ttl", NONE)) == "self.order_time_length"
            pr = got.get("price", NONE)
            okp = False
            if pr[0] == "bin" and pr[1] == "*":
                for a, b in ((pr[2], pr[3]), (pr[3], pr[2])):
                    if poly_of(b) == poly_of(("bin", "+", ("const", 1), rate)) and a[0] == "call" and key(a[1]).split(".")[-1] in ("_extract_data_by_time", "get_market_price") and key(a[1][1]) in mk + ["self.target_market"]:
                        tm = a[2][0] if a[2] else dict(a[3]).get("time", NONE)
                        series_ok = key(a[1]).endswith("get_market_price") or (len(a[2]) > 1 and key(a[2][1]).endswith("._market_prices"))
                        okp = tm == NONE and series_ok
            from ..kit import unknown_series

            if okf and not okp and unknown_series(pr):
                ctx.unrec(f, f.node, f"{OMS}: overridden fields", "the market price is read from something that stands in for the recorded series (not the series itself)", key(pr)[:120])
                continue
            ctx.check(okf and okp, f, f.node, f"{OMS}: overridden fields", "is_buy = rate > 0; kind = LIMIT_ORDER; volume = order_volume; ttl = order_time_length; price = <order's market>.get_market_price() * (1 + rate)",
                      ", ".join(f"{k}={key(v)[:70]}" for k, v in sorted(got.items())), guard="text")
            # once-flag: tested false before, set true on this path, nothing else on self
            fl = [e for e in self_sts if e.value == ("const", True)]
            tested = [key(strip_ver(c)) for c, pol, _ in p.conds if not pol and strip_ver(c)[0] == "attr" and strip_ver(c)[1] == ("sym", "self")]
            ok = len(fl) == 1 and fl[0].attr is not None and f"self.{fl[0].attr}" in tested
            if ok:
                flag = fl[0].attr
            ctx.check(ok, f, f.node, f"{OMS}: the replacement happens only while the once-flag is unset and sets it", "if not self.<flag>: ...; self.<flag> = True", f"flag stores={[short(e.target) for e in fl]} tested-false={tested} on {p.describe()[:240]}", guard="text",
                      guard_text=" ".join(short(c) for c, _, _ in p.conds if not any(t_ in short(c) for t_ in tested) and not any(short(e.target) in short(c) for e in fl)))
            # target discipline is C14.R3
        else:
            # no replacement on this path -> the flag must not be consumed
            used = [e for e in self_sts if e.value == ("const", True)]
            ctx.check(not used, f, f.node, f"{OMS}: the once-flag is consumed only by an actual replacement", "no flag write on paths that leave the order untouched", p.describe()[:120] + f" sets {[short(e.target) for e in used]}")
    ctx.require(neff >= 1, f"{OMS}: no replacing path")
    if flag is not None:
        init = ctx.func(f"{OMS}.__init__")
        ok = any(e.attr == flag and e.value == ("const", False) for p in ctx.paths(init.qualname) for e in stores(p))
        ctx.check(ok, init, init.node, f"{OMS}: once-flag starts unset", f"self.{flag} = False", "initialised False" if ok else "not initialised False")
        ws = [w for w in ctx.cg.writes if w.attr == flag and w.func.cls is not None and w.func.cls.name == OMS]
        ctx.check({w.func.name for w in ws} <= {"__init__", "hooked_before_order"}, f, f.node, f"{OMS}: once-flag has no other writer", "__init__, hooked_before_order", str(sorted({w.func.qualname for w in ws})))
    st = ctx.func(f"{OMS}.setup")
    for p in normal_paths(ctx.paths(st.qualname)):
        want = {"price_change_rate": "settings['priceChangeRate']", "order_volume": "settings['orderVolume']", "order_time_length": "settings['orderTimeLength']", "target_market": "self.simulator.name2market[settings['target']]"}
        got = {e.attr: key(strip_ver(e.value)) for e in stores(p) if e.attr in want}
        ctx.check(got == want, st, st.node, f"{OMS}: parameters are the configured ones", str(want), str(got))
        break


@rule("C14.R3", "handlers of hooks without a dispatcher-side market filter act only after testing that the occurrence's market is one of the event's targets; market-step hooks are registered per target instance", "T3 guard dominates effects (target-filter discipline)", floor=5)
def r3(ctx: Ctx) -> None:
    check_target_discipline(ctx, [c for c in ctx.program.subclasses("EventABC", strict=True)])


def check_target_discipline(ctx: Ctx, classes: List[str]) -> None:
    p = ctx.program
    n = 0
    for cname in classes:
        ci = p.cls(cname)
        has_targets = any("target_market" in a for a in ctx.ctab.attrs.get(cname, {}))
        if not has_targets:
            continue
        hooks, _ = declared_hooks(ctx, cname) if "hook_registration" in ci.methods else ([], [])
        for m in ci.methods.values():
            if not m.name.startswith("hooked_"):
                continue
            mk = occurrence_market_keys(m)
            if m.name.endswith("_step_for_market"):
                # dispatcher-side: every market hook of this class must carry specific_instance = a target
                mh = [h for h in hooks if h.hook_type == "market" and h.is_before == m.name.startswith("hooked_before")]
                for h in mh:
                    inst = strip_ver(h.specific_instance) if h.specific_instance is not None else NONE
                    ok = key(inst).startswith("self.target_market") or (h.in_loop is not None and inst[0] in ("sym", "bound") and key(iter_source(h.in_loop.iter)).startswith("self.target_markets"))
                    n += 1
                    ctx.check(ok, m, h.event.node, f"{cname}: market-step hook is registered for a target instance", "specific_instance = target market", short(inst))
                if mh:
                    continue
            if not mk:
                continue
            for top in ctx.paths(m.qualname):
                for path, outer_conds, elems in _flatten(top):
                    effs = [e for e in path.events if is_effect(ctx, e)]
                    if not effs:
                        continue
                    n += 1
                    conds = outer_conds + [(c, pol) for c, pol, _ in path.conds]
                    ok = any(target_guard(c, pol, mk, elems) for c, pol in conds)
                    ctx.check(ok, m, effs[0].node, f"{cname}.{m.name}: effects happen only for a target market", "a decision `occurrence's market is (in) self.target_market(s)` taken true before the first effect",
                              "guarded" if ok else f"{len(effs)} effect(s), first: {repr(effs[0])[:80]}; decisions: {[('' if pol else 'not ') + key(strip_ver(c))[:60] for c, pol in conds][:4]}", guard="text", guard_text=repr(effs[0])[:200])
    ctx.require(n >= 4, "target-filter discipline: fewer handlers with effects than confirmed by reading")


def _flatten(top: Path, outer: Optional[List[Tuple[Term, bool]]] = None, elems: Optional[Dict[str, Term]] = None):
    outer = list(outer or [])
    elems = dict(elems or {})
    yield top, outer, elems
    for e in top.events:
        if e.kind == "loop":
            el = dict(elems)
            for t in e.target:
                el[f"{t}∈{e.loopid}"] = e.iter
            for bp in e.paths:
                yield from _flatten(bp, outer + [(c, pol) for c, pol, _ in top.conds], el)


@rule("C14.H1", "mechanism shared with C12: the shock itself multiplies the current fundamental, records it at `now` and regenerates the future from it", "T7 (same rule as C12.R3)", floor=2)
def h1(ctx: Ctx) -> None:
    from .c12 import r3 as shock_rule

    shock_rule(ctx)


@rule("C14.H2", "mechanism shared with C13: market-step-begin and order-before hooks reach every hook registered for the step, each filtered on its own (one shock never hides another)", "T6 + T7 (same rule as C13.R2, rows market/before and order/before)", floor=8)
def h2(ctx: Ctx) -> None:
    from .c13 import check_triggers

    check_triggers(ctx, {("market", "before"), ("order", "before")})


@rule("C14.H3", "mechanism shared with C12: after a shock the future is regenerated from the level recorded at the regeneration point", "T7 (same rule as C12.R1)", floor=4)
def h3(ctx: Ctx) -> None:
    from .c12 import r1 as regeneration_rule

    regeneration_rule(ctx)


@rule("C14.H4", "mechanism shared with C13: a hook is entered once, under its own times only, in buckets of their own", "T3 + T6 (same rule as C13.R4)", floor=3)
def h4(ctx: Ctx) -> None:
    from .c13 import check_registration

    check_registration(ctx)


@rule("C14.H5", "mechanism shared with C13: every shock's hooks are registered, once, for the shock that declared them (whatever session it belongs to)", "T4 + closure capture (same rule as C13.R5)", floor=3)
def h5(ctx: Ctx) -> None:
    from .c13 import r5 as registration_rule

    registration_rule(ctx)


@rule("C14.H6", "mechanism shared with C18: the target, rate and window a shock runs with are the configured ones (nearest definition wins along an `extends` chain)", "T4 loop structure (same rule as C18.R1)", floor=5)
def h6(ctx: Ctx) -> None:
    from .c18 import r1 as inheritance_rule

    inheritance_rule(ctx)


@rule("C14.H7", "mechanism shared with C13: the market-step triggers are called at every step of every session, for every market", "T4 (the step part of C13.R3)", floor=1)
def h7(ctx: Ctx) -> None:
    from .c13 import check_call_sites

    check_call_sites(ctx, {"step"})


@rule("C14.H8", "mechanism shared with C06: a shock's times count from the start of its session, which is the sum of the lengths of all sessions before it", "T7 (same rule as C06.R3)", floor=4)
def h8(ctx: Ctx) -> None:
    from .c06 import r3 as session_span_rule

    session_span_rule(ctx)


@rule("C14.R4", "the mistaken order is determined by the shock alone: every option of an order that its submitter chooses through the constructor and that the engine reads is overridden by the replacement (the rest identifies the order: owner, market, id, acceptance time)", "T1 field coverage: constructor parameters of Order vs fields written by the replacement", floor=1)
def r4(ctx: Ctx) -> None:
    import ast as _ast

    p = ctx.program
    ini = ctx.func("Order.__init__")
    f = ctx.func(f"{OMS}.hooked_before_order")
    params = [x for x in ini.params if x != "self"]
    field_of: Dict[str, str] = {}
    for pa in ctx.paths("Order.__init__"):
        if pa.exit[0] == "raise":
            continue
        for e in pa.walk_events():
            if e.kind == "store" and e.attr is not None and key(strip_ver(e.base)) == "self":
                for x in params:
                    if key(strip_ver(e.value)) == x:
                        field_of[x] = e.attr
    ctx.require(len(field_of) >= 5, "C14.R4: Order.__init__ no longer stores its parameters as fields")
    overridden: Optional[set] = None
    for pa in ctx.paths(f.qualname):
        if pa.exit[0] == "raise":
            continue
        got = {e.attr for e in pa.walk_events() if e.kind == "store" and e.attr is not None and key(strip_ver(e.base)) == "order"}
        if got:
            overridden = got if overridden is None else (overridden & got)
    ctx.require(bool(overridden), f"{OMS}.hooked_before_order: no path writes fields of the order")
    assert overridden is not None
    identity = {"agent_id", "market_id", "order_id", "placed_at"}
    inherited = []
    for x in params:
        a = field_of.get(x)
        if a is None:
            ctx.unrec(ini, ini.node, f"constructor parameter `{x}` of Order", "it is not stored as a field of its own: what the replacement would have to override is not decided")
            continue
        if a in overridden or a in identity:
            continue
        owners = [c for c in p.classes if c != "Order" and not p.is_subclass(c, "Order") and a in ctx.ctab.attrs.get(c, {})]
        readers = []
        for g in p.all_functions():
            if g.cls is not None and (g.cls.name == "Order" or p.is_subclass(g.cls.name, "Order")):
                continue
            if g.qualname.startswith(OMS + "."):
                continue
            for n in _ast.walk(g.node):
                if isinstance(n, _ast.Attribute) and n.attr == a and isinstance(n.ctx, _ast.Load) and not (isinstance(n.value, _ast.Name) and n.value.id == "self"):
                    readers.append(g.qualname)
                    break
        if not readers:
            continue  # an option nothing in the engine reads cannot change what happens to the mistaken order
        if owners:
            ctx.unrec(f, f.node, f"Order.{a} is not overridden by the replacement", f"other classes ({', '.join(owners[:3])}) have an attribute of that name: whether {', '.join(readers[:3])} read the order's is not decided")
            continue
        inherited.append(f"{a} (read by {', '.join(sorted(set(readers))[:3])})")
    ctx.check(not inherited, f, f.node, f"{OMS}: the replacement overrides every submitter-chosen option of the order that the engine reads", f"fields written: {', '.join(sorted(overridden))}; kept: {', '.join(sorted(identity))}", ("the mistaken order inherits from the replaced order: " + "; ".join(inherited)) if inherited else f"all of {', '.join(sorted(set(field_of.values()) - identity))} overridden")


@rule("C14.H9", "mechanism shared with C06: what a market records as fundamental price on a clock tick is the generator's value for time + 1, asked for at that moment (so a path rescaled or regenerated by a shock is the one recorded from the next step on)", "T5 + T7 (same rule as C06.R2)", floor=3)
def h9(ctx: Ctx) -> None:
    from .c06 import r2 as step_rule

    step_rule(ctx)
