"""C05 -- cash and shares are conserved; holdings equal endowment plus own fills."""
from __future__ import annotations

from typing import Dict, List, Optional

from ..kit import alloc_literal, caller_ok, Ctx, calls, calls_target, kw, loops, normal_paths, poly_of, rule, short, stores
from ..paths import Event, Path
from ..terms import subterms, NONE, Term, key, poly_key, strip_ver, to_poly, _padd
from .c04 import writer_allowlist

UPD = "Simulator._update_agents_for_execution"
HO = "SequentialRunner._handle_orders"


def _delta(e: Event) -> Optional[Term]:
    """store of `cur (+|-) d` where cur is the value the target holds at the moment of the
    store -> signed polynomial of d; None when the update is not of that shape (e.g. it
    adds to a stale copy read before another, possibly aliasing, write)."""
    v, cur = e.value, e.cur
    if v[0] != "bin" or v[1] not in ("+", "-"):
        return None
    if v[2] == cur:
        return v[3] if v[1] == "+" else ("un", "-", v[3])
    if v[1] == "+" and v[3] == cur:
        return v[2]
    return None


@rule("C05.R1", "per fill: buyer pays price*volume, seller receives the same amount; buyer gains volume shares of the fill's market, seller loses them; each update applies to the holding's current value", "T7 symbolic cancellation / T8 mirror", floor=4)
def r1(ctx: Ctx) -> None:
    f = ctx.func(UPD)
    n = 0
    for p in normal_paths(ctx.paths(UPD)):
        lps = [l for l in loops(p) if key(strip_ver(l.iter)) == "execution_logs"]
        # the modelled shape: the holdings are updated inside the one pass over the logs.  Anything else
        # (transfers collected first and applied later, closures, netting per agent) is either positively
        # wrong (closures over the loop variable) or a shape this rule does not decide.
        from ..kit import late_bound

        shaped = len(lps) == 1 and len(loops(p)) == 1
        for l in lps:
            for bp in l.paths:
                notes, captured = late_bound(l, bp)
                if captured:
                    shaped = True  # reported below, per fill
                elif notes:
                    shaped = False
        if len(lps) == 1 and not any(e.kind == "store" and (e.attr == "cash_amount" or (e.attr is None and e.base[0] == "attr" and e.base[2] == "asset_volumes")) for bp in lps[0].paths for e in bp.events) \
                and not any(late_bound(lps[0], bp)[1] for bp in lps[0].paths):
            shaped = False
        if not lps and not loops(p) and any("execution_logs" in key(strip_ver(c)) for c, _, _ in p.conds):
            shaped = False  # a special case decided on the number of logs (empty round, single fill) handled without the pass
        if not shaped and (lps or loops(p) or p.conds):
            ctx.unrec(f, f.node, "holdings are updated fill by fill inside one pass over the round's logs", "the updates are collected, netted or deferred and applied outside that pass: this form is not modelled")
            n += 1
            continue
        ctx.check(len(lps) == 1, f, f.node, "one pass over the round's execution logs", "for log in execution_logs", f"{len(lps)} loop(s)")
        for l in lps:
            log = ("sym", f"{l.target[0]}∈{l.loopid}")
            for bp in l.paths:
                n += 1
                notes, captured = late_bound(l, bp)
                if captured:
                    ctx.violated(f, notes[0].node, "each fill's transfer uses that fill's own record and parties", "values bound when the transfer is created", f"the transfer is deferred in a closure over the loop variable(s) {', '.join(captured)}: when the closures run, every one of them applies the last fill")
                    continue
                buyer = ("sub", ("attr", ("sym", "self"), "id2agent"), ("attr", log, "buy_agent_id"))
                seller = ("sub", ("attr", ("sym", "self"), "id2agent"), ("attr", log, "sell_agent_id"))

                def same_party(c: Term) -> bool:
                    c = strip_ver(c)
                    return c[0] == "cmp" and c[1] in ("is", "==") and ({c[2], c[3]} == {buyer, seller} or {c[2], c[3]} == {("attr", log, "buy_agent_id"), ("attr", log, "sell_agent_id")})

                self_conds = [(c, pol) for c, pol, _ in bp.conds if same_party(c)]
                if len(self_conds) == 1 and len(bp.conds) == 1 and self_conds[0][1] is True:
                    # buyer and seller are one agent: +pv-pv and +v-v cancel, so leaving the holdings alone is the same fold
                    hs = [e for e in bp.events if e.kind == "store" and (e.attr == "cash_amount" or (e.attr is None and e.base[0] == "attr" and e.base[2] == "asset_volumes"))]
                    none = not hs
                    if not none:
                        # ... or both legs are applied to the one agent and cancel: -pv +pv on its cash, +v -v on its shares
                        per: Dict[str, List[str]] = {}
                        for e in hs:
                            d = _delta(e)
                            tgt = key(strip_ver(e.base)) + ("" if e.attr else "[" + key(strip_ver(e.index)) + "]")
                            per.setdefault(tgt, []).append(poly_key(to_poly(d)) if d is not None else "?")
                        cancel = len(hs) == 4 and len(per) == 2 and all(len(v) == 2 and "?" not in v and _negk(v[0]) == v[1] for v in per.values())
                        if not cancel and any("?" in v for v in per.values()):
                            ctx.unrec(f, l.node, "a fill of an agent with itself leaves its holdings as they are", "under `buyer is seller` a balance is written from a value computed before the other leg's write: whether the legs cancel is not decided in this form", str(per)[:160])
                            continue
                        ctx.check(cancel and bp.exit[0] in ("fall", "continue"), f, l.node, "a fill of an agent with itself leaves its holdings as they are", "no update, or both legs on the one agent (the deltas cancel)", str(per)[:160])
                        continue
                    ctx.check(none and bp.exit[0] in ("fall", "continue"), f, l.node, "a fill of an agent with itself leaves its holdings as they are", "no update (the two deltas cancel)", bp.describe()[:120])
                    continue
                role = [c for c, pol, _ in bp.conds if not same_party(c) and any(x[0] == "attr" and x[2] == "agent_id" for x in subterms(strip_ver(c)))]
                if role:
                    if not getattr(ctx, "_c05_role_noted", False):
                        ctx._c05_role_noted = True  # type: ignore[attr-defined]
                        ctx.unrec(f, l.node, "per fill: the buyer's and the seller's holdings are updated directly", "which side an agent is on is decided at run time by comparing ids (" + short(role[0])[:100] + "): which of these combinations can occur is not decided")
                    continue
                ctx.check(len(bp.conds) == len(self_conds) and bp.exit[0] == "fall", f, l.node, "holdings update is unconditional for every log", "no condition, no early exit", bp.describe()[:160])
                sts = [e for e in bp.events if e.kind == "store"]
                cash = [e for e in sts if e.attr == "cash_amount"]
                shares = [e for e in sts if e.attr is None and e.base[0] == "attr" and e.base[2] == "asset_volumes"]
                other = [e for e in sts if e not in cash and e not in shares]
                ctx.check(len(cash) == 2 and len(shares) == 2 and not other, f, l.node, "exactly two cash and two share updates per fill", "2 + 2, nothing else",
                          f"{len(cash)} cash, {len(shares)} share, {len(other)} other store(s)")
                buyer = ("sub", ("attr", ("sym", "self"), "id2agent"), ("attr", log, "buy_agent_id"))
                seller = ("sub", ("attr", ("sym", "self"), "id2agent"), ("attr", log, "sell_agent_id"))
                amount = poly_key(to_poly(("bin", "*", ("attr", log, "price"), ("attr", log, "volume"))))
                vol = poly_key(to_poly(("attr", log, "volume")))

                def who(e: Event) -> str:
                    b = strip_ver(e.base if e.attr else e.base[1])
                    if b == buyer:
                        return "buyer"
                    if b == seller:
                        return "seller"
                    # the agent looked up from the fill's buyer / seller id through the simulator's own tables
                    # (that those tables lead to the agent registered under the id is the registry rule, C05.H1)
                    ids = {key(x) for x in subterms(b) if x[0] == "attr" and x[1] == log and x[2] in ("buy_agent_id", "sell_agent_id")}
                    roots = {key(x) for x in subterms(b) if x[0] == "attr" and x[1] == ("sym", "self")}
                    if len(ids) == 1 and roots and b[0] in ("sub", "call"):
                        return "buyer" if next(iter(ids)).endswith("buy_agent_id") else "seller"
                    return key(b)

                seen: Dict[str, str] = {}
                refused = False
                for e in cash + shares:
                    d = _delta(e)
                    kind = "cash" if e in cash else "shares"
                    if d is None and self_conds:
                        # the routine tells the self-trade apart by a test on the two parties and reads / writes in an order that is
                        # only right under that test: the rule compares a store with the value the slot holds at that moment and
                        # does not carry "the parties differ" into that comparison (corrected version of seed C05t)
                        ctx.unrec(f, e.node, f"{kind} update adds to the holding's current value", "the update is made under a test whether buyer and seller are one agent, from a balance read earlier: the case split is not modelled", f"{short(e.target)} := {short(e.value)}"[:160])
                        refused = True
                        continue
                    if d is None:
                        ctx.violated(f, e.node, f"{kind} update adds to the holding's current value", "target = <current target> +/- delta",
                                     f"{short(e.target)} := {short(e.value)} (current value is {short(e.cur)})")
                        continue
                    seen[f"{who(e)}.{kind}"] = poly_key(to_poly(d))
                    if kind == "shares":
                        ctx.check(strip_ver(e.index) == ("attr", log, "market_id"), f, e.node, "share position of the fill's own market", "asset_volumes[log.market_id]", short(e.index))
                want = {"buyer.cash": _negk(amount), "seller.cash": amount, "buyer.shares": vol, "seller.shares": _negk(vol)}
                if refused:
                    continue  # a delta could not be read off (refused above): the comparison of all four is not made
                ctx.check(seen == want, f, l.node, "signed deltas of one fill", str(want), str(seen))
    ctx.require(n >= 1, f"{UPD}: no per-log update path")


def _negk(k: str) -> str:
    """negate a polynomial key of the single-monomial forms produced above"""
    if k.startswith("-1*"):
        return k[3:]
    return "-1*" + k


def _stale_write_back(ctx: Ctx, setter: str):
    """in the per-fill update: a call of `setter` on party B whose argument contains a getter call on B that was evaluated
    before a call of `setter` on another party A -> that event, else None"""
    getter = {"set_cash_amount": "get_cash_amount", "set_asset_volume": "get_asset_volume"}[setter]
    for p in ctx.paths(UPD):
        for holder in [p] + [bp for l in p.walk_events(True) if l.kind == "loop" for bp in l.paths]:
            evs = [e for e in holder.events if e.kind == "call" and e.name in (setter, getter) and e.recv is not None]
            for k, w in enumerate(evs):
                if w.name != setter:
                    continue
                argts = list(w.args) + [v for _, v in w.kwargs]
                for i, r in enumerate(evs[:k]):
                    if r.name != getter or strip_ver(r.recv) != strip_ver(w.recv) or not any(r.term in list(subterms(a)) for a in argts):
                        continue
                    if any(x.name == setter and strip_ver(x.recv) != strip_ver(w.recv) for x in evs[i + 1:k]):
                        return w
    return None


@rule("C05.R2", "holdings are written only by the agent's own setters and by the per-fill update", "T1 who-may-write + T2 who-may-call", floor=8)
def r2(ctx: Ctx) -> None:
    setters = {
        "Agent.__init__": "constructor", "Agent.setup": "endowment", "Agent.set_cash_amount": "setter", "Agent.update_cash_amount": "setter",
        "Agent.set_asset_volume": "setter", "Agent.update_asset_volume": "setter", "Agent.set_market_accessible": "setter", UPD: "per-fill update",
    }
    writer_allowlist(ctx, "Agent", "cash_amount", setters)
    writer_allowlist(ctx, "Agent", "asset_volumes", setters)
    # inside pams the setters are only used while an agent is being set up
    for s in ("Agent.set_cash_amount", "Agent.update_cash_amount", "Agent.set_asset_volume", "Agent.update_asset_volume", "Agent.set_market_accessible"):
        for site in ctx.cg.sites_calling(s):
            q = site.caller.qualname
            ok = site.caller.name == "setup" and site.caller.cls is not None and ctx.program.is_subclass(site.caller.cls.name, "Agent")
            if not ok and q == UPD and s.split(".")[1].startswith("set_") and s != "Agent.set_market_accessible":
                # settlement written as read - compute - write back through the absolute setters: wrong exactly when a
                # balance read for one party is written back after the other party's balance was written, because buyer
                # and seller may be one agent (self-trade) and the second write then undoes the first (seed C05t).
                # Without that hazard the form is left to C05.R1, which refuses what it cannot follow.
                hz = _stale_write_back(ctx, s.split(".")[1])
                if hz is not None:
                    ctx.violated(site.caller, hz.node, "each party's balance is read after every earlier write of the same fill (buyer and seller can be the same agent)", "read-modify-write per party, or in-place `+=` / update_*", f"{short(hz.term)[:150]} writes back a value computed from a balance read before the other party's {s.split('.')[1]}: in a self-trade the first write is lost")
                continue
            ctx.check(ok, site.caller, site.node, f"caller of {s}", "Agent.setup (or an override)", q)


@rule("C05.R3", "the logs of each matching round are applied exactly once, whole, before any party is notified", "T4 exactly-once + T5 ordering + T10 provenance", floor=2)
def r3(ctx: Ctx) -> None:
    for s in ctx.cg.sites_calling(UPD):
        ctx.check(caller_ok(ctx, s.caller, lambda g: g.qualname == HO), s.caller, s.node, f"caller of {UPD}", HO, s.caller.qualname)
    # a matching round started anywhere else would make fills that nobody applies to the holdings
    for s in ctx.cg.sites_calling("Market._execution"):
        ctx.check(caller_ok(ctx, s.caller, lambda g: g.qualname == HO), s.caller, s.node, "caller of Market._execution (every round's fills must reach the holdings update)", HO, s.caller.qualname)
    f = ctx.func(HO)
    n = 0
    for p in ctx.paths(HO):
        for holder in [p] + [bp for l in p.walk_events(True) if l.kind == "loop" for bp in l.paths]:
            evs = holder.events
            for i, e in enumerate(evs):
                if not (e.kind == "call" and calls_target(e, "Market._execution")):
                    continue
                n += 1
                rest = evs[i + 1:]
                upd = [x for x in rest if x.kind == "call" and calls_target(x, UPD)]
                ok = len(upd) == 1 and kw(upd[0], "execution_logs", 0) == e.term
                if not ok:
                    # the round's result goes (also) somewhere else: to another routine of the simulator, or into a list that is
                    # handed over later -- another way of settling, which this rule does not follow
                    others = [x for x in rest if x.kind == "call" and not calls_target(x, UPD) and x.name not in ("len", "executed_order", "isinstance") and not x.name.startswith("_trigger_event")
                              and any(a == e.term for a in list(x.args) + [v for _, v in x.kwargs])]
                    fed = {key(strip_ver(x.recv)) for x in rest if x.kind == "call" and x.name in ("extend", "append") and x.recv is not None and any(a == e.term for a in x.args)}
                    batched = [u for u in upd if kw(u, "execution_logs", 0) is not None and kw(u, "execution_logs", 0) != e.term and strip_ver(kw(u, "execution_logs", 0))[0] == "sym"
                               and (key(strip_ver(kw(u, "execution_logs", 0))) in fed or any(key(strip_ver(kw(u, "execution_logs", 0))).split(":")[-1] == k_.split(":")[-1] for k_ in fed))]
                    folded = [x.data.get("target", "") for x in rest if x.kind == "note" and x.data.get("what") == "inline" and x.data.get("target", "").startswith("Simulator.") and x.data.get("target") != UPD]
                    if folded and not others:
                        class _F:  # noqa: N801
                            name = folded[0]
                        others = [_F()]  # type: ignore[list-item]
                    coll = [x for x in others if getattr(x, "kind", None) == "call" and x.name in ("extend", "append") and x.recv is not None]
                    if coll and not batched:
                        # the fills are put into a list: telling anybody before that list reached the holdings update is wrong whatever else happens
                        told = [k_ for k_, x in enumerate(rest) if x.kind == "call" and x.name == "executed_order" or (x.kind == "loop" and any(y.name == "executed_order" for bp_ in x.paths for y in calls(bp_)))]
                        applied = [k_ for k_, x in enumerate(rest) if x.kind == "call" and calls_target(x, UPD)]
                        def _decided_empty(L: Term) -> bool:
                            from ..kit import nf_cmp
                            from ..terms import Unrecognised, cmp_nf

                            ln = ("call", ("name", "len"), (strip_ver(L),), (), None)
                            for c_, pol_, _n in holder.conds:
                                try:
                                    nf = nf_cmp(strip_ver(c_) if pol_ else ("not", strip_ver(c_)), integer=True)
                                except Unrecognised:
                                    continue
                                if nf in (cmp_nf("==", ln, ("const", 0), integer=True), cmp_nf("<=", ln, ("const", 0), integer=True)):
                                    return True
                            return False

                        if told and not applied and _decided_empty(coll[0].recv):
                            continue  # the list the fills went into was found empty afterwards: the round made no fill, there is nothing to apply and nobody is told
                        if told and (not applied or min(told) < min(applied)):
                            ctx.violated(f, e.node, "result of the matching round is handed whole to the holdings update", f"_update_agents_for_execution(execution_logs={short(e.term)}) once, before anybody is told",
                                         f"the fills are put into {short(coll[0].recv)} and the parties are told ({'no holdings update on this path' if not applied else 'before the holdings update'}): a call back sees holdings without its own fill")
                            continue
                    if others or batched:
                        what = f"handed to {others[0].name}()" if others else f"collected in {short(kw(batched[0], 'execution_logs', 0))} and applied from there"
                        ctx.unrec(f, e.node, "result of the matching round is handed whole to the holdings update", f"the fills are {what}: whether every fill is applied once, before anybody is told, is not decided on this form")
                        continue
                ctx.check(ok, f, e.node, "result of the matching round is handed whole to the holdings update", f"_update_agents_for_execution(execution_logs={short(e.term)}) once",
                          "; ".join(f"execution_logs={short(kw(u, 'execution_logs', 0))}" for u in upd) or "no update call")
                if not upd:
                    continue
                j = rest.index(upd[0])
                early = [x for x in rest[:j] if (x.kind == "call" and (x.name in ("executed_order",) or x.name.startswith("_trigger_event_after_execution"))) or x.kind == "loop"]
                ctx.check(not early, f, upd[0].node, "holdings are updated before anybody is told about the fills", "update precedes notifications and triggers", f"{len(early)} earlier notification(s)")
    ctx.require(n >= 2, f"{HO}: expected the normal and the high-frequency matching sites")


@rule("C05.R4", "the holdings are plain per-agent data: no property intercepts them and the share dictionary is never aliased, handed out or stored elsewhere", "T1 escape analysis + T13", floor=2)
def r4(ctx: Ctx) -> None:
    import ast as _ast

    p = ctx.program
    # (a) no method / property named like the fields in the Agent hierarchy
    for cname in p.subclasses("Agent"):
        ci = p.classes[cname]
        bad = [m for m in ci.methods if m in ("cash_amount", "asset_volumes")]
        f0 = next(iter(ci.methods.values()), None)
        ctx.check(not bad, f0, ci.node, f"{cname}: cash_amount / asset_volumes are plain attributes", "no method or property of that name", ", ".join(bad) or "plain")
        for node in _ast.walk(ci.node):
            if isinstance(node, _ast.Name) and node.id in ("__setattr__", "__getattr__", "__getattribute__"):
                ctx.violated(f0, node, f"{cname}: attribute access is not intercepted", "no __setattr__/__getattr__", node.id)
        for m in ci.methods:
            if m in ("__setattr__", "__getattr__", "__getattribute__"):
                ctx.violated(ci.methods[m], ci.methods[m].node, f"{cname}: attribute access is not intercepted", "no __setattr__/__getattr__", m)
    # (b) every occurrence of `.asset_volumes` is an element access, a membership test, the
    #     initialisation in Agent.__init__, or a read-only iteration -- never an alias
    n = 0
    for mi in p.modules.values():
        parents = {}
        for node in _ast.walk(mi.tree):
            for ch in _ast.iter_child_nodes(node):
                parents[id(ch)] = node
        for node in _ast.walk(mi.tree):
            if not (isinstance(node, _ast.Attribute) and node.attr == "asset_volumes"):
                continue
            n += 1
            par = parents.get(id(node))
            ok = False
            how = type(par).__name__
            if isinstance(par, _ast.Subscript) and par.value is node:
                ok = True
            elif isinstance(par, _ast.Compare) and node in par.comparators and all(isinstance(o, (_ast.In, _ast.NotIn)) for o in par.ops):
                ok = True
            elif isinstance(par, (_ast.Assign, _ast.AnnAssign)) and (node in getattr(par, "targets", []) or node is getattr(par, "target", None)):
                fn = None
                for f in p.all_functions():
                    if any(x is par for x in _ast.walk(f.node)):
                        fn = f
                ok = fn is not None and fn.qualname == "Agent.__init__"
                how = f"rebinding in {fn.qualname if fn else mi.name}"
            elif isinstance(par, _ast.Call) and isinstance(par.func, _ast.Name) and par.func.id in ("len", "sum", "sorted", "repr", "str") and node in par.args:
                ok = True
            elif isinstance(par, _ast.Attribute) and par.attr in ("keys", "values", "items", "get", "copy"):
                ok = True
            elif isinstance(par, (_ast.FormattedValue, _ast.JoinedStr)):
                ok = True
            fn2 = None
            for f in p.all_functions():
                if f.outer is None and any(x is node for x in _ast.walk(f.node)):
                    fn2 = f
            ctx.check(ok, fn2, node, f"use of asset_volumes in {fn2.qualname if fn2 else mi.name}", "element access / membership / len / read-only view (no alias, no hand-out)", "element access" if ok else f"the dictionary itself flows into a {how}")
    ctx.require(n >= 8, "fewer uses of asset_volumes than confirmed by reading")


@rule("C05.R5", "what a matching round hands back is exactly the list of the fills it made, one record per executed pair", "T10 provenance of the returned list", floor=1)
def r5(ctx: Ctx) -> None:
    from ..kit import seq_value
    from ..terms import normalise

    q = "Market._execution"
    f = ctx.func(q)
    n = 0
    for p in ctx.paths(q):
        if p.exit[0] != "return" or p.exit[1] is None:
            continue
        made = [e for e in p.walk_events(True) if e.kind == "call" and calls_target(e, "Market._execute_orders")]
        r = p.exit[1]
        if not made:
            lit = alloc_literal(p, r)
            ok = lit is not None and lit[0] == "list" and len(lit[1]) == 0
            ctx.check(ok, f, f.node, "a round without fills returns an empty list", "[]", short(lit if lit is not None else r)[:80])
            continue
        n += 1
        comp = seq_value(p, r)
        if comp is None:
            comp = normalise(strip_ver(r))
        ok = comp is not None and comp[0] == "comp" and comp[1] == "seq" and len(comp[3]) == 1 and not comp[3][0][2] and comp[2][0] == "call" and key(comp[2][1]).endswith("_execute_orders")
        if ok:
            ctx.holds(f, made[0].node, "the round returns the records of its own fills", "[self._execute_orders(...) for each pending pair]", short(comp)[:160])
        elif not any(s_[0] == "call" and key(s_[1]).endswith("_execute_orders") for s_ in subterms(strip_ver(r))) and comp is not None and comp[0] != "comp" and alloc_literal(p, r) is None:
            ctx.violated(f, made[0].node, "the round returns the records of its own fills", "[self._execute_orders(...) for each pending pair]", f"the records made by _execute_orders are dropped and {short(r)[:120]} is returned instead (a stored list can hold other rounds' fills as well)")
        else:
            ctx.unrec(f, made[0].node, "the round returns the records of its own fills", "the way the returned list is built is not modelled", short(r)[:160])
    ctx.require(n >= 1, f"{q}: no path that fills")


@rule("C05.H1", "mechanism shared with C18: the agent whose holdings a fill changes is the agent registered under the id the fill names (one agent per id, filed under its own id)", "T3 + T10 (registry part of C18.R2)", floor=3)
def h1(ctx: Ctx) -> None:
    from .c18 import check_registries

    check_registries(ctx)
