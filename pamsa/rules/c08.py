"""C08 -- market price, quotes and step statistics are what book and fills imply."""
from __future__ import annotations

from typing import Any, Dict, List, Optional, Tuple

from ..kit import Case, Ctx, calls, calls_target, kw, normal_paths, poly_of, product_worlds, rule, short, stores, table_check_cases, loops
from ..paths import Event, Path
from ..terms import NONE, Term, diff_const, key, strip_ver, substitute, subterms

UMP = "Market._update_market_price"
BB = "self.buy_order_book.get_best_price()"
BS = "self.sell_order_book.get_best_price()"


def _strip_epoch(t: Term) -> Term:
    """drop the @epoch marker of pure getter calls (identity across heap changes is not needed here)"""
    t = strip_ver(t)
    if t[0] == "call":
        return ("call", _strip_epoch(t[1]), tuple(_strip_epoch(a) for a in t[2]), tuple((k, _strip_epoch(v)) for k, v in t[3] if k != "@epoch"), None)
    if t[0] in ("bin", "cmp"):
        return (t[0], t[1], _strip_epoch(t[2]), _strip_epoch(t[3]))
    if t[0] == "attr":
        return ("attr", _strip_epoch(t[1]), t[2])
    if t[0] == "sub":
        return ("sub", _strip_epoch(t[1]), _strip_epoch(t[2]))
    if t[0] == "not":
        return ("not", _strip_epoch(t[1]))
    return t


def _unchanged_after_cancel(p: Path, idx: List[int]) -> bool:
    """the only mutation on the path is one OrderBook.cancel, and the path has decided that the
    book's length after it equals its length before it: a cancel can only remove, so nothing changed"""
    if len(idx) != 1:
        return False
    m = p.events[idx[0]]
    if not calls_target(m, "OrderBook.cancel") or m.recv is None:
        return False
    book = strip_ver(m.recv)
    ln = ("call", ("name", "len"), (book,), (), None)
    lens = [i for i, e in enumerate(p.events) if e.kind == "call" and e.name == "len" and e.args and strip_ver(e.args[0]) == book]
    if not ([i for i in lens if i < idx[0]] and [i for i in lens if i > idx[0]]):
        return False
    for c, pol, _ in p.conds:
        c = strip_ver(c)
        if pol and c[0] == "cmp" and c[1] == "==" and c[2] == ln and c[3] == ln:
            return True
    return False


def _mutating(e: Event, muts: Tuple[str, ...]) -> bool:
    """a call of a book-mutating method, or a loop some iteration of which makes one"""
    if e.kind == "call":
        return any(calls_target(e, m) for m in muts)
    if e.kind == "loop":
        return any(_mutating(x, muts) for bp in e.paths if bp.exit[0] != "raise" for x in bp.events)
    return False


def _no_mutating_iteration(p: Path, muts: Tuple[str, ...]) -> bool:
    """every iteration that mutates a book also appends to one local list L, and the path has decided
    that L is empty afterwards: no such iteration ran"""
    from ..kit import nf_cmp
    from ..terms import Unrecognised, cmp_nf

    companions: Optional[set] = None
    for l in [e for e in p.walk_events(True) if e.kind == "loop"]:
        for bp in l.paths:
            if bp.exit[0] == "raise" or not any(x.kind == "call" and _mutating(x, muts) for x in bp.events):
                continue
            apps = {strip_ver(x.recv) for x in bp.events if x.kind == "call" and x.name == "append" and x.recv is not None and strip_ver(x.recv)[0] in ("sym", "list")}
            companions = apps if companions is None else (companions & apps)
    if not companions:
        return False
    for c, pol, _ in p.conds:
        c = strip_ver(c)
        for L in companions:
            ln = ("call", ("name", "len"), (L,), (), None)
            try:
                nf = nf_cmp(c if pol else ("not", c), integer=True)
            except Unrecognised:
                continue
            if nf in (cmp_nf("==", ln, ("const", 0), integer=True), cmp_nf("<=", ln, ("const", 0), integer=True)):
                return True
    return False


@rule("C08.R1", "every book mutation made by a market is followed by a market-price refresh; the last-trade slot is written before it", "T4 must-pass-through", floor=3)
def r1(ctx: Ctx) -> None:
    from ..kit import is_helper

    muts = ("OrderBook.add", "OrderBook.cancel", "OrderBook.change_order_volume", "OrderBook._remove")
    n = 0
    market_methods = list(ctx.program.cls("Market").methods.values())
    for f in market_methods:
        ps = normal_paths(ctx.paths(f.qualname))
        hit = False
        bad = 0
        for p in ps:
            idx = [i for i, e in enumerate(p.events) if _mutating(e, muts)]
            if not idx:
                continue
            hit = True
            ups = [i for i, e in enumerate(p.events) if e.kind == "call" and calls_target(e, UMP)]
            if not ups or max(ups) < max(idx):
                if _unchanged_after_cancel(p, idx) or _no_mutating_iteration(p, muts):
                    continue
                bad += 1
        if hit:
            sites = ctx.cg.sites_calling(f.qualname)
            if bad and f.name.startswith("_") and is_helper(f) and sites and all(s_.caller in market_methods for s_ in sites):
                # a private helper of the market: its mutations are part of its callers' paths, where the refresh is looked for
                ctx.holds(f, f.node, f"{f.qualname}: book mutation is followed by _update_market_price on every normal path", expected="refresh after the last mutation", found="private helper: judged on the paths of its callers " + ", ".join(sorted({s_.caller.qualname for s_ in sites})))
                n += 1
                continue
            n += 1
            ctx.check(bad == 0, f, f.node, f"{f.qualname}: book mutation is followed by _update_market_price on every normal path", "refresh after the last mutation", f"{bad} path(s) without a later refresh")
    ctx.require(n >= 3, "fewer than 3 book-mutating Market methods")
    f = ctx.func("Market._execute_orders")
    for p in normal_paths(ctx.paths(f.qualname)):
        ups = [i for i, e in enumerate(p.events) if e.kind == "call" and calls_target(e, UMP)]
        last = [i for i, e in enumerate(p.events) if e.kind == "store" and e.attr is None and e.base[0] == "attr" and e.base[2] == "_last_executed_prices"]
        ok = len(last) == 1 and ups and last[0] < max(ups) and key(p.events[last[0]].value) == "price"
        ctx.check(bool(ok), f, f.node, "the trade price is recorded as last-trade price before the refresh", "_last_executed_prices[now] = price; ...; _update_market_price()",
                  f"{len(last)} last-trade store(s), refresh at {ups}")


@rule("C08.R2", "market-price refresh: mid = average of both best quotes or None; price = last trade, else mid, else unchanged; untouched while not running", "T6 decision table (16 worlds)", floor=1)
def r2(ctx: Ctx) -> None:
    f = ctx.func(UMP)
    paths = ctx.paths(UMP, inline=("Market.get_best_buy_price", "Market.get_best_sell_price"))
    now = ("attr", ("sym", "self"), "time")
    last_t = ("sub", ("attr", ("sym", "self"), "_last_executed_prices"), now)
    cases: List[Case] = []
    for p in paths:
        conds = [(_strip_epoch(c), pol) for c, pol, _ in p.conds]
        if p.exit[0] == "raise":
            cases.append(Case(conds, lambda w: ("raise",), p.describe()))
            continue
        mid_val: Any = "unchanged"
        price_val: Any = "unchanged"
        okidx = True
        for e in p.events:
            if e.kind != "store" or e.attr is not None or e.base[0] != "attr":
                continue
            d = diff_const(strip_ver(e.index), now)
            if d is None or d != 0:
                okidx = False
            v = _strip_epoch(e.value)
            if e.base[2] == "_mid_prices":
                if v == NONE:
                    mid_val = None
                elif poly_of(v) == poly_of(("bin", "/", ("bin", "+", ("sym", "BS"), ("sym", "BB")), ("const", 2)), ) or poly_of(substitute(v, {_t(BB): ("sym", "BB"), _t(BS): ("sym", "BS")})) == "1/2*BB + 1/2*BS":
                    mid_val = "avg"
                else:
                    mid_val = "other:" + key(v)
            elif e.base[2] == "_market_prices":
                if v == last_t:
                    price_val = "last"
                elif poly_of(substitute(v, {_t(BB): ("sym", "BB"), _t(BS): ("sym", "BS")})) == "1/2*BB + 1/2*BS":
                    price_val = "mid"
                elif v == ("sub", ("attr", ("sym", "self"), "_mid_prices"), now):
                    price_val = "mid"
                else:
                    price_val = "other:" + key(v)
            elif e.base[2].startswith("_"):
                price_val = "other-series:" + e.base[2]
        out = (mid_val, price_val) if okidx else ("wrong-slot",)
        cases.append(Case(conds, (lambda w, out=out: out), p.describe()))
    atoms = {BB, BS, "self._is_running", key(last_t)}
    worlds = list(product_worlds([{BB: v} for v in (None, 10)], [{BS: v} for v in (None, 12)], [{"self._is_running": v} for v in (True, False)], [{key(last_t): v} for v in (None, 11)]))

    def spec(w: Dict[str, Any]) -> Any:
        mid = "avg" if w[BB] is not None and w[BS] is not None else None
        if not w["self._is_running"]:
            return (mid, "unchanged")
        if w[key(last_t)] is not None:
            return (mid, "last")
        return (mid, "mid" if mid is not None else "unchanged")

    table_check_cases(ctx, f, f.node, "market-price refresh table", cases, worlds, lambda t: key(t) in atoms, spec)


def _t(k: str) -> Term:
    book = "buy_order_book" if "buy" in k else "sell_order_book"
    return ("call", ("attr", ("attr", ("sym", "self"), book), "get_best_price"), (), (), None)


def _slot(v: Term, T: Term) -> Any:
    """classify a stored value as (series, offset relative to the new time) when it is a series read"""
    v = strip_ver(v)
    if v[0] == "sub" and v[1][0] == "attr" and key(v[1][1]) == "self":
        d = diff_const(v[2], T)
        if d is not None:
            return (v[1][2], int(d))
    if v[0] == "sym":
        return v[1]
    if v == NONE:
        return None
    return "other:" + key(v)


@rule("C08.R3", "clock step: last-trade, mid and market price are carried into the new slot; a running market's price follows the previous slot's last trade, else its mid; slot 0 takes the configured or fundamental price", "T6 decision table", floor=1)
def r3(ctx: Ctx) -> None:
    f = ctx.func("Market._update_time")
    paths = ctx.paths(f.qualname)
    cases: List[Case] = []
    for p in paths:
        if p.exit[0] == "raise":
            continue
        ts = [e for e in p.events if e.kind == "store" and e.attr == "time" and key(strip_ver(e.base)) == "self"]
        if len(ts) != 1:
            ctx.violated(f, f.node, "clock written once", "1 store", str(len(ts)))
            return
        T = strip_ver(ts[0].value)
        final: Dict[str, Any] = {}
        okidx = True
        for e in p.events:
            if e.kind == "store" and e.attr is None and e.base[0] == "attr" and e.base[2].startswith("_") and key(strip_ver(e.base[1])) == "self":
                d = diff_const(strip_ver(e.index), T)
                if d is None or d != 0:
                    okidx = False
                final[e.base[2]] = _slot(e.value, T)
        conds = []
        for c, pol, _ in p.conds:
            c = strip_ver(c)
            # rewrite series reads relative to the new time into symbolic atoms
            m = {}
            for s in subterms(c):
                sl = _slot(s, T) if s[0] == "sub" else None
                if isinstance(sl, tuple):
                    m[s] = ("sym", f"{sl[0]}[{sl[1]:+d}]")
            c2 = substitute(c, m)
            c2 = substitute(c2, {T: ("sym", "T")})
            conds.append((c2, pol))
        out = tuple(sorted(final.items())) if okidx else ("wrong-slot",)
        cases.append(Case(conds, (lambda w, out=out: out), p.describe()))
    atoms = {"T", "self._is_running", "_last_executed_prices[-1]", "_mid_prices[-1]", "_market_prices[+0]", "self.logger"}
    worlds = []
    for T in (0, 3):
        for run in (True, False):
            for last in (None, 11):
                for mid in (None, 10):
                    for p0 in (None, 9):
                        for lg in (None, "L"):
                            worlds.append({"T": T, "self._is_running": run, "_last_executed_prices[-1]": last, "_mid_prices[-1]": mid, "_market_prices[+0]": p0, "self.logger": lg})

    def spec(w: Dict[str, Any]) -> Any:
        out: Dict[str, Any] = {"_fundamental_prices": "next_fundamental_price"}
        if w["T"] > 0:
            out["_last_executed_prices"] = ("_last_executed_prices", -1)
            out["_mid_prices"] = ("_mid_prices", -1)
            out["_market_prices"] = ("_market_prices", -1)
            if w["self._is_running"]:
                if w["_last_executed_prices[-1]"] is not None:
                    out["_market_prices"] = ("_last_executed_prices", -1)
                elif w["_mid_prices[-1]"] is not None:
                    out["_market_prices"] = ("_mid_prices", -1)
        else:
            if w["_market_prices[+0]"] is None:
                out["_market_prices"] = "next_fundamental_price"
        return tuple(sorted(out.items()))

    table_check_cases(ctx, f, f.node, "carry-forward table of the clock step", cases, worlds, lambda t: key(t) in atoms, spec)


@rule("C08.R4", "per-step counters: executed volume and turnover grow by the fill's volume and volume*price; buy/sell order counts grow by one on acceptance, by side", "T7 / T8 mirror", floor=2)
def r4(ctx: Ctx) -> None:
    f = ctx.func("Market._execute_orders")
    now = ("attr", ("sym", "self"), "time")

    def increments(events) -> Dict[str, str]:
        got: Dict[str, str] = {}
        for e in events:
            if e.kind == "store" and e.attr is None and e.base[0] == "attr" and e.base[2] in ("_executed_volumes", "_executed_total_prices"):
                v = e.value
                delta = None
                if v[0] == "bin" and v[1] == "+" and v[2] == e.cur:
                    delta = v[3]
                elif v[0] == "bin" and v[1] == "+" and v[3] == e.cur:
                    delta = v[2]
                d = diff_const(strip_ver(e.index), now)
                got[e.base[2]] = (poly_of(strip_ver(delta)) if delta is not None else "not an increment of the slot: " + short(v)) + ("" if d == 0 else " @wrong slot")
        return got

    per_fill = [increments(p.events) for p in normal_paths(ctx.paths(f.qualname))]
    want = {"_executed_volumes": poly_of(("sym", "volume")), "_executed_total_prices": poly_of(("bin", "*", ("sym", "volume"), ("sym", "price")))}
    # alternatively the round adds up its own fills once: for log in <the fills>: += log.volume, += log.volume * log.price
    g = ctx.func("Market._execution")
    per_round = []
    for p in normal_paths(ctx.paths(g.qualname)):
        made = [e for e in p.walk_events(True) if e.kind == "call" and calls_target(e, "Market._execute_orders")]
        if not made:
            continue
        for l in [x for x in p.events if x.kind == "loop" and x.loopkind == "for" and x.target]:
            el = ("sym", f"{l.target[0]}∈{l.loopid}")
            for bp in l.paths:
                inc = increments(bp.events)
                if inc:
                    w2 = {"_executed_volumes": poly_of(("attr", el, "volume")), "_executed_total_prices": poly_of(("bin", "*", ("attr", el, "volume"), ("attr", el, "price")))}
                    fills = p.exit[1] if p.exit[0] == "return" else None
                    per_round.append((inc == w2 and not bp.conds and bp.exit[0] == "fall" and l.iter is not None and fills is not None and strip_ver(l.iter) == strip_ver(fills), inc, l))
        top = increments(p.events)
        if top:
            per_round.append((False, top, None))
    if per_round and not any(per_fill):
        for ok, inc, l in per_round:
            ctx.check(ok, g, l.node if l is not None else g.node, "fill counters: the round adds every one of its fills once", "for log in <fills of this round>: volumes[now] += log.volume; totals[now] += log.volume * log.price", str(inc))
    else:
        for got in per_fill:
            ctx.check(got == want and not per_round, f, f.node, "fill counters", str(want), str(got) + (" and again per round" if per_round else ""))
    f = ctx.func("Market._add_order")
    n = 0
    for p in normal_paths(ctx.paths(f.qualname)):
        n += 1
        side = [pol for c, pol, _ in p.conds if key(strip_ver(c)) == "order.is_buy"]
        inc = []
        for e in p.events:
            if e.kind == "store" and e.attr is None and e.base[0] == "attr" and e.base[2] in ("_n_buy_orders", "_n_sell_orders"):
                v = e.value
                ok = v[0] == "bin" and v[1] == "+" and v[2] == e.cur and v[3] == ("const", 1) and diff_const(strip_ver(e.index), now) == 0
                inc.append((e.base[2], ok))
        want_series = "_n_buy_orders" if side and side[-1] else "_n_sell_orders"
        ok = len(inc) == 1 and inc[0] == (want_series, True)
        ctx.check(ok, f, f.node, "accepted-order counter of the order's side grows by one", f"{want_series}[now] += 1", str(inc))
    ctx.require(n >= 2, "Market._add_order: no accepting path")


@rule("C08.R5", "quotes and depth are computed from the queue on every call; market accessors read the book of their own side", "T12 purity + T9 delegation table", floor=6)
def r5(ctx: Ctx) -> None:
    for q in ("OrderBook.get_best_price", "OrderBook.get_best_order", "OrderBook.get_price_volume", "OrderBook.__len__"):
        f = ctx.func(q)
        eff = []
        reads_q = False
        for p in ctx.paths(q):
            for e in p.walk_events():
                if e.kind in ("store", "del") and not (e.base[0] == "sym" and e.base[1].startswith("new")):
                    eff.append(short(e.target))
                if e.kind == "call" and e.data.get("mutates") is not None and not (e.data["mutates"][0] == "sym" and e.data["mutates"][1].startswith("new")) and key(strip_ver(e.data["mutates"])) not in ("keys",):
                    mb = strip_ver(e.data["mutates"])
                    if mb[0] == "attr":
                        eff.append(f"{short(mb)}.{e.name}()")
            for t in [p.exit[1]] if p.exit[0] == "return" else []:
                pass
            txt = " ".join(key(strip_ver(c)) for c, _, _ in p.conds) + " " + " ".join(key(strip_ver(e.term)) for e in p.walk_events() if e.kind == "call") + " " + (key(strip_ver(p.exit[1])) if p.exit[0] == "return" else "")
            if "self.priority_queue" in txt:
                reads_q = True
        ctx.check(not eff and reads_q, f, f.node, f"{q} is a pure function of the priority queue", "no stores to the book, reads self.priority_queue", ("effects: " + ", ".join(eff)) if eff else ("reads queue" if reads_q else "does not read the queue"), guard="text")  # stores to an attribute the reference tree does not have (a memo of the view): refused, not reported
    table = {
        "get_best_buy_price": ("buy_order_book", "get_best_price"), "get_best_sell_price": ("sell_order_book", "get_best_price"),
        "get_buy_order_book": ("buy_order_book", "get_price_volume"), "get_sell_order_book": ("sell_order_book", "get_price_volume"),
    }
    for g, (book, meth) in table.items():
        m = ctx.func(f"Market.{g}")
        for p in ctx.paths(m.qualname):
            r = strip_ver(p.exit[1]) if p.exit[0] == "return" else None
            while r is not None and r[0] == "call" and r[1][0] == "name" and r[1][1] in ("dict", "float", "copy") and len(r[2]) == 1:
                r = strip_ver(r[2][0])  # a copy / conversion of the book's answer
            ok = r is not None and r[0] == "call" and key(r[1]) == f"self.{book}.{meth}"
            other = "sell_order_book" if book == "buy_order_book" else "buy_order_book"
            if not ok and r is not None and other not in key(r) and p.exit[0] == "return":
                ctx.unrec(m, m.node, f"Market.{g} reads its own side's book", "the answer does not come straight from the book (kept or derived value): whether it is still what the book would say is not decided", short(r))
                continue
            ctx.check(ok, m, m.node, f"Market.{g} reads its own side's book", f"self.{book}.{meth}()", short(r))


def _canon_sums(t: Term) -> Term:
    """x[0:b] and x[None:b:None] are one slice; 0 + s and s + 0 are s"""
    t = _strip_epoch(t)
    if t[0] == "slice":
        lo, hi, st = t[1], t[2], t[3]
        if lo is not None and lo == ("const", 0):
            lo = None
        if st is not None and st == ("const", 1):
            st = None
        return ("slice", _canon_sums(lo) if lo is not None else None, _canon_sums(hi) if hi is not None else None, st)
    if t[0] == "sub":
        return ("sub", _canon_sums(t[1]), _canon_sums(t[2]))
    if t[0] == "call":
        return ("call", t[1], tuple(_canon_sums(a) for a in t[2]), t[3], None)
    if t[0] == "bin":
        l, r = _canon_sums(t[2]), _canon_sums(t[3])
        if t[1] == "+" and l[0] == "const" and l[1] == 0 and not isinstance(l[1], bool):
            return r
        if t[1] in ("+", "-") and r[0] == "const" and r[1] == 0 and not isinstance(r[1], bool):
            return l
        return ("bin", t[1], l, r)
    if t[0] == "cmp":
        return ("cmp", t[1], _canon_sums(t[2]), _canon_sums(t[3]))
    return t


@rule("C08.R6", "VWAP is turnover over volume, summed over the same slots 0..t, and undefined exactly when that volume is zero", "T7 / T8", floor=2)
def r6(ctx: Ctx) -> None:
    f = ctx.func("Market.get_vwap")
    n = 0
    for p in ctx.paths(f.qualname):
        if p.exit[0] != "return":
            continue
        n += 1
        tq = ("attr", ("sym", "self"), "time") if any(pol and key(strip_ver(c)) == "(time is None)" for c, pol, _ in p.conds) else ("sym", "time")
        hi = ("bin", "+", tq, ("const", 1))

        def ssum(series: str) -> str:
            return f"sum(self.{series}[:{key(hi)}:])"

        # totals kept in state of the market (running sums, checkpoints) are another representation of the
        # two series: whether they agree with the series at the moment of the call is not decided here
        state = sorted({x[2] for t_ in [p.exit[1]] + [c for c, _, _ in p.conds] for x in subterms(strip_ver(t_))
                        if x[0] == "attr" and x[1] == ("sym", "self") and x[2] not in ("_executed_total_prices", "_executed_volumes", "time", "is_running", "_is_running")})
        if state:
            ctx.unrec(f, f.node, "VWAP is computed from the turnover and volume series", f"the value depends on other state of the market ({', '.join('self.' + a for a in state[:3])}): whether that state agrees with the series is not decided", short(p.exit[1]))
            continue
        zero = [pol for c, pol, _ in p.conds if key(_canon_sums(c)) in (f"(0 == {ssum('_executed_volumes')})", f"({ssum('_executed_volumes')} == 0)")]
        r = _canon_sums(p.exit[1])
        if zero and zero[-1]:
            ok = key(r) == "float('nan')"
            ctx.check(ok, f, f.node, "no volume up to t -> undefined", "nan under sum(volumes[:t+1]) == 0", short(r))
        else:
            ok = bool(zero) and key(r) == f"({ssum('_executed_total_prices')} / {ssum('_executed_volumes')})"
            ctx.check(ok, f, f.node, "VWAP = sum(turnover[:t+1]) / sum(volume[:t+1]) when that volume is non-zero", f"{ssum('_executed_total_prices')} / {ssum('_executed_volumes')} under the same-slice zero test",
                      short(r) + f" zero-test={'present' if zero else 'on a different slice or absent'}")
    ctx.require(n >= 2, "get_vwap: returning paths not found")


@rule("C08.R7", "per-price depth: every price present in the queue is mapped to the sum of the volumes of all orders at that price, wherever they sit in the heap array", "T7 aggregation shape", floor=1)
def r7(ctx: Ctx) -> None:
    from ..terms import normalise

    q = "OrderBook.get_price_volume"
    f = ctx.func(q)
    queue = ("attr", ("sym", "self"), "priority_queue")
    n = 0
    for p in normal_paths(ctx.paths(q)):
        n += 1
        # grouping adjacent equal keys is only a sum per price on input sorted by that key; a heap array is not
        bad_group = None
        for e in calls(p):
            if e.name == "groupby" and e.args:
                src = normalise(strip_ver(e.args[0]))
                if not (src[0] == "call" and key(src[1]) == "sorted"):
                    lit = None
                    for s_ in subterms(src):
                        if s_ == queue:
                            lit = s_
                    bad_group = e
        if bad_group is not None:
            ctx.violated(f, bad_group.node, "orders of one price are summed wherever they are in the queue", "sum over all orders with order.price == price", "itertools.groupby merges only adjacent items; the sequence it is given is in heap order, not sorted by price")
            continue
        r = normalise(strip_ver(p.exit[1])) if p.exit[0] == "return" and p.exit[1] is not None else NONE
        comp = r[2][0] if r[0] == "call" and key(r[1]) == "dict" and r[2] else (r if r[0] == "comp" and r[1] == "dictcomp" else None)
        ok = False
        if comp is not None and comp[0] == "comp" and len(comp[3]) == 1 and comp[2][0] == "tuple" and len(comp[2][1]) == 2:
            kb = ("bound", comp[3][0][0][0]) if len(comp[3][0][0]) == 1 else None
            val = comp[2][1][1]
            inner = val[2][0] if val[0] == "call" and key(val[1]) == "sum" and val[2] else None
            if kb is not None and comp[2][1][0] == kb and inner is not None and inner[0] == "comp" and len(inner[3]) == 1 and inner[3][0][1] == queue and len(inner[3][0][0]) == 1 and len(inner[3][0][2]) == 1:
                ob = ("bound", inner[3][0][0][0])
                c = inner[3][0][2][0]
                ok = inner[2] == ("attr", ob, "volume") and c[0] == "cmp" and c[1] == "==" and {c[2], c[3]} == {("attr", ob, "price"), kb}
                keys_src = comp[3][0][1]
                ok = ok and any(s_[0] == "comp" and len(s_[3]) == 1 and s_[3][0][1] == queue and s_[2] == ("attr", ("bound", s_[3][0][0][0]), "price") for s_ in subterms(keys_src))
        if ok:
            ctx.holds(f, f.node, "depth = {price: sum(order.volume for order in queue if order.price == price) for every price in the queue}", "sum over the whole queue per price", short(r)[:160])
            continue
        # accumulation form: result[o.price] = result.get(o.price, 0) + o.volume over the queue
        acc = False
        for l in loops(p):
            if l.iter is None or strip_ver(l.iter) != queue or not l.target:
                continue
            el = ("sym", f"{l.target[0]}∈{l.loopid}")
            good = 0
            for bp in l.paths:
                sts = [e for e in bp.events if e.kind == "store" and e.attr is None]
                for e in sts:
                    v = strip_ver(e.value)
                    if strip_ver(e.index) == ("attr", el, "price") and v[0] == "bin" and v[1] == "+" and ("attr", el, "volume") in (v[2], v[3]):
                        good += 1
            acc = acc or good >= 1
        if not acc:
            # per-level form: for price in <levels of the queue>: result[price] = <sum of volumes at price>
            def price_comp(t: Term) -> bool:
                return any(s_[0] == "comp" and len(s_[3]) == 1 and strip_ver(s_[3][0][1]) == queue and len(s_[3][0][0]) == 1 and s_[2] == ("attr", ("bound", s_[3][0][0][0]), "price") for s_ in subterms(normalise(strip_ver(t))))

            levels_from_queue = any(price_comp(a) for e in calls(p) for a in e.args) or any(price_comp(e.data["literal"]) for e in p.walk_events() if e.kind == "note" and e.data.get("what") == "alloc" and isinstance(e.data.get("literal"), tuple))
            for l in loops(p):
                if not l.target or l.iter is None or strip_ver(l.iter) == queue:
                    continue
                kel = ("sym", f"{l.target[0]}∈{l.loopid}")
                for bp in l.paths:
                    for e in [x for x in bp.events if x.kind == "store" and x.attr is None and strip_ver(x.index) == kel]:
                        v = e.value
                        for il in loops(bp):
                            if il.iter is None or strip_ver(il.iter) != queue or not il.target:
                                continue
                            oel = ("sym", f"{il.target[0]}∈{il.loopid}")
                            names = [nm for nm, out in il.out.items() if out == v]
                            if not names or il.init.get(names[0]) != ("const", 0):
                                continue
                            ph = il.phi[names[0]]
                            okp = True
                            for ip in il.paths:
                                eq = [pol for c, pol, _ in ip.conds if strip_ver(c)[0] == "cmp" and strip_ver(c)[1] == "==" and {strip_ver(c)[2], strip_ver(c)[3]} == {("attr", oel, "price"), kel}]
                                nv = ip.env.get(names[0])
                                if eq == [True]:
                                    okp = okp and nv is not None and nv[0] == "bin" and nv[1] == "+" and {nv[2], nv[3]} == {ph, ("attr", oel, "volume")}
                                elif eq == [False]:
                                    okp = okp and nv == ph
                                else:
                                    okp = False
                            acc = acc or (okp and levels_from_queue)
        if acc:
            ctx.holds(f, f.node, "depth accumulated per price over the whole queue", "result[o.price] += o.volume for every order", "accumulation loop over self.priority_queue")
        else:
            ctx.unrec(f, f.node, "per-price depth is the sum of the volumes at that price", "the way the depth dictionary is built is not modelled", short(r)[:200])
    ctx.require(n >= 1, f"{q}: no returning path")


@rule("C08.H1", "mechanism shared with C02: the best quote is read from the top of the queue, which is the best order only while the queue is a valid heap", "T4 typestate (same rule as C02.R2)", floor=4)
def h1(ctx: Ctx) -> None:
    from .c02 import r2 as heap_rule

    heap_rule(ctx)


@rule("C08.H2", "mechanism shared with C06: what a step recorded stays recorded: every series (prices, volumes, turnover, order counts) is written at the current slot only and grows by fresh slots appended to itself", "T7 index identity + prefix-preserving rebinding (same rule as C06.R5)", floor=20)
def h2(ctx: Ctx) -> None:
    from .c06 import r5 as series_rule

    series_rule(ctx)
