"""C10 -- the logger sees every order, cancel, fill and expiry exactly once, in order."""
from __future__ import annotations

import ast
from typing import Any, Dict, List, Optional, Tuple

from ..callgraph import classes_of
from ..kit import path_text, Ctx, caller_ok, calls, calls_target, kw, loops, normal_paths, rule, short, stores
from ..paths import Event, Path
from ..terms import NONE, Term, key, strip_ver, subterms
from ..types import elem_type, strip_opt
from .c04 import set_time_forwarding
from .runner import IT, RUN

SINKS_ON_LOG = {"read_and_write", "read_and_write_with_direct_process"}
SINKS_ON_LOGGER = {"write": "log", "bulk_write": "logs", "write_and_direct_process": "log", "bulk_write_and_direct_process": "logs"}
EVENT_LOGS = ("OrderLog", "CancelLog", "ExecutionLog", "ExpirationLog")
CREATOR = {"OrderLog": "Market._add_order", "CancelLog": "Market._cancel_order", "ExecutionLog": "Market._execute_orders", "ExpirationLog": "OrderBook._check_expired_orders"}
FIELDS = {
    "OrderLog": ("order", {"order_id": "order_id", "market_id": "market_id", "time": "placed_at", "agent_id": "agent_id", "is_buy": "is_buy", "kind": "kind", "volume": "volume", "price": "price", "ttl": "ttl"}),
    "CancelLog": ("cancel.order", {"order_id": "order_id", "market_id": "market_id", "order_time": "placed_at", "agent_id": "agent_id", "is_buy": "is_buy", "kind": "kind", "volume": "volume", "price": "price", "ttl": "ttl"}),
    "ExpirationLog": (None, {"order_id": "order_id", "market_id": "market_id", "order_time": "placed_at", "agent_id": "agent_id", "is_buy": "is_buy", "kind": "kind", "volume": "volume", "price": "price", "ttl": "ttl"}),
}


def _log_classes(ctx: Ctx) -> List[str]:
    return [c for c in ctx.program.subclasses("Log", strict=True)]


def _sink_sites(ctx: Ctx) -> List[Tuple[Any, ast.Call, List[str], str]]:
    """(function, call node, log classes that may flow into the sink, sink name)"""
    p = ctx.program
    out = []
    for s in ctx.cg.sites:
        f = s.caller
        if f.cls is not None and f.cls.name in ("Log", "Logger") or (f.cls is not None and p.is_subclass(f.cls.name, "Logger")):
            continue  # the sink implementations themselves
        env = ctx.cg.env(f)
        node = s.node
        if not isinstance(node.func, ast.Attribute):
            continue
        nm = node.func.attr
        try:
            if nm in SINKS_ON_LOG:
                cs = classes_of(env.type_of(node.func.value))
                cs = [c for c in cs if c in p.classes and p.is_subclass(c, "Log")]
                if cs or any(t.qualname.startswith("Log.") for t in s.targets):
                    out.append((f, node, cs or ["Log"], nm))
            elif nm in SINKS_ON_LOGGER:
                rc = classes_of(env.type_of(node.func.value))
                if not any(c in p.classes and p.is_subclass(c, "Logger") for c in rc):
                    continue
                argn = SINKS_ON_LOGGER[nm]
                a = None
                for k in node.keywords:
                    if k.arg == argn:
                        a = k.value
                if a is None and node.args:
                    a = node.args[0]
                cs: List[str] = []
                if a is not None:
                    # look through cast(List[Log], x): the classes that really flow are those of x
                    inner = a
                    while isinstance(inner, ast.Call) and isinstance(inner.func, ast.Name) and inner.func.id == "cast" and len(inner.args) == 2:
                        inner = inner.args[1]
                    t = env.type_of(inner)
                    cs = classes_of(t) or classes_of(elem_type(t))
                out.append((f, node, [c for c in cs if c in p.classes] or ["Log"], nm))
        except Exception:
            continue
    return out


@rule("C10.R1", "every order, cancel, fill and expiry record has exactly one sink; nobody writes a record a second time", "T4 interprocedural sink count", floor=8)
def r1(ctx: Ctx) -> None:
    sinks = _sink_sites(ctx)
    ctx.require(len(sinks) >= 8, "fewer logger sink sites than confirmed by reading")
    allowed = {
        "OrderLog": {"Market._add_order"}, "CancelLog": {"Market._cancel_order"}, "ExecutionLog": {"Market._execute_orders"},
        "ExpirationLog": {"Market._set_time", "Market._update_time"},
    }
    runner_logs = {"SimulationBeginLog", "SimulationEndLog", "SessionBeginLog", "SessionEndLog", "MarketStepBeginLog", "MarketStepEndLog", "Log"}
    for f, node, cs, nm in sinks:
        for c in cs:
            if c in allowed:
                ctx.check(caller_ok(ctx, f, lambda g, c=c: g.qualname in allowed[c]), f, node, f"sink for {c} records in {f.qualname}", "written only by " + ", ".join(sorted(allowed[c])), f"{f.qualname} calls {nm}", guard="site")
            elif c in runner_logs:
                ctx.check(caller_ok(ctx, f, lambda g: g.qualname in (RUN, IT)), f, node, f"sink for {c} in {f.qualname}", f"{RUN} | {IT}", f.qualname, guard="site")
            else:
                ctx.violated(f, node, f"sink for {c} in {f.qualname}", "a known record class", c)
    # per creator: exactly one sink per created record when a logger is attached, none otherwise
    for cls_, q in CREATOR.items():
        if cls_ == "ExpirationLog":
            continue
        f = ctx.func(q)
        n = 0
        for p in normal_paths(ctx.paths(q)):
            made = [e for e in calls(p) if e.site.how == "ctor" and e.name == cls_]
            ctx.check(len(made) == 1, f, f.node, f"{q} creates exactly one {cls_} per accepted event", "1", str(len(made)))
            if len(made) != 1:
                continue
            n += 1
            rec = made[0].term
            w = [e for e in calls(p) if (e.name in SINKS_ON_LOG and e.recv == rec) or (e.name in SINKS_ON_LOGGER and (kw(e, SINKS_ON_LOGGER[e.name], 0) == rec or rec in list(subterms(kw(e, SINKS_ON_LOGGER[e.name], 0) or NONE))))]
            has_logger = [pol for c, pol, _ in p.conds if key(strip_ver(c)) == "(self.logger is None)"]
            want = 1 if (has_logger and not has_logger[-1]) else 0
            ctx.check(len(w) == want and bool(has_logger), f, made[0].node, f"{cls_} is written once iff a logger is attached", f"{want} write(s) on this path", f"{len(w)} write(s), logger test {'present' if has_logger else 'absent'}", guard="text", guard_text=path_text(p))
            ctx.check(p.exit[0] == "return" and p.exit[1] == rec, f, f.node, f"{q} returns the record it wrote", "return log", short(p.exit[1]) if p.exit[0] == "return" else p.exit[0])
        ctx.require(n >= 1, f"{q}: no accepting path")
    # receivers of returned records do not sink them again
    for q in ("Market._execution", "SequentialRunner._handle_orders", "OrderBook._set_time", "OrderBook._check_expired_orders"):
        f = ctx.func(q)
        extra = [(g, node, nm) for g, node, cs, nm in sinks if g.qualname == q or (g.outer is not None and g.outer.qualname == q)]
        ctx.check(not extra, f, extra[0][1] if extra else f.node, f"{q} passes records on without writing them again", "no logger sink", ", ".join(nm for _, _, nm in extra) or "none")


@rule("C10.R2", "expiry records produced when the clock moves are each forwarded once to the logger", "T4 pairing (shared with C04.R5)", floor=4)
def r2(ctx: Ctx) -> None:
    for q in ("Market._update_time", "Market._set_time"):
        set_time_forwarding(ctx, q)
    # the reaper builds one record per expired order (origin-traced, any loop shape) ...
    from .reaper import check as reaper_check

    reaper_check(ctx, aspects=("log",))
    # ... and returns exactly the records it built
    from ..kit import seq_value

    f = ctx.func("OrderBook._check_expired_orders")
    for p in ctx.paths(f.qualname):
        made = [e for e in p.walk_events(True) if e.kind == "call" and e.site.how == "ctor" and e.name == "ExpirationLog"]
        if p.exit[0] != "return" or not made:
            continue
        ret = p.exit[1]
        put = []
        for e in p.walk_events(True):
            if e.kind == "call" and e.recv == ret and e.name in ("append", "extend") and e.args:
                if any(strip_ver(m.term) in [strip_ver(x) for x in subterms(e.args[0])] for m in made if m.term is not None):
                    put.append(e)
        direct = ret is not None and any(strip_ver(m.term) in [strip_ver(x) for x in subterms(ret)] for m in made if m.term is not None)
        if put or direct:
            ctx.check(len(put) <= len(made), f, f.node, "each expiry record is put once into the returned list", "logs.append(ExpirationLog(...)) / logs.extend(...); return logs", f"{len(put)} insertion(s) for {len(made)} construction site(s)")
        else:
            ctx.unrec(f, f.node, "each expiry record is put once into the returned list", "how the returned list receives the records is not modelled", short(ret))


def _obj_term(src: str, holder: Path, top: Path) -> Term:
    """term of the event object named by the dotted source expression `src`"""
    parts = src.split(".")
    t: Term = ("sym", parts[0])
    for l in [x for x in top.walk_events(True) if x.kind == "loop"]:
        if holder in l.paths and l.target and l.target[0] == parts[0]:
            t = ("sym", f"{parts[0]}∈{l.loopid}")
    for a in parts[1:]:
        t = ("attr", t, a)
    return t


def _is_field_value(ctx: Ctx, v: Term, obj: Term, attr: str, holder: Path, before: Event) -> bool:
    """v is the value obj.attr has at the time of `before`: the value of the last store to it
    earlier on the path, or else a read of that field that is not older than the last call
    that may have changed it"""
    last = None
    for x in holder.events:
        if x is before:
            break
        if x.kind == "store" and x.attr == attr and strip_ver(x.base) == strip_ver(obj):
            last = x
    if last is not None:
        return last.value == v
    from ..kit import current_field_read

    want = current_field_read(ctx, before, obj, "Order", attr)
    if v == want:
        return True
    # the object may be reached through an alias with identical access path
    return strip_ver(v) == ("attr", strip_ver(obj), attr) and (len(v) > 3 and v[3] or 0) == (len(want) > 3 and want[3] or 0)


def _kwnode(call: ast.Call, name: str) -> Optional[ast.AST]:
    for k in call.keywords:
        if k.arg == name:
            v = k.value
            while isinstance(v, ast.Call) and isinstance(v.func, ast.Name) and v.func.id == "cast" and len(v.args) == 2:
                v = v.args[1]
            return v
    return None


@rule("C10.R3", "records carry the event's own final values: each field is read from the same-named field of the event object after its last write; record constructors store every parameter under its own name", "T11 field-copy agreement + T5", floor=12)
def r3(ctx: Ctx) -> None:
    # field maps at the construction sites
    for cls_, (obj, fmap) in FIELDS.items():
        q = CREATOR[cls_]
        f = ctx.func(q)
        seen = False
        for p in ctx.paths(q):
            all_loops_ = [l for l in p.walk_events(True) if l.kind == "loop"]
            for holder in [p] + [bp for l in all_loops_ for bp in l.paths]:
                for e in holder.events:
                    if not (e.kind == "call" and e.site.how == "ctor" and e.name == cls_):
                        continue
                    seen = True
                    src = obj
                    objt = None
                    if src is None:
                        # expiry: the object the record takes its order_id from (loop element or comprehension variable)
                        oid = strip_ver(dict(e.kwargs).get("order_id") or NONE)
                        if oid[0] == "attr" and oid[2] == "order_id":
                            objt = oid[1]
                            src = short(objt)
                        else:
                            for l in all_loops_:
                                if holder in l.paths:
                                    src = l.target[0]
                    bad = []
                    if objt is None:
                        objt = _obj_term(src, holder, p)
                    for field, attr in fmap.items():
                        v = kw(e, field)
                        if v is None:
                            bad.append(f"{field}=<missing>")
                            continue
                        if not _is_field_value(ctx, v, objt, attr, holder, e):
                            bad.append(f"{field}={short(v)[:60]}")
                    ctx.check(not bad, f, e.node, f"{cls_} fields are copied from {src}.<same field>", ", ".join(f"{k}={src}.{v_}" for k, v_ in fmap.items()), ", ".join(bad) or "all fields agree")
                    # nothing changes the source fields after the record is built
                    later = holder.events[holder.events.index(e) + 1:]
                    changed = [x for x in later if (x.kind == "store" and x.attr in set(fmap.values())) or (x.kind == "call" and x.site.targets and x.site.how != "byname" and any(a in set(fmap.values()) and o in ("Order", "?") for t in x.site.targets for o, a in ctx.cg.mod_attrs(t)))]
                    ctx.check(not changed, f, e.node, f"{cls_} is built after the last write to the fields it copies", "no later write to the copied fields", ", ".join(repr(x)[:60] for x in changed) or "none")
        ctx.require(seen, f"{q}: construction of {cls_} not found")
    # time stamps
    for q, cls_, field, want in (("Market._cancel_order", "CancelLog", "cancel_time", "cancel.placed_at"), ("OrderBook._check_expired_orders", "ExpirationLog", "time", "self.time")):
        f = ctx.func(q)
        for p in ctx.paths(q):
            for e in p.walk_events(True):
                if e.kind == "call" and e.site.how == "ctor" and e.name == cls_:
                    v = kw(e, field)
                    ctx.check(v is not None and key(strip_ver(v)) == want, f, e.node, f"{cls_}.{field}", want, short(v))
    # the fill record
    f = ctx.func("Market._execute_orders")
    want = {"market_id": "self.market_id", "time": "self.time", "buy_agent_id": "buy_order.agent_id", "sell_agent_id": "sell_order.agent_id",
            "buy_order_id": "buy_order.order_id", "sell_order_id": "sell_order.order_id", "price": "price", "volume": "volume"}
    for p in normal_paths(ctx.paths(f.qualname)):
        for e in calls(p):
            if e.site.how == "ctor" and e.name == "ExecutionLog":
                bad = [f"{k}={short(kw(e, k))}" for k, v in want.items() if kw(e, k) is None or key(strip_ver(kw(e, k))) != v]
                ctx.check(not bad, f, e.node, "ExecutionLog fields (buy side from the buy order, sell side from the sell order)", ", ".join(f"{k}={v}" for k, v in want.items()), ", ".join(bad) or "all fields agree")
    # constructors
    for c in _log_classes(ctx):
        init = ctx.program.classes[c].methods.get("__init__")
        if init is None:
            continue
        params = [x for x in init.params if x != "self"]
        got = {}
        for p in normal_paths(ctx.paths(init.qualname)):
            for e in stores(p):
                if e.attr is not None and key(strip_ver(e.base)) == "self":
                    got[e.attr] = key(e.value)
        bad = [f"{a}={v}" for a, v in got.items() if a != v] + [f"{x} not stored" for x in params if x not in got]
        ctx.check(not bad, init, init.node, f"{c}.__init__ stores every parameter under its own name", ", ".join(f"self.{x}={x}" for x in params), ", ".join(bad) or "agrees")


@rule("C10.R8", "a cancel record carries the time at which the cancel was accepted: the book stamps every cancel it accepts, whatever the cancel object carried before", "T4 all paths + T10", floor=1)
def r8(ctx: Ctx) -> None:
    f = ctx.func("OrderBook.cancel")
    n = 0
    for p in normal_paths(ctx.paths(f.qualname)):
        n += 1
        st = [e for e in stores(p, "placed_at") if key(strip_ver(e.base)) == "cancel"]
        ok = len(st) == 1 and key(strip_ver(st[0].value)) == "self.time"
        ctx.check(ok, f, st[0].node if st else f.node, "every accepted cancel is stamped with the book's current time", "cancel.placed_at = self.time on every normal path", (f"{len(st)} store(s): " + "; ".join(short(e.value) for e in st)) if st else "not stamped on [" + p.describe()[:100] + "]")
    ctx.require(n >= 1, "OrderBook.cancel: no normal path")
    g = ctx.func("Market._cancel_order")
    for p in normal_paths(ctx.paths(g.qualname)):
        made = [e for e in calls(p) if e.site.how == "ctor" and e.name == "CancelLog"]
        can = [e for e in calls(p) if calls_target(e, "OrderBook.cancel")]
        if made and can:
            ctx.check(p.events.index(can[0]) < p.events.index(made[0]), g, made[0].node, "the record is built after the book stamped the cancel", "order_book.cancel(cancel) < CancelLog(...)", "record built first")


@rule("C10.R4", "the logger keeps records in arrival order: write appends, bulk write extends, processing walks the list front to back and then empties it", "T5 order preservation", floor=4)
def r4(ctx: Ctx) -> None:
    def only(q: str, check) -> None:
        f = ctx.func(q)
        ps = normal_paths(ctx.paths(q))
        ok, found = check(ps)
        ctx.check(ok, f, f.node, f"{q}", found[0], found[1], guard="text", guard_text=" ".join(path_text(p_) for p_ in ps))

    def w(ps):
        ev = [e for p in ps for e in p.events if e.kind in ("call", "store") and not (e.kind == "call" and e.pure)]
        ok = len(ps) == 1 and len(ev) == 1 and ev[0].kind == "call" and ev[0].name == "append" and key(strip_ver(ev[0].recv)) == "self.pending_logs" and key(ev[0].args[0]) == "log"
        return ok, ("self.pending_logs.append(log)", "; ".join(repr(e)[:80] for e in ev))

    def bw(ps):
        ev = [e for p in ps for e in p.events if e.kind in ("call", "store") and not (e.kind == "call" and e.pure)]
        ok = len(ps) == 1 and len(ev) == 1 and ev[0].kind == "call" and ev[0].name == "extend" and key(strip_ver(ev[0].recv)) == "self.pending_logs" and key(ev[0].args[0]) == "logs"
        return ok, ("self.pending_logs.extend(logs)", "; ".join(repr(e)[:80] for e in ev))

    def pr(ps):
        ok = len(ps) == 1
        found = ""
        if ok:
            ev = [e for e in ps[0].events if e.kind in ("call", "store")]
            cs = [e for e in ev if e.kind == "call" and calls_target(e, "Logger.process")]
            st = [e for e in ev if e.kind == "store" and e.attr == "pending_logs"]
            ok = len(cs) == 1 and len(st) == 1 and key(strip_ver(kw(cs[0], "logs", 0) or NONE)) == "self.pending_logs" and ev.index(cs[0]) < ev.index(st[0])
            found = f"{len(cs)} process call(s), {len(st)} reset(s)"
        return ok, ("self.process(logs=self.pending_logs); self.pending_logs = []", found)

    def direct(argname):
        def chk(ps):
            ev = [e for p in ps for e in p.events if e.kind == "call" and calls_target(e, "Logger.process")]
            a = kw(ev[0], "logs", 0) if ev else None
            ok = len(ev) == 1 and a is not None and (key(a) == "logs" if argname == "logs" else True)
            return ok, ("self.process(logs=[log]) / self.process(logs=logs)", short(a))
        return chk

    only("Logger.write", w)
    only("Logger.bulk_write", bw)
    if len(normal_paths(ctx.paths("Logger._process"))) == 1:
        only("Logger._process", pr)
    else:
        g_ = ctx.func("Logger._process")
        ctx.unrec(g_, g_.node, "Logger._process", "processing is not the single step `process(pending); pending = []` (branches or batches): whether every pending record is handed on once, in order, is not decided")
    only("Logger.write_and_direct_process", direct("log"))
    only("Logger.bulk_write_and_direct_process", direct("logs"))
    for q, callee, arg in (("Log.read_and_write", "Logger.write", "log"), ("Log.read_and_write_with_direct_process", "Logger.write_and_direct_process", "log")):
        f = ctx.func(q)
        for p in normal_paths(ctx.paths(q)):
            cs = [e for e in calls(p) if calls_target(e, callee)]
            ok = len(cs) == 1 and key(kw(cs[0], arg, 0) or NONE) == "self" and key(strip_ver(cs[0].recv)) == "logger"
            ctx.check(ok, f, f.node, f"{q} hands the record itself to the logger once", f"logger.{callee.split('.')[1]}(log=self)", f"{len(cs)} call(s)")
    # nobody else empties, rebinds or edits the pending list: a record that was written stays until it is processed
    nw = 0
    for wr in ctx.cg.writers_of("Logger", "pending_logs"):
        nw += 1
        if wr.kind == "mutcall" and wr.detail in ("append", "extend"):
            ok = caller_ok(ctx, wr.func, lambda g: g.qualname in ("Logger.write", "Logger.bulk_write"))
            ctx.check(ok, wr.func, wr.node, "records are added to the pending list by write / bulk_write only", "Logger.write | Logger.bulk_write", wr.func.qualname)
        elif wr.kind in ("store", "rebind"):
            ok = caller_ok(ctx, wr.func, lambda g: g.qualname in ("Logger.__init__", "Logger._process"))
            ctx.check(ok, wr.func, wr.node, "the pending list is started by the constructor and emptied by _process (after it was processed) only", "Logger.__init__ | Logger._process", f"{wr.func.qualname} rebinds it: records still pending are dropped unprocessed")
        else:
            ctx.violated(wr.func, wr.node, "pending records are neither removed nor replaced before they are processed", "append / extend / reset after processing", f"{wr.func.qualname}: {wr.kind} {wr.detail}")
    ctx.require(nw >= 4, "fewer writers of Logger.pending_logs than confirmed by reading")
    f = ctx.func("Logger.process")
    for p in normal_paths(ctx.paths(f.qualname)):
        lp = loops(p)
        ok = len(lp) == 1 and key(strip_ver(lp[0].iter)) == "logs"
        ctx.check(ok, f, f.node, "records are processed front to back", "for log in logs", ", ".join(short(l.iter) for l in lp))


@rule("C10.R5", "dispatch covers every record class exactly once with its own handler and rejects anything else", "T9 dispatch exhaustiveness", floor=10)
def r5(ctx: Ctx) -> None:
    f = ctx.func("Logger.process")
    classes = _log_classes(ctx)
    ctx.require(len(classes) >= 10, "fewer Log subclasses than confirmed")
    for a in classes:
        for b in classes:
            if a != b and ctx.program.is_subclass(a, b):
                ctx.violated(f, f.node, f"record classes {a} and {b} are related by inheritance", "flat hierarchy (isinstance chain cannot shadow)", f"{a} < {b}")
    handlers: Dict[str, List[str]] = {c: [] for c in classes}
    other_ok = False
    for p in ctx.paths(f.qualname):
        for l in loops(p):
            el = ("sym", f"{l.target[0]}∈{l.loopid}")
            for bp in l.paths:
                pos = [key(c[2][1]).split(".")[-1] for c, pol, _ in bp.conds if pol and c[0] == "call" and key(c[1]) == "isinstance" and c[2][0] == el]
                hs = [e for e in calls(bp) if e.name.startswith("process_") and key(strip_ver(e.recv)) == "self"]
                if len(pos) == 1 and pos[0] in handlers:
                    for h in hs:
                        if kw(h, "log", 0) == el:
                            handlers[pos[0]].append(h.name)
                        else:
                            handlers[pos[0]].append(h.name + "(wrong argument)")
                    if not hs:
                        handlers[pos[0]].append("<none>")
                elif not pos:
                    other_ok = bp.exit[0] == "raise" and not hs
    used: Dict[str, str] = {}
    for c in classes:
        hs = handlers[c]
        ok = len(hs) == 1 and hs[0].startswith("process_") and "(" not in hs[0] and hs[0] not in used and ctx.program.lookup_method("Logger", hs[0]) is not None
        ctx.check(ok, f, f.node, f"{c} is dispatched to exactly one handler of its own", "one process_*_log(log=<the record>)", ", ".join(hs) or "not dispatched")
        if hs:
            used[hs[0]] = c
    if not other_ok and not any(handlers.values()):
        # no record class is selected by an isinstance chain at all: the dispatch is done some other way (a table keyed by
        # the class, a visitor): where an unknown class ends up there is not followed (seed C10t and its corrected version)
        ctx.unrec(f, f.node, "an unknown record class is rejected", "records are not dispatched by an isinstance chain: the dispatch mechanism is not modelled")
        return
    ctx.check(other_ok, f, f.node, "an unknown record class is rejected", "else: raise NotImplementedError", "raises" if other_ok else "falls through")


@rule("C10.R6", "begin/end records bracket the simulation, every session and every market step; boundary records are flushed at once, step records are processed directly", "T4 / T5 bracketing", floor=3)
def r6(ctx: Ctx) -> None:
    f = ctx.func(RUN)
    n = 0
    for p in normal_paths(ctx.paths(RUN)):
        has_logger = [pol for c, pol, _ in p.conds if key(strip_ver(c)) == "(self.logger is None)"]
        if not has_logger or has_logger[0]:
            continue
        n += 1
        seq = _boundary_seq(p.events)
        sl = [l for l in loops(p) if key(strip_ver(l.iter)) == "self.simulator.sessions"]
        names = [s for s in seq]
        ok = len(sl) == 1 and names[:3] == ["SimulationBeginLog", "write:SimulationBeginLog", "flush"] and names[-3:] == ["SimulationEndLog", "write:SimulationEndLog", "flush"] and "clock" in names and names.index("clock") > 2 and names.index("loop") > names.index("clock")
        ctx.check(ok, f, f.node, "simulation begin record first (flushed), simulation end record last (flushed)", "Begin, write, _process, clock, sessions..., End, write, _process", " > ".join(names))
        for l in sl:
            for bp in l.paths:
                s2 = _boundary_seq(bp.events)
                want = ["before_session", "SessionBeginLog", "write:SessionBeginLog", "flush", "steps", "after_session", "SessionEndLog", "write:SessionEndLog", "flush"]
                ctx.check(s2 == want, f, l.node, "per session: before hook, begin record (flushed), steps, after hook, end record (flushed)", " > ".join(want), " > ".join(s2))
    ctx.require(n >= 1, f"{RUN}: path with a logger not found")
    g = ctx.func(IT)
    for p in normal_paths(ctx.paths(IT)):
        steps = [l for l in loops(p) if l.iter is not None and l.iter[0] == "call" and key(l.iter[1]) == "range"]
        for sl_ in steps:
            for bp in sl_.paths:
                if bp.exit[0] == "raise":
                    continue
                inner = loops(bp)
                kinds = []
                kept = False
                for l in inner:
                    el = ("sym", f"{l.target[0]}∈{l.loopid}")
                    per_paths = []
                    src_ok = key(strip_ver(l.iter)) in ("self.simulator.markets", "markets")
                    for ip in l.paths:
                        lg = [pol for c, pol, _ in ip.conds if key(strip_ver(c)) == "(self.logger is None)"]
                        if lg and lg[-1]:
                            continue
                        per = []
                        per_paths.append(per)
                        made = [e for e in calls(ip) if e.site.how == "ctor" and e.name in ("MarketStepBeginLog", "MarketStepEndLog")]
                        written = [e for e in calls(ip) if e.name == "read_and_write_with_direct_process"]
                        if any(not any(w_.recv == m_.term for m_ in made) for w_ in written):
                            kept = True  # a record that was not built on this path (kept from an earlier step) is written
                        # a record that is built and stored away for later, not written here, is not this step's record
                        made = [m_ for m_ in made if any(w_.recv == m_.term for w_ in written) or not any(e_.kind == "store" and m_.term in list(subterms(e_.value)) for e_ in ip.events)]
                        for m in made:
                            w = [e for e in calls(ip) if e.name == "read_and_write_with_direct_process" and e.recv == m.term]
                            good = len(w) == 1 and kw(m, "market", 1) == el and key(kw(m, "session", 0) or NONE) == "session" and src_ok
                            trig = [e for e in calls(ip) if e.name.startswith("_trigger_event_") and e.name.endswith("_step_for_market")]
                            order_ok = True
                            if trig:
                                ti, wi = ip.events.index(trig[0]), ip.events.index(w[0]) if w else -1
                                order_ok = (ti < wi) if m.name == "MarketStepBeginLog" else (wi < ti and wi >= 0)
                            per.append((m.name, good and order_ok))
                    # the passes over one market loop differ only in decisions that do not concern the record
                    # (e.g. whether a hook is due): what they write has to agree
                    distinct = []
                    for per in per_paths:
                        if per not in distinct:
                            distinct.append(per)
                    if len(distinct) == 1:
                        kinds.extend(distinct[0])
                    else:
                        for per in distinct:
                            kinds.extend(per or [("<no record on some path>", False)])
                names = [k for k, _ in kinds]
                ok = names == ["MarketStepBeginLog", "MarketStepEndLog"] and all(g_ for _, g_ in kinds)
                if kept:
                    ctx.unrec(g, sl_.node, "per step and per market: a begin record before and an end record after the order phase, processed directly", "records kept from an earlier step are written again: whether they still name this session and market is not decided")
                    continue
                ctx.check(ok, g, sl_.node, "per step and per market: a begin record before and an end record after the order phase, processed directly", "for each market: MarketStepBeginLog(session, market) ... for each market: MarketStepEndLog(session, market)", str(kinds))
                # order phase between the two market loops
                um = [e for e in bp.events if e.kind == "call" and e.name == "_update_markets"]
                if um and len(inner) >= 2:
                    ctx.check(bp.events.index(inner[0]) < bp.events.index(um[0]) < bp.events.index(inner[-1]), g, sl_.node, "the order phase lies between the step-begin and step-end records", "begin loop < order phase < end loop", "order differs")


def _boundary_seq(events: List[Event]) -> List[str]:
    seq: List[str] = []
    made: Dict[Term, str] = {}
    for e in events:
        if e.kind == "loop":
            seq.append("loop")
        elif e.kind == "call":
            if e.site.how == "ctor" and e.name.endswith("Log"):
                made[e.term] = e.name
                seq.append(e.name)
            elif e.name in SINKS_ON_LOG and e.recv in made:
                seq.append(("write:" if e.name == "read_and_write" else "direct:") + made[e.recv])
            elif e.name == "_process" and e.recv is not None and key(strip_ver(e.recv)) == "self.logger":
                seq.append("flush")
            elif e.name == "_update_times_on_markets":
                seq.append("clock")
            elif e.name == "_iterate_market_updates":
                seq.append("steps")
            elif e.name == "_trigger_event_before_session":
                seq.append("before_session")
            elif e.name == "_trigger_event_after_session":
                seq.append("after_session")
    return seq


@rule("C10.R7", "every component that can write records is handed the logger: constructors pass their `logger` argument on to the base constructor, and the runner hands its logger to every market, agent and session it creates", "T11 forwarding agreement", floor=4)
def r7(ctx: Ctx) -> None:
    from ..kit import super_init_forwarding

    n = 0
    for f, node, ok, what in super_init_forwarding(ctx, "logger"):
        n += 1
        ctx.check(ok, f, node, f"{f.qualname} forwards `logger` to its base constructor", "super().__init__(..., logger=logger)", what)
    ctx.require(n >= 3, "fewer logger-taking constructors than confirmed by reading")
    m = 0
    for q in ("SequentialRunner._generate_markets", "SequentialRunner._generate_agents", "SequentialRunner._generate_sessions"):
        f = ctx.func(q)
        for p in ctx.paths(q):
            for e in p.walk_events(True):
                if e.kind == "call" and e.site.how == "ctor" and any("logger" in t.params for t in e.site.targets):
                    if "EventABC" in e.site.recv:
                        continue
                    m += 1
                    a = kw(e, "logger")
                    ctx.check(a is not None and key(strip_ver(a)) == "self.logger", f, e.node, f"{q}: {e.name} is created with the runner's logger", "logger=self.logger", short(a))
    ctx.require(m >= 3, "fewer component constructions with a logger than confirmed")


@rule("C10.H1", "mechanism shared with C04: an expiry record is written only for an order that is still resting when its lifetime ends: filled and cancelled orders have left the queue and the expiry index", "T4 pairing (same rule as C04.R6)", floor=4)
def h1(ctx: Ctx) -> None:
    from .c04 import r6 as removal_rule

    removal_rule(ctx)


@rule("C10.R9", "a record is not changed after it was made: the fields of log objects are written by their constructors only (the logger may still hold a record that something else keeps a reference to)", "T1 who-may-write over every field of every Log class", floor=8)
def r9(ctx: Ctx) -> None:
    p = ctx.program
    n = 0
    for cname in sorted(p.subclasses("Log")):
        ci = p.cls(cname)
        init = ci.methods.get("__init__")
        if init is None:
            continue
        import ast as _ast

        fields = sorted({t.attr for x in _ast.walk(init.node) if isinstance(x, (_ast.Assign, _ast.AnnAssign)) for t in (x.targets if isinstance(x, _ast.Assign) else [x.target]) if isinstance(t, _ast.Attribute) and isinstance(t.value, _ast.Name) and t.value.id == "self"})
        bad = []
        for a in fields:
            for w in ctx.cg.writers_of(cname, a, kinds=("store", "aug", "del")):
                if w.func.name == "__init__":
                    continue
                if not w.recv or cname not in w.recv:
                    continue  # receiver of another (or unknown) class
                bad.append((w, a))
        n += 1
        for w, a in bad:
            # a record that reached an agent's call back or the logger's handlers has been written: changing it there changes
            # what the logger holds.  Elsewhere (a record prepared by its maker and not yet handed on) that is not known.
            given = {x for x in w.func.params if x not in ("self",)}
            rx = w.recv_expr
            root = rx
            import ast as _ast2

            while isinstance(root, (_ast2.Attribute, _ast2.Subscript)):
                root = root.value
            from_param = isinstance(root, _ast2.Name) and root.id in given
            if not from_param:
                # a local alias of something given to the function (kept in a table filled from a parameter) counts as well
                from_param = w.func.cls is not None and (p.is_subclass(w.func.cls.name, "Agent") or p.is_subclass(w.func.cls.name, "Logger"))
            if from_param:
                ctx.violated(w.func, w.node, f"{cname}.{a} is written by the constructor only", f"{cname}.__init__", f"{w.func.qualname} changes {a} of a {cname} it was given: the record the logger holds changes with it")
            else:
                ctx.unrec(w.func, w.node, f"{cname}.{a} is written by the constructor only", f"{w.func.qualname} changes {a} of a {cname}: whether that record has been handed to the logger by then is not decided")
        if not bad:
            ctx.holds(init, init.node, f"fields of {cname} are written by the constructor only", ", ".join(fields)[:120])
    ctx.require(n >= 8, "fewer log classes with constructors than confirmed by reading")
