"""C17 -- index market values are share-weighted averages of their components."""
from __future__ import annotations

from typing import Any, Dict, List, Optional

from ..kit import caller_ok, Ctx, calls, calls_target, kw, loops, normal_paths, poly_of, rule, short, stores
from ..paths import Event, Path
from ..terms import NONE, Term, key, strip_ver, subterms


def _default_time(p: Path) -> Optional[Term]:
    """the time actually used on this path: self.time when `time is None` was decided true, else the parameter"""
    for c, pol, _ in p.conds:
        k = key(strip_ver(c))
        if k == "(time is None)":
            return ("attr", ("sym", "self"), "time") if pol else ("sym", "time")
    return None


@rule("C17.R1", "index value = sum(component price x shares) / sum(shares) over the components, with the same weight in numerator and denominator, at the requested time (now only if none is given)", "T7 shape + T8 sibling agreement", floor=4)
def r1(ctx: Ctx) -> None:
    for q, getter, series in (("IndexMarket.compute_market_index", "get_market_price", "_market_prices"), ("IndexMarket.compute_fundamental_index", "get_fundamental_price", "_fundamental_prices")):
        f = ctx.func(q)
        n = 0
        for p in normal_paths(ctx.paths(q)):
            n += 1
            t = _default_time(p)
            # a test that the index has components at all (the empty case raises either way) is no decision about the time
            other = [key(strip_ver(c)) for c, pol, _ in p.conds if key(strip_ver(c)) != "(time is None)" and not (key(strip_ver(c)) in ("self._components", "(0 == len(self._components))", "(0 < len(self._components))") )]
            ctx.check(t is not None and not other, f, f.node, "the current time is substituted only when no time is given", "if time is None: time = self.get_time()", f"decisions: {[('' if pol else 'not ') + key(strip_ver(c)) for c, pol, _ in p.conds]}")
            if t is None:
                continue
            lps = loops(p)
            ok = len(lps) == 1 and key(strip_ver(lps[0].iter)) == "self._components"
            paired = False
            if not ok and len(lps) == 1 and lps[0].iter is not None and len(lps[0].target) == 2:
                # for market, shares in zip(self._components, [m.outstanding_shares for m in self._components]):
                # the second element is the first one's share count
                from ..terms import normalise

                it = normalise(strip_ver(lps[0].iter))
                if it[0] == "call" and key(it[1]) == "zip" and len(it[2]) == 2 and key(strip_ver(it[2][0])) == "self._components":
                    c2 = normalise(strip_ver(it[2][1]))
                    if c2[0] == "comp" and len(c2[3]) == 1 and not c2[3][0][2] and key(strip_ver(c2[3][0][1])) == "self._components" and len(c2[3][0][0]) == 1 and c2[2] == ("attr", ("bound", c2[3][0][0][0]), "outstanding_shares"):
                        ok = paired = True
            if not ok and len(lps) == 1 and lps[0].iter is not None:
                it0 = strip_ver(lps[0].iter)
                if it0[0] == "call" and key(it0[1]) == "zip" and len(it0[2]) == 2 and key(strip_ver(it0[2][0])) == "self._components":
                    second = strip_ver(it0[2][1])
                    if second[0] == "attr" and second[1] == ("sym", "self"):
                        ctx.violated(f, f.node, "every component is weighted by its outstanding shares as they are now", "market.outstanding_shares read from the component when the index is computed", f"weights are taken from {short(second)}, a list kept on the index market: a share count changed since it was filled is not seen")
                        continue
            if not ok and len(lps) == 1 and "self._components" in key(strip_ver(lps[0].iter)) and key(strip_ver(lps[0].iter)) != "self._components":
                ctx.unrec(f, f.node, "one pass over the index's components", "the components are walked through a derived sequence that is not modelled", short(lps[0].iter))
                continue
            ctx.check(ok, f, f.node, "one pass over the index's components", "for market in self._components", ", ".join(short(l.iter) for l in lps))
            if not ok:
                continue
            l = lps[0]
            el = ("sym", f"{l.target[0]}∈{l.loopid}")
            w = ("attr", el, "outstanding_shares") if not paired else ("sym", f"{l.target[1]}∈{l.loopid}")
            accs = {}
            refused = False
            for bp in l.paths:
                if bp.conds and bp.exit[0] == "fall" and all(any(x[0] == "attr" and x[1] == el and x[2].startswith("_") for x in subterms(strip_ver(c))) for c, _, _ in bp.conds):
                    ctx.unrec(f, l.node, "every component contributes", "the pass branches on the component's own recorded state (the price getter was folded in with a case distinction): not modelled", bp.describe()[:100])
                    refused = True
                    continue
                if bp.conds and bp.exit[0] == "fall" and all(strip_ver(c)[0] == "call" and key(strip_ver(c)[1]) == "isinstance" and strip_ver(c)[2] and strip_ver(c)[2][0] == el for c, _, _ in bp.conds):
                    ctx.unrec(f, l.node, "every component contributes", "the pass distinguishes components by their class: what a component of another class contributes is not stated by the rule", bp.describe()[:100])
                    refused = True
                    continue
                ctx.check(not bp.conds and bp.exit[0] == "fall", f, l.node, "every component contributes", "no condition inside the loop", bp.describe()[:100])
                for name, ph in l.phi.items():
                    v = bp.env.get(name)
                    if v is not None and v != ph:
                        accs[name] = (ph, strip_ver(v))
            if refused:
                continue
            num = den = None
            for name, (ph, v) in accs.items():
                if v[0] == "bin" and v[1] == "+" and v[2] == ph:
                    inc = v[3]
                    if inc == w:
                        den = name
                    elif inc[0] == "bin" and inc[1] == "*":
                        a, b = inc[2], inc[3]
                        if a == w:
                            a, b = b, a
                        price_ok = b == w and a[0] == "call" and ((key(a[1]) == f"{key(el)}.{getter}" and (dict(a[3]).get("time") == t or (a[2] and a[2][0] == t))) or
                                                                  (key(a[1]) == f"{key(el)}._extract_data_by_time" and a[2] and a[2][0] == t and key(a[2][1]).endswith(series)))
                        if price_ok:
                            num = name
            ctx.check(num is not None and den is not None, f, l.node, f"accumulators: sum of {getter}(time) x shares and sum of the same shares", f"num += m.{getter}(time=t) * m.outstanding_shares; den += m.outstanding_shares",
                      str({k: key(v[1])[:120] for k, v in accs.items()}))
            if num is not None and den is not None:
                ok = l.init.get(num) in (("const", 0), ("const", 0.0)) and l.init.get(den) in (("const", 0), ("const", 0.0))
                ctx.check(ok, f, l.node, "both sums start at zero", "0, 0", f"{short(l.init.get(num))}, {short(l.init.get(den))}")
                r = strip_ver(p.exit[1]) if p.exit[0] == "return" else NONE
                ctx.check(r == ("bin", "/", l.out[num], l.out[den]), f, f.node, "result is the ratio of the two sums", "total_value / total_shares", short(r))
        ctx.require(n >= 2, f"{q}: expected the explicit-time and the default-time path")


@rule("C17.R2", "the public index getters forward the requested time to the computation", "T9 delegation chain", floor=3)
def r2(ctx: Ctx) -> None:
    chain = (("IndexMarket.get_index", "compute_market_index"), ("IndexMarket.get_market_index", "compute_market_index"), ("IndexMarket.get_fundamental_index", "_extract_data_by_time"))
    inl = ("IndexMarket.get_market_index", "Market.get_fundamental_price")
    for q, leaf in chain:
        f = ctx.func(q)
        qpaths = ctx.paths(q, inline=tuple(x for x in inl if x != q), keep=(leaf,))
        if leaf == "compute_market_index":
            # answers taken from a table kept on the market (a memo of the index per time): whether an entry is still the
            # weighted average of what the components show now needs every writer of the component prices -- refused (seed C20t)
            def _kept(t: Term) -> bool:
                # the answer mentions a data attribute of the market other than its clock (self._cache[...], self._cache.get(...)[i])
                return any(x[0] == "attr" and strip_ver(x[1]) == ("sym", "self") and x[2] not in ("time", leaf) and ctx.program.lookup_method("IndexMarket", x[2]) is None for x in subterms(t))

            memo = [strip_ver(p.exit[1]) for p in qpaths if p.exit[0] == "return" and _kept(strip_ver(p.exit[1]))]
            if memo:
                ctx.unrec(f, f.node, f"{q} passes its time argument through", "the getter answers from a table kept on the index market instead of computing: whether the stored value is still current is not decided", short(memo[0]))
                continue
        for p in qpaths:
            r = strip_ver(p.exit[1]) if p.exit[0] == "return" else NONE
            ok = r[0] == "call" and key(r[1]) == f"self.{leaf}" and (dict(r[3]).get("time") == ("sym", "time") or (r[2] and r[2][0] == ("sym", "time"))) and not p.conds
            if ok and leaf == "_extract_data_by_time":
                ok = key(r[2][1]) == "self._fundamental_prices"
            if not ok and leaf == "_extract_data_by_time" and p.conds:
                # the getter it delegates to (Market.get_fundamental_price) decides something before it reads: what it may answer then is C06.R4's business;
                # here: on the paths that do read the series, the time asked for is the one given
                if r[0] == "call" and key(r[1]) == f"self.{leaf}":
                    okp = (dict(r[3]).get("time") == ("sym", "time") or (r[2] and r[2][0] == ("sym", "time"))) and key(r[2][1]) == "self._fundamental_prices"
                    ctx.check(bool(okp), f, f.node, f"{q} passes its time argument through", f"self.{leaf}(time=time)", short(r))
                else:
                    ctx.unrec(f, f.node, f"{q} passes its time argument through", "the fundamental-price getter answers from somewhere else than the recorded series on this path (judged by C06.R4)", short(r))
                continue
            ctx.check(ok, f, f.node, f"{q} passes its time argument through", f"self.{leaf}(time=time)", short(r))


@rule("C17.R3", "components are registered one at a time through the validating method: duplicates and markets without outstanding shares are rejected before the list changes", "T3 guard dominates effect + T1 single writer", floor=3)
def r3(ctx: Ctx) -> None:
    for w in ctx.cg.writers_of("IndexMarket", "_components"):
        ok = caller_ok(ctx, w.func, lambda g: g.qualname in ("IndexMarket.__init__", "IndexMarket._add_market"))
        ctx.check(ok, w.func, w.node, "writer of IndexMarket._components", "IndexMarket.__init__ | IndexMarket._add_market", f"{w.func.qualname} ({w.kind} {w.detail})")
    f = ctx.func("IndexMarket._add_market")
    n = 0
    for p in ctx.paths(f.qualname):
        app = [e for e in calls(p) if e.data.get("mutates") is not None and key(strip_ver(e.data["mutates"])) == "self._components"]
        if not app:
            continue
        n += 1
        dup = [pol for c, pol, _ in p.conds if key(strip_ver(c)) == "(market in self._components)"]
        shares = [pol for c, pol, _ in p.conds if key(strip_ver(c)) == "(market.outstanding_shares is None)"]
        ok = dup == [False] and shares == [False] and len(app) == 1 and app[0].name == "append" and key(app[0].args[0]) == "market"
        ctx.check(ok, f, app[0].node, "a component is appended only after the duplicate and the outstanding-shares checks", "market not in components and shares declared -> components.append(market)", f"duplicate test={dup} shares test={shares} mutations={[e.name for e in app]}")
    ctx.require(n >= 1, "IndexMarket._add_market: appending path not found")
    # bulk / setup registration goes through it, one market at a time
    for q in ("IndexMarket._add_markets", "IndexMarket.setup"):
        g = ctx.func(q)
        for p in normal_paths(ctx.paths(q)):
            direct = [e for e in p.walk_events() if e.kind == "call" and e.data.get("mutates") is not None and key(strip_ver(e.data["mutates"])) == "self._components"]
            lp = [l for l in loops(p) if any(calls_target(c, "IndexMarket._add_market") for bp in l.paths for c in calls(bp))]
            ok = not direct and len(lp) == 1
            if ok:
                for bp in lp[0].paths:
                    cs = [c for c in calls(bp) if calls_target(c, "IndexMarket._add_market")]
                    if len(cs) != 1 or (bp.conds and bp.exit[0] != "raise"):
                        ok = False
            ctx.check(ok, g, g.node, f"{q} registers each market through _add_market", "for m in markets: self._add_market(market=m)", f"{len(lp)} loop(s), {len(direct)} direct mutation(s)")
            break
    g = ctx.func("IndexMarket.setup")
    for p in normal_paths(ctx.paths(g.qualname)):
        for l in loops(p):
            ok = any(key(x) == "settings['markets']" for x in subterms(strip_ver(l.iter)))
            ctx.check(ok, g, l.node, "components are taken from the configured list", "for name in settings['markets']", short(l.iter))
        break


@rule("C17.H1", "mechanism shared with C06: index markets are stepped after their components and record the index of the components' fundamentals for time + 1", "T5 + T7 (same rule as C06.R2)", floor=3)
def h1(ctx: Ctx) -> None:
    from .c06 import r2 as step_rule

    step_rule(ctx)


@rule("C17.R4", "the component list of an index market changes only when a component is added at set-up: nobody else edits it, neither through the field nor through the list that get_components() hands out", "T1 who-may-write + escape of the getter's result", floor=2)
def r4(ctx: Ctx) -> None:
    import ast as _ast

    n = 0
    for w in ctx.cg.writers_of("IndexMarket", "_components"):
        n += 1
        ok = w.func.qualname in ("IndexMarket.__init__", "IndexMarket._add_market", "IndexMarket._add_markets")
        ctx.check(ok, w.func, w.node, "writer of IndexMarket._components", "IndexMarket.__init__ | IndexMarket._add_market", w.func.qualname)
    mutators = ("remove", "append", "pop", "clear", "sort", "insert", "extend", "reverse", "__delitem__", "__setitem__")
    for f in ctx.program.all_functions():
        names = set()
        for x in _ast.walk(f.node):
            if isinstance(x, (_ast.Assign, _ast.AnnAssign)) and x.value is not None and isinstance(x.value, _ast.Call) and isinstance(x.value.func, _ast.Attribute) and x.value.func.attr == "get_components":
                for t in (x.targets if isinstance(x, _ast.Assign) else [x.target]):
                    if isinstance(t, _ast.Name):
                        names.add(t.id)
        if not names:
            continue
        n += 1
        bad = []
        for x in _ast.walk(f.node):
            if isinstance(x, _ast.Call) and isinstance(x.func, _ast.Attribute) and x.func.attr in mutators and isinstance(x.func.value, _ast.Name) and x.func.value.id in names:
                bad.append((x, f".{x.func.attr}()"))
            if isinstance(x, (_ast.Assign, _ast.AugAssign, _ast.Delete)):
                for t in (x.targets if isinstance(x, (_ast.Assign, _ast.Delete)) else [x.target]):
                    if isinstance(t, _ast.Subscript) and isinstance(t.value, _ast.Name) and t.value.id in names:
                        bad.append((x, "element store / delete"))
        for x, what in bad:
            ctx.violated(f, x, "the list handed out by get_components() is only read", "no change of the list (it is the index market's own component list)", f"{f.qualname}: {what} on the result of get_components(): the index is computed over the changed list from then on")
        if not bad:
            ctx.holds(f, f.node, f"{f.qualname} only reads the list handed out by get_components()", "no mutator call, no element store")
    ctx.require(n >= 2, "IndexMarket._components: writers / readers not found")
