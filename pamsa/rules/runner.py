"""Shared extraction of the run loop's structure (SequentialRunner).

`handling_blocks` finds, from the path summaries alone, every place where an order or a
cancel is handed to a market: the innermost loop-body paths that call Market._add_order or
Market._cancel_order, with the phase (normal batch vs high-frequency batch) they belong to.
"""
from __future__ import annotations

from dataclasses import dataclass, field
from typing import Dict, List, Optional, Tuple

from ..kit import Ctx, calls, calls_target, kw, loops, short
from ..paths import Event, Path
from ..terms import Term, key, strip_ver

HO = "SequentialRunner._handle_orders"
COL = "SequentialRunner._collect_orders_from_normal_agents"
UM = "SequentialRunner._update_markets"
IT = "SequentialRunner._iterate_market_updates"
RUN = "SequentialRunner._run"
ADD, CANCEL, EXEC = "Market._add_order", "Market._cancel_order", "Market._execution"


@dataclass
class Block:
    kind: str  # order | cancel
    phase: str  # normal | hft
    path: Path  # innermost loop-body path
    loop: Event  # the loop over the batch
    elem: Term  # the batch element
    accept: Event  # the _add_order / _cancel_order call
    outer: Optional[Path] = None  # enclosing iteration path (hft: the agent iteration)
    outer_loop: Optional[Event] = None


def _walk(paths: List[Path], chain: Tuple = ()) -> List[Tuple[Path, Tuple]]:
    out = []
    for p in paths:
        out.append((p, chain))
        for e in p.events:
            if e.kind == "loop":
                out.extend(_walk(e.paths, chain + ((p, e),)))
    return out


def handling_blocks(ctx: Ctx) -> List[Block]:
    cached = getattr(ctx, "_blocks", None)
    if cached is not None:
        return cached
    blocks: List[Block] = []
    seen = set()
    for p, chain in _walk(ctx.paths(HO)):
        if not chain:
            continue
        acc = [e for e in p.events if e.kind == "call" and (calls_target(e, ADD) or calls_target(e, CANCEL))]
        if not acc:
            continue
        if p.exit[0] == "raise":
            continue  # a pass that ends in an exception after the acceptance (a consistency check) handles nothing further
        outer_path, loop = chain[-1]
        if (loop.loopid, id(p)) in seen:
            continue
        # the same loop body is summarised once per enclosing path; keep one copy per body path shape
        sig = (loop.loopid, tuple((key(c), pol) for c, pol, _ in p.conds), p.exit[0])
        if sig in seen:
            continue
        seen.add(sig)
        elem = ("sym", f"{loop.target[0]}∈{loop.loopid}")
        phase = "hft" if loop.iter is not None and loop.iter[0] == "call" and loop.iter[1][0] == "attr" and loop.iter[1][2] == "submit_orders" else "normal"
        for a in acc:
            arg = a.args[0] if a.args else (a.kwargs[0][1] if a.kwargs else None)
            if arg is not None and strip_ver(arg)[0] == "call" and getattr(a, "site", None) is not None and any(x.kind == "call" and x.term == arg and x.site.how == "ctor" for x in p.events):
                # the runner hands the market an order / cancel it has made itself (not an element of an agent's batch): a
                # mechanism next to the one the rules over the handling of a batch describe
                from ..terms import Unrecognised

                raise Unrecognised(f"{HO}: the market is given {short(arg)[:60]}, an object the runner builds itself; the rules describe the handling of the elements of the agents' batches only")
            blocks.append(Block("order" if calls_target(a, ADD) else "cancel", phase, p, loop, elem, a, outer_path, chain[-2][1] if len(chain) >= 2 else None))
    ctx._blocks = blocks  # type: ignore[attr-defined]
    return blocks


def switch_cond(p: Path, attr: str) -> Optional[bool]:
    """polarity of the decision on `<x>.<attr>` carried by the path (last one wins)"""
    res = None
    for c, pol, _ in p.conds:
        c = strip_ver(c)
        if c[0] == "attr" and c[2] == attr:
            res = pol
    return res


def market_of(e: Event) -> str:
    return key(strip_ver(e.recv)) if e.recv is not None else "?"
