"""C19 -- off-grid limit prices round to the tick grid, never more aggressively.

Decided over the reals: the rewrite happens exactly for off-grid limit prices, goes down for
buys and up for sells, and lands on a multiple of the market's own tick.  NOT decided:
the `< one tick` magnitude under binary floating point.
"""
from __future__ import annotations

from typing import Any, Dict, List, Optional

from ..kit import Ctx, calls, calls_target, kw, normal_paths, poly_of, rule, short, stores
from ..paths import Event, Path
from ..terms import NONE, Term, key, strip_ver, subterms

ADD = "Market._add_order"
CHAIN = ("Market.convert_to_tick_level", "Market.convert_to_tick_level_rounded_lower", "Market.convert_to_tick_level_rounded_upper", "Market.convert_to_price")
TICK = ("attr", ("sym", "self"), "tick_size")
PRICE = ("attr", ("sym", "order"), "price")


def _paths(ctx: Ctx) -> List[Path]:
    return ctx.paths(ADD, inline=CHAIN)


def _offgrid(p: Path) -> Optional[bool]:
    """True: decided off-grid limit price; False: decided on-grid or market order; None: undecided"""
    isnone = [pol for c, pol, _ in p.conds if strip_ver(c) == ("cmp", "is", PRICE, NONE)]
    if isnone and isnone[0]:
        return False
    mod = [pol for c, pol, _ in p.conds if strip_ver(c)[0] == "cmp" and strip_ver(c)[1] == "==" and ("const", 0) in (strip_ver(c)[2], strip_ver(c)[3])
           and ("bin", "%", PRICE, TICK) in (strip_ver(c)[2], strip_ver(c)[3])]
    if isnone and not isnone[0] and mod:
        return not mod[0]
    return None


def _rewrites(p: Path) -> List[Event]:
    """stores to order.price that can change it (storing the value it already has is not a rewrite)"""
    out = []
    for e in stores(p, "price"):
        if key(strip_ver(e.base)) != "order":
            continue
        if strip_ver(e.value) == PRICE:
            continue
        out.append(e)
    return out


def _peel(t: Term):
    """t = sign * core with constant factors +-1 removed"""
    sign = 1
    while True:
        if t[0] == "bin" and t[1] == "*" and (t[2][0] == "const" or t[3][0] == "const"):
            c, r = (t[2], t[3]) if t[2][0] == "const" else (t[3], t[2])
            if c[1] in (1, 1.0) and not isinstance(c[1], bool):
                t = r
                continue
            if c[1] in (-1, -1.0):
                sign, t = -sign, r
                continue
            return None
        if t[0] == "un" and t[1] == "-":
            sign, t = -sign, t[2]
            continue
        return sign, t


def _level_form(level: Term):
    """('floor' | 'ceil', argument) for the ways a tick level is written: floor(x), ceil(x), x // y,
    -((-x) // y), s * floor(s * x) with s = +-1 (which is ceil(x) for s = -1)"""
    pk = _peel(strip_ver(level))
    if pk is None:
        return None
    sign, t = pk
    if t[0] == "call" and key(t[1]) in ("math.floor", "math.ceil") and len(t[2]) == 1:
        fn = key(t[1]).split(".")[-1]
        ak = _peel(t[2][0])
        if ak is None:
            return None
        asign, a = ak
        if a[0] == "bin" and a[1] == "/" :
            nk = _peel(a[2])
            if nk is not None and nk[0] == -1:
                asign, a = -asign, ("bin", "/", nk[1], a[3])
        if sign == 1 and asign == 1:
            return fn, a
        if sign == -1 and asign == -1:
            return ("ceil" if fn == "floor" else "floor"), a
        return None
    if t[0] == "bin" and t[1] == "//":
        nk = _peel(t[2])
        if nk is None:
            return None
        if sign == 1 and nk[0] == 1:
            return "floor", ("bin", "/", nk[1], t[3])
        if sign == -1 and nk[0] == -1:
            return "ceil", ("bin", "/", nk[1], t[3])
    return None


def _level_form_on_path(level: Term, p: Path):
    """_level_form, plus the idiom ceil(x) = floor(x) + [floor(x) < x] spelled with a branch: on a path
    where floor(x) was compared with x, floor(x) is also ceil(x) when they were found equal ('both'),
    and floor(x) + 1 is ceil(x) when floor(x) was found smaller"""
    lv = strip_ver(level)
    plus_one = False
    if lv[0] == "bin" and lv[1] == "+" and ("const", 1) in (lv[2], lv[3]):
        lv = lv[3] if lv[2] == ("const", 1) else lv[2]
        plus_one = True
    form = _level_form(lv)
    if form is None or form[0] != "floor":
        return None if plus_one else form
    fl, q = key(strip_ver(lv)), key(form[1])
    rel = None  # 'eq' | 'lt'
    for c, pol, _ in p.conds:
        c = strip_ver(c)
        if c[0] != "cmp":
            continue
        a, b = key(strip_ver(c[2])), key(strip_ver(c[3]))
        if {a, b} != {fl, q}:
            continue
        op = c[1]
        if op in ("==", "!="):
            rel = "eq" if (op == "==") == pol else "lt"
        elif op in ("<", ">"):
            strictly_below = (a == fl) == (op == "<")  # floor < q
            if strictly_below:
                rel = "lt" if pol else "eq"
        elif op in ("<=", ">="):
            at_least = (a == fl) == (op == ">=")  # floor >= q
            if at_least:
                rel = "eq" if pol else "lt"
    if plus_one:
        return ("ceil", form[1]) if rel == "lt" else None
    if rel == "eq":
        return ("both", form[1])
    return form


def _kept_state(ctx: Ctx, *ts) -> List[str]:
    """_other_state restricted to attributes that are written after construction and set-up (a remembered value), or that
    stand where the tick size stands (price / T ... * T with another T: another grid); a constant of the class is neither"""
    out = []
    for a in _other_state(*ts):
        ws = ctx.cg.writers_of("Market", a.split(".", 1)[1])
        if any(w.func.qualname not in ("Market.__init__", "Market.setup") for w in ws):
            out.append(a)
    for t in ts:
        if t is None:
            continue
        for x in subterms(strip_ver(t)):
            if x[0] == "bin" and x[1] in ("/", "%", "//") and x[2] in (PRICE, ("sym", "price")) and x[3] != TICK and _other_state(x[3]):
                out.extend(a for a in _other_state(x[3]) if a not in out)
    return out


def _other_state(*ts) -> List[str]:
    """private state of the market (other than the tick size) that a term reads: a table of tick sizes, a remembered cell, a cached reciprocal"""
    out = set()
    for t in ts:
        if t is None:
            continue
        for x in subterms(strip_ver(t)):
            if x[0] == "attr" and x[1] == ("sym", "self") and x[2].startswith("_") and x[2] not in ("_is_running",):
                out.add("self." + x[2])
    return sorted(out)


@rule("C19.R1", "the price of an order is rewritten exactly when it is a limit price that is not a multiple of the tick size", "T3 control dependence", floor=2)
def r1(ctx: Ctx) -> None:
    f = ctx.func(ADD)
    n = 0
    for p in _paths(ctx):
        if p.exit[0] == "raise":
            continue
        n += 1
        st = _rewrites(p)
        og = _offgrid(p)
        grid_conds = [c for c, _, _ in p.conds if PRICE in list(subterms(strip_ver(c))) and _kept_state(ctx, c)]
        if og is None and grid_conds:
            ctx.unrec(f, f.node, "the on-grid test is decided on every accepting path", "the path tests the price against other state of the market (" + ", ".join(_other_state(*grid_conds)[:3]) + "): the grid of this market is not the one tick size the rule knows")
            continue
        if og is None:
            ctx.violated(f, f.node, "the on-grid test is decided on every accepting path", "`price is not None and price % tick_size != 0` decided", p.describe()[:160])
            continue
        ctx.check((len(st) == 1) == og and len(st) <= 1, f, st[0].node if st else f.node, "price rewritten iff off-grid limit price", "off-grid -> one rewrite; on-grid or market order -> untouched", f"off-grid={og}, {len(st)} rewrite(s)")
    ctx.require(n >= 6, f"{ADD}: accepting paths not found")


def _side_by_truth(ctx: Ctx, f, p: Path) -> None:
    """the book files an order by the truth value of its side flag, so rounding must decide the same
    way: an identity test against True sends truthy non-bool flags (numpy.bool_) to the sell branch"""
    import ast as _ast

    for c, pol, node in p.conds:
        if key(strip_ver(c)) not in ("order.is_buy", "is_buy"):
            continue
        ident = isinstance(node, _ast.Compare) and any(isinstance(o, (_ast.Is, _ast.IsNot)) for o in node.ops) and any(isinstance(x, _ast.Constant) and isinstance(x.value, bool) for x in [node.left] + list(node.comparators))
        ctx.check(not ident, f, node, "the side is decided by the flag's truth value, exactly as the order book files the order", "`if is_buy:`", _ast.unparse(node) if node is not None else "")


@rule("C19.R2", "buy prices round down to the grid and sell prices round up; the result is that tick level times the same tick size", "T6 direction table + T7 product form", floor=2)
def r2(ctx: Ctx) -> None:
    f = ctx.func(ADD)
    seen = set()
    for p in _paths(ctx):
        if p.exit[0] == "raise":
            continue
        st = _rewrites(p)
        if len(st) != 1:
            continue
        side = [pol for c, pol, _ in p.conds if key(strip_ver(c)) in ("order.is_buy", "is_buy")]
        if not side:
            ctx.violated(f, st[0].node, "rounding direction depends on the order's side", "decision on order.is_buy", p.describe()[:160])
            continue
        _side_by_truth(ctx, f, p)
        buy = side[0]
        v = strip_ver(st[0].value)
        level = None
        if v[0] == "bin" and v[1] == "*":
            if v[2] == TICK:
                level = v[3]
            elif v[3] == TICK:
                level = v[2]
        quotient = ("bin", "/", PRICE, TICK)
        want_fn = "math.floor" if buy else "math.ceil"
        seen.add(buy)
        form = _level_form_on_path(level, p) if level is not None else None
        label = f"{'buy' if buy else 'sell'}: new price = {'floor' if buy else 'ceil'}(price / tick_size) * tick_size"
        expd = f"{want_fn}(order.price / self.tick_size) * self.tick_size"
        if form is not None and form[1] == quotient:
            ctx.check("math." + form[0] == want_fn or form[0] == "both", f, st[0].node, label, expd, short(v))
        elif level is not None and any(s_[0] == "call" and key(s_[1]) in ("round", "int", "math.trunc") for s_ in subterms(level)):
            ctx.violated(f, st[0].node, label, expd, short(v))
        elif form is not None and not (PRICE in list(subterms(form[1])) and TICK in list(subterms(form[1]))):
            # a level computed from something other than price and tick size of this market (e.g. a cached
            # reciprocal): whether it equals price / tick_size is not decidable here
            ctx.unrec(f, st[0].node, label, "the tick level is not written as floor/ceil of order.price / self.tick_size", short(v))
        elif level is not None and any(s_[0] == "call" and s_[1][0] == "attr" and "convert_to_tick_level" in s_[1][2] and key(strip_ver(s_[1][1])) != "self" for s_ in subterms(level)):
            # the level is asked of another object (e.g. the order book): its rounding is that object's, not decided here
            ctx.unrec(f, st[0].node, label, "the tick level is computed by a conversion method of another object than the market", short(v))
        elif _kept_state(ctx, v):
            ctx.unrec(f, st[0].node, label, "the new price is computed from other state of the market (" + ", ".join(_kept_state(ctx, v)[:3]) + "): whether that state agrees with price / tick_size is not decided", short(v))
        elif level is None:
            ctx.violated(f, st[0].node, label, expd, short(v))
        else:
            ctx.violated(f, st[0].node, label, expd, short(v))
    ctx.check(seen == {True, False}, f, f.node, "both sides have a rounding path", "buy and sell", str(sorted(seen)))
    # the helpers themselves (public API) agree with the table
    for q, fn in (("Market.convert_to_tick_level_rounded_lower", "math.floor"), ("Market.convert_to_tick_level_rounded_upper", "math.ceil")):
        g = ctx.func(q)
        for p in ctx.paths(q):
            if p.exit[0] == "raise":
                continue
            r = strip_ver(p.exit[1]) if p.exit[0] == "return" else NONE
            form = _level_form(r)
            quot = ("bin", "/", ("sym", "price"), TICK)
            if form is not None and form[1] == quot:
                ctx.check("math." + form[0] == fn, g, g.node, f"{q} = {fn}(price / tick_size)", f"{fn}(price / self.tick_size)", short(r))
            elif form is not None and not (TICK in list(subterms(form[1]))):
                ctx.unrec(g, g.node, f"{q} = {fn}(price / tick_size)", "the level is not written as floor/ceil of price / self.tick_size", short(r))
            elif _kept_state(ctx, r, *[c for c, _, _ in p.conds]):
                ctx.unrec(g, g.node, f"{q} = {fn}(price / tick_size)", "the level depends on other state of the market (" + ", ".join(_kept_state(ctx, r, *[c for c, _, _ in p.conds])[:3]) + ")", short(r))
            else:
                ctx.violated(g, g.node, f"{q} = {fn}(price / tick_size)", f"{fn}(price / self.tick_size)", short(r))
    g = ctx.func("Market.convert_to_tick_level")
    for p in ctx.paths(g.qualname, inline=CHAIN):
        side = [pol for c, pol, _ in p.conds if key(strip_ver(c)) == "is_buy"]
        _side_by_truth(ctx, g, p)
        r = strip_ver(p.exit[1]) if p.exit[0] == "return" else NONE
        if p.exit[0] == "raise":
            continue
        form = _level_form_on_path(r, p)
        if len(side) == 1 and form is not None:
            ctx.check(form[0] in (("floor" if side[0] else "ceil"), "both"), g, g.node, "convert_to_tick_level: buy -> lower, sell -> upper", "floor for buys, ceil for sells", f"is_buy={side} -> {short(r)}")
        elif len(side) != 1:
            ctx.violated(g, g.node, "convert_to_tick_level: buy -> lower, sell -> upper", "one decision on is_buy", f"is_buy={side} -> {short(r)}")
        else:
            ctx.unrec(g, g.node, "convert_to_tick_level: buy -> lower, sell -> upper", "the returned level is not written as floor / ceil", short(r))


@rule("C19.R3", "rounding happens before quotes are refreshed and the order is logged (that it precedes insertion into the heap is C02.R3)", "T5 ordering", floor=1)
def r3(ctx: Ctx) -> None:
    f = ctx.func(ADD)
    n = 0
    for p in _paths(ctx):
        if p.exit[0] == "raise":
            continue
        st = [e for e in stores(p, "price") if key(strip_ver(e.base)) == "order"]
        if not st:
            continue
        n += 1
        i = p.events.index(st[0])
        def uses(e: Event) -> bool:
            return e.kind == "call" and (calls_target(e, "Market._update_market_price") or (e.site.how == "ctor" and e.name == "OrderLog"))
        later = [e for e in p.events[i + 1:] if uses(e)]
        earlier = [e for e in p.events[:i] if uses(e)]
        ctx.check(len(later) == 2 and not earlier, f, st[0].node, "the rewritten price is what the quotes and the record are computed from", "rewrite < _update_market_price < OrderLog", f"{len(later)} later / {len(earlier)} earlier uses")
    ctx.require(n >= 2, f"{ADD}: rounding paths not found")


@rule("C19.H1", "mechanism shared with C10: the price recorded and kept for an accepted order is the rounded one (nothing rewrites it between rounding and the record, callees included)", "T10 field provenance (same rule as C10.R3)", floor=10)
def h1(ctx: Ctx) -> None:
    from .c10 import r3 as record_fields_rule

    record_fields_rule(ctx)



@rule("C19.H2", "whether an order carries a price to round is decided by value (an order equal to a limit order is rounded like one)", "T13 lint over Market", floor=1)
def h2(ctx: Ctx) -> None:
    from .events import check_identity_comparisons

    check_identity_comparisons(ctx, ["Market"], floor=30)


@rule("C19.H3", "mechanism shared with C13: hooks that may rewrite the price of a pending order run before the market rounds and accepts it, in both phases", "T5 ordering (the acceptance part of C13.R3)", floor=4)
def h3(ctx: Ctx) -> None:
    from .c13 import check_call_sites

    check_call_sites(ctx, {"accept"})
