"""C19 -- off-grid limit prices round to the tick grid, never more aggressively.

Decided over the reals: the rewrite happens exactly for off-grid limit prices, goes down for
buys and up for sells, and lands on a multiple of the market's own tick.  NOT decided:
the `< one tick` magnitude under binary floating point.
"""
from __future__ import annotations

from typing import Any, Dict, List, Optional

from ..kit import Ctx, calls, calls_target, kw, normal_paths, poly_of, rule, short, stores
from ..paths import Event, Path
from ..terms import NONE, Term, key, strip_ver, subterms

ADD = "Market._add_order"
CHAIN = ("Market.convert_to_tick_level", "Market.convert_to_tick_level_rounded_lower", "Market.convert_to_tick_level_rounded_upper", "Market.convert_to_price")
TICK = ("attr", ("sym", "self"), "tick_size")
PRICE = ("attr", ("sym", "order"), "price")


def _paths(ctx: Ctx) -> List[Path]:
    return ctx.paths(ADD, inline=CHAIN)


def _offgrid(p: Path) -> Optional[bool]:
    """True: decided off-grid limit price; False: decided on-grid or market order; None: undecided"""
    isnone = [pol for c, pol, _ in p.conds if strip_ver(c) == ("cmp", "is", PRICE, NONE)]
    if isnone and isnone[0]:
        return False
    mod = [pol for c, pol, _ in p.conds if strip_ver(c)[0] == "cmp" and strip_ver(c)[1] == "==" and ("const", 0) in (strip_ver(c)[2], strip_ver(c)[3])
           and ("bin", "%", PRICE, TICK) in (strip_ver(c)[2], strip_ver(c)[3])]
    if isnone and not isnone[0] and mod:
        return not mod[0]
    return None


@rule("C19.R1", "the price of an order is rewritten exactly when it is a limit price that is not a multiple of the tick size", "T3 control dependence", floor=2)
def r1(ctx: Ctx) -> None:
    f = ctx.func(ADD)
    n = 0
    for p in _paths(ctx):
        if p.exit[0] == "raise":
            continue
        n += 1
        st = [e for e in stores(p, "price") if key(strip_ver(e.base)) == "order"]
        og = _offgrid(p)
        if og is None:
            ctx.violated(f, f.node, "the on-grid test is decided on every accepting path", "`price is not None and price % tick_size != 0` decided", p.describe()[:160])
            continue
        ctx.check((len(st) == 1) == og and len(st) <= 1, f, st[0].node if st else f.node, "price rewritten iff off-grid limit price", "off-grid -> one rewrite; on-grid or market order -> untouched", f"off-grid={og}, {len(st)} rewrite(s)")
    ctx.require(n >= 6, f"{ADD}: accepting paths not found")


def _side_by_truth(ctx: Ctx, f, p: Path) -> None:
    """the book files an order by the truth value of its side flag, so rounding must decide the same
    way: an identity test against True sends truthy non-bool flags (numpy.bool_) to the sell branch"""
    import ast as _ast

    for c, pol, node in p.conds:
        if key(strip_ver(c)) not in ("order.is_buy", "is_buy"):
            continue
        ident = isinstance(node, _ast.Compare) and any(isinstance(o, (_ast.Is, _ast.IsNot)) for o in node.ops) and any(isinstance(x, _ast.Constant) and isinstance(x.value, bool) for x in [node.left] + list(node.comparators))
        ctx.check(not ident, f, node, "the side is decided by the flag's truth value, exactly as the order book files the order", "`if is_buy:`", _ast.unparse(node) if node is not None else "")


@rule("C19.R2", "buy prices round down to the grid and sell prices round up; the result is that tick level times the same tick size", "T6 direction table + T7 product form", floor=2)
def r2(ctx: Ctx) -> None:
    f = ctx.func(ADD)
    seen = set()
    for p in _paths(ctx):
        if p.exit[0] == "raise":
            continue
        st = [e for e in stores(p, "price") if key(strip_ver(e.base)) == "order"]
        if len(st) != 1:
            continue
        side = [pol for c, pol, _ in p.conds if key(strip_ver(c)) in ("order.is_buy", "is_buy")]
        if not side:
            ctx.violated(f, st[0].node, "rounding direction depends on the order's side", "decision on order.is_buy", p.describe()[:160])
            continue
        _side_by_truth(ctx, f, p)
        buy = side[0]
        v = strip_ver(st[0].value)
        level = None
        if v[0] == "bin" and v[1] == "*":
            if v[2] == TICK:
                level = v[3]
            elif v[3] == TICK:
                level = v[2]
        quotient = ("bin", "/", PRICE, TICK)
        want_fn = "math.floor" if buy else "math.ceil"
        ok = level is not None and (
            (level[0] == "call" and key(level[1]) == want_fn and len(level[2]) == 1 and level[2][0] == quotient)
            or (buy and level == ("bin", "//", PRICE, TICK))
            or (not buy and level == ("un", "-", ("bin", "//", ("un", "-", PRICE), TICK)))
        )
        seen.add(buy)
        ctx.check(ok, f, st[0].node, f"{'buy' if buy else 'sell'}: new price = {'floor' if buy else 'ceil'}(price / tick_size) * tick_size", f"{want_fn}(order.price / self.tick_size) * self.tick_size", short(v))
    ctx.check(seen == {True, False}, f, f.node, "both sides have a rounding path", "buy and sell", str(sorted(seen)))
    # the helpers themselves (public API) agree with the table
    for q, fn in (("Market.convert_to_tick_level_rounded_lower", "math.floor"), ("Market.convert_to_tick_level_rounded_upper", "math.ceil")):
        g = ctx.func(q)
        for p in ctx.paths(q):
            r = strip_ver(p.exit[1]) if p.exit[0] == "return" else NONE
            ok = r == ("call", ("name", fn), (("bin", "/", ("sym", "price"), TICK),), (), None) and not p.conds
            ctx.check(ok, g, g.node, f"{q} = {fn}(price / tick_size)", f"{fn}(price / self.tick_size)", short(r))
    g = ctx.func("Market.convert_to_tick_level")
    for p in ctx.paths(g.qualname, inline=CHAIN):
        side = [pol for c, pol, _ in p.conds if key(strip_ver(c)) == "is_buy"]
        _side_by_truth(ctx, g, p)
        r = strip_ver(p.exit[1]) if p.exit[0] == "return" else NONE
        ok = len(side) == 1 and r[0] == "call" and key(r[1]) == ("math.floor" if side[0] else "math.ceil")
        ctx.check(ok, g, g.node, "convert_to_tick_level: buy -> lower, sell -> upper", "floor for buys, ceil for sells", f"is_buy={side} -> {short(r)}")


@rule("C19.R3", "rounding happens before quotes are refreshed and the order is logged (that it precedes insertion into the heap is C02.R3)", "T5 ordering", floor=1)
def r3(ctx: Ctx) -> None:
    f = ctx.func(ADD)
    n = 0
    for p in _paths(ctx):
        if p.exit[0] == "raise":
            continue
        st = [e for e in stores(p, "price") if key(strip_ver(e.base)) == "order"]
        if not st:
            continue
        n += 1
        i = p.events.index(st[0])
        def uses(e: Event) -> bool:
            return e.kind == "call" and (calls_target(e, "Market._update_market_price") or (e.site.how == "ctor" and e.name == "OrderLog"))
        later = [e for e in p.events[i + 1:] if uses(e)]
        earlier = [e for e in p.events[:i] if uses(e)]
        ctx.check(len(later) == 2 and not earlier, f, st[0].node, "the rewritten price is what the quotes and the record are computed from", "rewrite < _update_market_price < OrderLog", f"{len(later)} later / {len(earlier)} earlier uses")
    ctx.require(n >= 2, f"{ADD}: rounding paths not found")
