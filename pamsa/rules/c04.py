"""C04 -- order accounting and lifetime: nothing lost, no fill after cancel or expiry."""
from __future__ import annotations

import ast
from typing import Any, Dict, Iterable, List, Optional, Tuple

from ..kit import path_text
from ..kit import (
    Case, Ctx, caller_ok, calls, calls_target, kw, loops, nf_cmp, normal_paths, poly_of, product_worlds, rule,
    short, stores, table_check_cases,
)
from ..paths import Event, Path
from ..terms import NONE, Term, Unrecognised, cmp_nf, key, poly_key, strip_ver, substitute, subterms, to_poly

M, L = "pams.order.MARKET_ORDER", "pams.order.LIMIT_ORDER"


def writer_allowlist(ctx: Ctx, cls: str, attr: str, allowed: Dict[str, str], handler_names: Tuple[str, ...] = ()) -> None:
    """T1: every syntactic writer of cls.attr is in the allowlist (or is an event handler
    of one of the given names)."""
    p = ctx.program
    seen = 0
    for w in ctx.cg.writers_of(cls, attr):
        f = w.func
        if w.recv and cls not in [c for r in w.recv for c in (p.mro(r) if r in p.classes else [r])] and not any(p.is_subclass(cls, r) for r in w.recv if r in p.classes):
            continue
        if not w.recv:
            # receiver type unknown: a `self.x` write inside an unrelated class is that class' own field
            if isinstance(w.recv_expr, ast.Name) and w.recv_expr.id == "self" and f.cls is not None and not p.is_subclass(f.cls.name, cls) and not p.is_subclass(cls, f.cls.name):
                continue
        seen += 1
        q = f.qualname
        if q in allowed:
            ctx.holds(f, w.node, f"write of {cls}.{attr} in {q}", expected=allowed[q], found=w.kind)
        elif handler_names and f.name in handler_names and f.cls is not None and p.is_subclass(f.cls.name, "EventABC"):
            ctx.holds(f, w.node, f"write of {cls}.{attr} in {q}", expected="event handler " + f.name, found=w.kind)
        elif caller_ok(ctx, f, lambda g: g.qualname in allowed or (bool(handler_names) and g.name in handler_names and g.cls is not None and p.is_subclass(g.cls.name, "EventABC"))):
            ctx.holds(f, w.node, f"write of {cls}.{attr} in helper {q}", expected="private helper called only from allowed writers", found=w.kind)
        else:
            ctx.violated(f, w.node, f"write of {cls}.{attr} in {q}", "writers: " + ", ".join(sorted(allowed)) + (" + handlers " + "/".join(handler_names) if handler_names else ""),
                         f"{q} writes {cls}.{attr} ({w.kind})", guard="site")
    ctx.require(seen > 0, f"no writer of {cls}.{attr} found")


@rule("C04.R1", "remaining volume of an order is written only by its constructor, the book's volume change and pre-acceptance hooks", "T1 who-may-write", floor=3)
def r1(ctx: Ctx) -> None:
    writer_allowlist(ctx, "Order", "volume", {"Order.__init__": "constructor", "OrderBook.change_order_volume": "fill accounting"}, ("hooked_before_order",))
    writer_allowlist(ctx, "Order", "is_canceled", {"Order.__init__": "constructor", "OrderBook.cancel": "cancellation"})


@rule("C04.R2", "a fill reduces both orders by exactly the logged volume", "T7 / T10", floor=1)
def r2(ctx: Ctx) -> None:
    f = ctx.func("Market._execute_orders")
    for p in normal_paths(ctx.paths(f.qualname)):
        ch = [e for e in calls(p) if calls_target(e, "OrderBook.change_order_volume")]
        logs = [e for e in calls(p) if e.site.how == "ctor" and e.name == "ExecutionLog"]
        ctx.require(len(logs) == 1, "exactly one ExecutionLog per fill expected")
        lv = kw(logs[0], "volume")
        want = {"buy_order_book": "buy_order", "sell_order_book": "sell_order"}
        got = {}
        ok = len(ch) == 2
        for e in ch:
            book = key(strip_ver(e.recv)).split(".")[-1] if e.recv is not None else "?"
            o, d = kw(e, "order", 0), kw(e, "delta", 1)
            got[book] = f"order={short(o)}, delta={short(d)}"
            good = book in want and o is not None and key(o) == want.get(book) and d is not None and lv is not None and poly_of(("bin", "+", d, lv)) == "0"
            ok = ok and good
        ok = ok and set(got) == set(want)
        ctx.check(ok, f, (ch[0].node if ch else f.node), "both books are debited by the logged volume, each for its own order",
                  "buy book: (buy_order, -volume); sell book: (sell_order, -volume)", str(got))


@rule("C04.R3", "volume change: new = old + delta; zero -> order leaves the book; negative -> rejected", "T6 decision table", floor=1)
def r3(ctx: Ctx) -> None:
    f = ctx.func("OrderBook.change_order_volume")
    paths = ctx.paths(f.qualname)
    cases: List[Case] = []
    newv = None
    for p in paths:
        st = [e for e in stores(p, "volume")]
        if len(st) != 1:
            ctx.violated(f, f.node, "single volume update", "exactly one store of order.volume", f"{len(st)} stores")
            return
        newv = st[0].value
        m = {strip_ver(newv): ("sym", "NEW")}
        conds = [(substitute(strip_ver(c), m), pol) for c, pol, _ in p.conds]
        removed = [e for e in calls(p) if calls_target(e, "OrderBook._remove") and key(kw(e, "order", 0) or NONE) == "order"]
        out = ("raise",) if p.exit[0] == "raise" else ("ok", bool(removed))
        cases.append(Case(conds, (lambda w, out=out: out), p.describe()))
    ok = newv is not None and poly_of(newv) == poly_of(("bin", "+", ("attr", ("sym", "order"), "volume"), ("sym", "delta")))
    ctx.check(ok, f, f.node, "new volume = old volume + delta", "order.volume + delta", short(newv))

    def spec(w: Dict[str, Any]) -> Any:
        v = w["NEW"]
        return ("raise",) if v < 0 else ("ok", v == 0)

    table_check_cases(ctx, f, f.node, "zero removes, negative raises", cases, [{"NEW": v} for v in (-1, 0, 1)], lambda t: key(t) == "NEW", spec)


# ----------------------------------------------------------------------------- expiry boundary
def _bucket_key(e: Event) -> Optional[Term]:
    """index term K of `self.expire_time_list[K]` used as receiver of a container call."""
    r = e.recv
    if r is not None and r[0] == "sub" and key(strip_ver(r[1])).endswith("expire_time_list"):
        return r[2]
    if r is not None and r[0] == "call" and r[1][0] == "attr" and r[1][2] in ("setdefault", "get") and key(strip_ver(r[1][1])).endswith("expire_time_list") and r[2]:
        return r[2][0]
    return None


@rule("C04.R4", "expiry boundary: insert key, delete key, reap test and Order.is_expired agree on `placed_at + ttl < now`", "T7 comparator normal forms", floor=4)
def r4(ctx: Ctx) -> None:
    PT = "placed_at + ttl"
    ren = lambda k: {"order.placed_at": "placed_at", "order.ttl": "ttl", "self.placed_at": "placed_at", "self.ttl": "ttl"}.get(k, k)  # noqa: E731
    atom = lambda t: ren(key(strip_ver(t)))  # noqa: E731
    want_key = "placed_at + ttl"
    # insertion (OrderBook.add)
    f = ctx.func("OrderBook.add")
    n = 0
    unmodelled = False
    for p in normal_paths(ctx.paths(f.qualname)):
        placed = [e for e in stores(p, "placed_at")]
        ins = [e for e in p.walk_events() if (e.kind == "call" and e.name in ("append",) and (_bucket_key(e) is not None or _new_bucket(p, e) is not None))]
        has_ttl = any((not pol) and key(strip_ver(c)) == "(order.ttl is None)" for c, pol, _ in p.conds)
        if not has_ttl:
            ctx.check(not ins, f, f.node, "orders without ttl are not indexed for expiry", "no insertion", f"{len(ins)} insertions")
            continue
        n += 1
        ctx.require(len(placed) == 1, "OrderBook.add: placed_at must be stamped exactly once")
        pv = placed[0].value
        k = _bucket_key(ins[0]) if ins and _bucket_key(ins[0]) is not None else (_new_bucket(p, ins[0]) if ins else None)
        ok = len(ins) == 1 and k is not None and poly_key(to_poly(k, atom)) == poly_key(to_poly(("bin", "+", pv, ("attr", ("sym", "order"), "ttl")), atom)) \
            and key(ins[0].args[0]) == "order"
        if not ok:
            # the expiry index is kept in another form (a heap of entries, ordered dictionaries as buckets, records
            # stored next to the orders): some write registers the order, how is not modelled
            other_reg = [e for e in p.walk_events() if (e.kind == "store" and e.attr is None and e.base is not None and "expir" in key(strip_ver(e.base))) or
                         (e.kind == "call" and e.data.get("mutates") is not None and "expir" in key(strip_ver(e.data["mutates"])) and (e.name != "append" or key(e.args[0]) != "order"))]
            wrapped = len(ins) == 1 and key(ins[0].args[0]) != "order" and any(key(x) == "order" for x in subterms(strip_ver(ins[0].args[0])))
            if (not ins and other_reg) or wrapped:
                ctx.unrec(f, (other_reg[0].node if other_reg else ins[0].node), "insert key = stamped placed_at + ttl, value = the order", "the order is registered for expiry in a form that is not modelled (no plain `bucket.append(order)`)")
                unmodelled = True
                continue
        ctx.check(ok, f, ins[0].node if ins else f.node, "insert key = stamped placed_at + ttl, value = the order", f"expire_time_list[{short(pv)} + order.ttl].append(order)",
                  f"key={short(k)}; {len(ins)} insertion(s)")
        ctx.check(key(strip_ver(pv)) == "self.time", f, placed[0].node, "acceptance time is the book's clock", "order.placed_at = self.time", short(pv))
    if unmodelled:
        return  # deletion and reaping go with the same representation
    ctx.require(n >= 1, "OrderBook.add: no path indexes an order with ttl")
    # deletion (OrderBook._remove)
    f = ctx.func("OrderBook._remove")
    for p in normal_paths(ctx.paths(f.qualname)):
        has_ttl = any((not pol) and key(strip_ver(c)) == "(order.ttl is None)" for c, pol, _ in p.conds)
        dels = [e for e in p.walk_events() if e.kind == "call" and _bucket_key(e) is not None]
        other = [e for e in p.walk_events() if (e.kind == "call" and e.name in ("pop", "clear", "popitem") and e.recv is not None and key(strip_ver(e.recv)).endswith("expire_time_list")) or (e.kind == "del" and key(strip_ver(e.base)).endswith("expire_time_list"))]
        if not has_ttl:
            continue
        ok = len(dels) == 1 and not other and dels[0].name == "remove" and key(dels[0].args[0]) == "order" and poly_key(to_poly(_bucket_key(dels[0]), atom)) == want_key
        ctx.check(ok, f, dels[0].node if dels else f.node, "a removed order leaves exactly its own expiry bucket entry", "expire_time_list[placed_at + ttl].remove(order)",
                  "; ".join(f"{e.name}@[{short(_bucket_key(e))}]" for e in dels) + ("; whole-bucket/dict operation: " + ",".join(getattr(e, 'name', 'del') for e in other) if other else ""))
    # reaping: every filter that selects expired buckets (comprehension condition or loop decision)
    f = ctx.func("OrderBook._check_expired_orders")
    filters = _expiry_filters(ctx, f.qualname)
    ctx.require(len(filters) >= 1, "_check_expired_orders: no test comparing the expiry keys with the book's clock was found")
    for descr, cond in filters:
        try:
            nf = nf_cmp(cond, integer=True, atom=lambda t: "now" if key(strip_ver(t)) == "self.time" else ("key" if t[0] in ("bound", "sym") else key(strip_ver(t))))
        except Unrecognised:
            nf = None
        ctx.check(nf == ("<=0", "1*1 + key + -1*now"), f, f.node, f"reap filter ({descr})", "key < self.time  (key - now + 1 <= 0)", str(nf))
    # whether anything is reaped is decided from the expiry index and the clock alone: an exit that depends on other
    # state of the book (a cached "next expiry", a dirty flag) needs an invariant over every writer of the index that
    # the rules do not establish (seed C04t: the cache misses orders filed into a bucket that was emptied earlier)
    for p in ctx.paths(f.qualname):
        for c, _pol, *_rest in p.conds:
            other = sorted({s_[2] for s_ in subterms(strip_ver(c)) if s_[0] == "attr" and strip_ver(s_[1]) == ("sym", "self") and s_[2] not in ("expire_time_list", "time", "priority_queue")})
            if other:
                ctx.unrec(f, f.node, "the reaper decides from the expiry index and the clock alone", f"a decision of the reaper reads self.{other[0]}: state kept beside the expiry index is not modelled", short(strip_ver(c))[:140])
                break
    f = ctx.func("Order.is_expired")
    for p in ctx.paths(f.qualname):
        if p.exit[0] != "return" or p.exit[1][0] == "const":
            continue
        try:
            nf = nf_cmp(strip_ver(p.exit[1]), integer=True, atom=lambda t: {"self.placed_at": "placed_at", "self.ttl": "ttl", "time": "now"}.get(key(strip_ver(t)), key(strip_ver(t))))
        except Unrecognised:
            nf = None
        ctx.check(nf == ("<=0", "1*1 + -1*now + placed_at + ttl"), f, f.node, "Order.is_expired boundary", "placed_at + ttl < time", str(nf))


def _expiry_filters(ctx: Ctx, qual: str) -> List[Tuple[str, Term]]:
    """conditions under which a bucket of expire_time_list is selected for reaping"""
    from ..terms import normalise

    out: List[Tuple[str, Term]] = []
    seen = set()

    def over_buckets(it: Term) -> bool:
        k = key(strip_ver(it))
        return k.startswith("self.expire_time_list")

    def from_term(t: Term) -> None:
        for s_ in subterms(normalise(strip_ver(t))):
            if s_[0] == "comp":
                for g in s_[3]:
                    if over_buckets(g[1]):
                        for c in g[2]:
                            if key(c) not in seen and "self.time" in key(c):
                                seen.add(key(c))
                                out.append((f"comprehension `{key(s_[2])[:30]}`", c))

    for p in ctx.paths(qual):
        for e in p.walk_events(True):
            if e.kind == "call":
                from_term(e.term)
            if e.kind == "loop" and e.iter is not None:
                from_term(e.iter)
                if over_buckets(e.iter):
                    for bp in e.paths:
                        collects = [x for x in bp.events if x.kind == "call" and x.name in ("append", "extend", "pop", "remove")]
                        for c, pol, _ in bp.conds:
                            c = strip_ver(c)
                            if "self.time" in key(c) and collects:
                                cc = c if pol else ("not", c)
                                if key(cc) not in seen:
                                    seen.add(key(cc))
                                    out.append(("loop over the buckets", cc))
    return out


def _new_bucket(p: Path, e: Event) -> Optional[Term]:
    """append to a fresh list that was stored as expire_time_list[K] on this path -> K."""
    if e.recv is None:
        return None
    for s in p.walk_events():
        if s.kind == "store" and s.attr is None and s.value == e.recv and key(strip_ver(s.base)).endswith("expire_time_list"):
            return s.index
    return None


# ----------------------------------------------------------------------------- clock -> reaping -> logger
def set_time_forwarding(ctx: Ctx, qual: str) -> None:
    """Every call of OrderBook._set_time in `qual` passes the market's new time, and every
    returned expiration log is forwarded exactly once to the logger (when there is one)."""
    f = ctx.func(qual)
    for p in normal_paths(ctx.paths(qual)):
        tstores = stores(p, "time", into_loops=False)
        ctx.require(len(tstores) == 1, f"{qual}: the clock must be written exactly once per path")
        newt = tstores[0].value
        sets = [e for e in calls(p, into_loops=False) if calls_target(e, "OrderBook._set_time")]
        books = sorted(key(strip_ver(e.recv)).split(".")[-1] for e in sets if e.recv is not None)
        ctx.check(books == ["buy_order_book", "sell_order_book"], f, f.node, "both books are told the new time", "buy_order_book, sell_order_book", ", ".join(books))
        has_logger = any((not pol) and key(strip_ver(c)) == "(self.logger is None)" for c, pol, _ in p.conds)
        for e in sets:
            arg = kw(e, "time", 0)
            ctx.check(arg is not None and strip_ver(arg) == strip_ver(newt), f, e.node, "book time = market time", short(newt), short(arg))
            lps = [l for l in loops(p) if l.iter == e.term]
            if not has_logger:
                continue
            ok = len(lps) == 1
            detail = f"{len(lps)} loop(s) over the book's expiration logs"
            if ok:
                l = lps[0]
                el = ("sym", f"{l.target[0]}∈{l.loopid}") if l.target else None
                for bp in l.paths:
                    ws = [c for c in calls(bp) if (c.name in ("read_and_write", "read_and_write_with_direct_process") and c.recv == el) or (c.name in ("write", "write_and_direct_process") and kw(c, "log", 0) == el)]
                    if len(ws) != 1 or bp.conds:
                        ok = False
                        detail = f"{len(ws)} logger write(s) per log, {len(bp.conds)} extra condition(s)"
            which = key(strip_ver(e.recv)).split(".")[-1] if e.recv is not None else "?"
            ctx.check(ok, f, e.node, f"every expiration log of the {which} is written once", "for log in <that book>._set_time(t): log.read_and_write(logger)", detail, **({"guard": "text", "guard_text": path_text(p)} if len(lps) == 0 and not any(len([l2 for l2 in loops(p) if l2.iter == e2.term]) > 1 for e2 in sets) else {}))


@rule("C04.R5", "every clock write tells both books the new time and forwards each expiry record once", "T4 pairing / T8 siblings", floor=8)
def r5(ctx: Ctx) -> None:
    for w in ctx.cg.writers_of("Market", "time"):
        if w.func.qualname == "Market.__init__" or (w.recv and "Market" not in w.recv and "IndexMarket" not in w.recv):
            continue
        set_time_forwarding(ctx, w.func.qualname)
    # the book's clock setter reaps
    f = ctx.func("OrderBook._set_time")
    for p in normal_paths(ctx.paths(f.qualname)):
        ts = stores(p, "time")
        cs = [e for e in calls(p) if calls_target(e, "OrderBook._check_expired_orders")]
        ok = len(ts) == 1 and key(ts[0].value) == "time" and len(cs) == 1 and p.exit[0] == "return" and p.exit[1] == cs[0].term \
            and p.events.index(ts[0]) < p.events.index(cs[0])
        ctx.check(ok, f, f.node, "book clock setter stores the time, then reaps and returns the expiry records", "self.time = time; return self._check_expired_orders()", p.describe()[:160])


@rule("C04.R6", "cancel marks the order and removes it when resting; the reaper removes exactly the expired orders and buckets", "T4 pairing", floor=4)
def r6(ctx: Ctx) -> None:
    # whole buckets leave the expiry index only when the clock has passed them (other orders may share the step)
    import ast as _ast

    nb = 0
    for wr in ctx.cg.writers_of("OrderBook", "expire_time_list"):
        n_ = wr.node
        on_index = False
        if wr.kind == "mutcall" and isinstance(n_, _ast.Call) and isinstance(n_.func, _ast.Attribute) and isinstance(n_.func.value, _ast.Attribute) and n_.func.value.attr == "expire_time_list" and wr.detail in ("pop", "popitem", "clear", "__delitem__"):
            on_index = True
        if wr.kind in ("del", "delelem"):
            tgt = n_.targets[0] if isinstance(n_, _ast.Delete) and n_.targets else None
            on_index = isinstance(tgt, _ast.Subscript) and isinstance(tgt.value, _ast.Attribute) and tgt.value.attr == "expire_time_list"
        if not on_index:
            continue
        nb += 1
        ok = caller_ok(ctx, wr.func, lambda g: g.qualname == "OrderBook._check_expired_orders")
        ctx.check(ok, wr.func, n_, "a whole bucket is dropped from the expiry index only by the reaper, once its time has passed", "OrderBook._check_expired_orders", f"{wr.func.qualname} drops a bucket: every other order that expires at that step loses its entry")
    ctx.require(nb >= 1, "OrderBook: no place that drops expired buckets found")
    f = ctx.func("OrderBook.cancel")
    for p in normal_paths(ctx.paths(f.qualname)):
        marks = [e for e in stores(p, "is_canceled")]
        ok = len(marks) == 1 and key(strip_ver(marks[0].target)) == "cancel.order.is_canceled" and marks[0].value == ("const", True)
        ctx.check(ok, f, f.node, "cancel marks the order on every path", "cancel.order.is_canceled = True", f"{len(marks)} store(s)")
        resting = [pol for c, pol, _ in p.conds if key(strip_ver(c)).startswith("(cancel.order in self.priority_queue")]
        rem = [e for e in calls(p) if calls_target(e, "OrderBook._remove") and key(strip_ver(kw(e, "order", 0) or NONE)) == "cancel.order"]
        if len(resting) != 1:
            # the scan form: for o in queue: if o == cancel.order: _remove(cancel.order); break
            scans = [l for l in loops(p) if l.iter is not None and key(strip_ver(l.iter)) == "self.priority_queue"]
            if len(scans) == 1:
                l = scans[0]
                el = ("sym", f"{l.target[0]}∈{l.loopid}")
                ops = set()
                shape_ok = True
                for bp in l.paths:
                    rm = [e for e in calls(bp) if calls_target(e, "OrderBook._remove")]
                    tests = [(strip_ver(c), pol) for c, pol, _ in bp.conds if strip_ver(c)[0] == "cmp" and {key(strip_ver(c)[2]), key(strip_ver(c)[3])} == {key(el), "cancel.order"}]
                    if rm:
                        shape_ok = shape_ok and len(rm) == 1 and key(strip_ver(kw(rm[0], "order", 0) or NONE)) in ("cancel.order", key(el)) and bp.exit[0] in ("break", "return") and any(pol for _, pol in tests)
                        ops |= {c[1] for c, pol in tests if pol}
                    else:
                        shape_ok = shape_ok and bp.exit[0] in ("fall", "continue") and all(not pol for _, pol in tests) and bool(tests)
                if shape_ok and "==" in ops:
                    ctx.holds(f, l.node, "cancel removes the order iff it is still resting", "the queue is scanned for an order equal to the cancelled one, which is then removed")
                    continue
                if shape_ok and ops == {"is"}:
                    ctx.violated(f, l.node, "cancel removes the order iff it is still resting", "the resting order is found by equality, as `in` does (an equal order is the same order: equal ids, C04.R10)", "the queue is scanned by identity only: a cancel that names the order through an equal object leaves it in the book")
                    continue
            ctx.unrec(f, f.node, "cancel removes the order iff it is still resting", "membership test `cancel.order in self.priority_queue` not found on the path")
            continue
        inline = [e for e in p.walk_events() if (e.kind == "call" and e.data.get("mutates") is not None and key(strip_ver(e.data["mutates"])).endswith("priority_queue") and e.name != "heapify") or (e.kind in ("store", "del") and e.attr is None and e.base is not None and key(strip_ver(e.base)).endswith("priority_queue"))]
        if resting[0] and not rem and inline:
            ctx.unrec(f, f.node, "cancel removes the order iff it is still resting", "the order is taken out of the queue in place (not through _remove): that form is not modelled", ", ".join(sorted({getattr(e, "name", None) or e.kind for e in inline})))
            continue
        ctx.check((len(rem) == 1) == resting[0] and not (inline and not resting[0]), f, f.node, "cancel removes the order iff it is still resting", "resting -> _remove(cancel.order); else nothing", f"resting={resting[0]} removes={len(rem)}")
    # _remove takes the order out of the queue on every normal path
    f = ctx.func("OrderBook._remove")
    for p in normal_paths(ctx.paths(f.qualname)):
        out = [e for e in calls(p) if (e.name == "heappop" and e.args and key(strip_ver(e.args[0])).endswith("priority_queue")) or (e.name == "remove" and e.recv is not None and key(strip_ver(e.recv)).endswith("priority_queue") and key(e.args[0]) == "order")]
        top = [pol for c, pol, _ in p.conds if key(strip_ver(c)) in ("(order == self.priority_queue[0])", "(self.priority_queue[0] == order)")]
        anymut = [e for e in p.walk_events() if (e.kind == "call" and e.data.get("mutates") is not None and key(strip_ver(e.data["mutates"])).endswith("priority_queue")) or (e.kind in ("store", "del") and e.attr is None and key(strip_ver(e.base)).endswith("priority_queue"))]
        ok = len(out) == 1 and (out[0].name != "heappop" or (top and top[0]))
        if not ok and len(out) == 1 and out[0].name == "heappop" and not top and p.conds:
            ctx.unrec(f, f.node, "the order leaves the priority queue (pop only when it is the top)", "the test under which the top is popped is not `order == self.priority_queue[0]`; what it compares is not decided", p.describe()[:140])
            continue
        if not ok and anymut and not out:
            ctx.unrec(f, f.node, "the order leaves the priority queue", "removal idiom not recognised (neither heappop-of-top nor remove(order)): " + ", ".join(sorted({getattr(e, "name", e.kind) for e in anymut})))
            continue
        ctx.check(ok, f, f.node, "the order leaves the priority queue (pop only when it is the top)", "heappop if top else remove(order)", ", ".join(e.name for e in out) + f" top={top}" if out else "the queue is not modified")
        # ... and out of its expiry bucket when it has one (otherwise the reaper meets a filled or cancelled order again)
        ttl = [pol for c, pol, _ in p.conds if key(strip_ver(c)) in ("(order.ttl is None)", "(None is order.ttl)")]
        etl = [e for e in p.walk_events() if (e.kind == "call" and e.data.get("mutates") is not None and "expire_time_list" in key(strip_ver(e.data["mutates"]))) or (e.kind in ("store", "del") and e.base is not None and "expire_time_list" in key(strip_ver(e.base)))]
        if ttl == [False]:
            good = [e for e in etl if e.kind == "call" and e.name == "remove" and e.args and key(e.args[0]) == "order" and strip_ver(e.recv)[0] == "sub" and key(strip_ver(e.recv)[1]) == "self.expire_time_list"]
            if good and len(etl) == 1:
                idx = strip_ver(good[0].recv)[2]
                ctx.check(poly_of(idx) == poly_of(("bin", "+", ("attr", ("sym", "order"), "placed_at"), ("attr", ("sym", "order"), "ttl"))), f, good[0].node, "a removed order with a lifetime also leaves its expiry bucket", "expire_time_list[placed_at + ttl].remove(order)", short(idx))
            elif not etl:
                ctx.violated(f, f.node, "a removed order with a lifetime also leaves its expiry bucket", "expire_time_list[placed_at + ttl].remove(order)", "the expiry index is left as it is: the order is met again (and reported as expired) when its lifetime ends")
            else:
                ctx.unrec(f, f.node, "a removed order with a lifetime also leaves its expiry bucket", "the expiry index is changed in a form that is not modelled: " + ", ".join(sorted({getattr(e, "name", None) or e.kind for e in etl})))
        elif not ttl and not etl:
            ctx.violated(f, f.node, "a removed order with a lifetime also leaves its expiry bucket", "if order.ttl is not None: expire_time_list[placed_at + ttl].remove(order)", "no such step on this path")
        elif not ttl:
            ctx.unrec(f, f.node, "a removed order with a lifetime also leaves its expiry bucket", "no decision on `order.ttl is None` found on the path")
    # reaper: decided by where the removed / recorded / popped values come from, whatever the loop shape
    from .reaper import check as reaper_check

    reaper_check(ctx, aspects=("remove", "pop"))


def _path_has(p: Path, k: str, pol: bool) -> bool:
    return any(pl == pol and key(strip_ver(c)) == k for c, pl, _ in p.conds)


@rule("C04.R7", "acceptance guards: only an unplaced, unnumbered order naming this market is accepted; only a placed order of this market is cancelled", "T3 guard dominates effects", floor=2)
def r7(ctx: Ctx) -> None:
    f = ctx.func("Market._add_order")
    n = 0
    for p in ctx.paths(f.qualname):
        eff = [e for e in p.walk_events() if (e.kind == "store" and e.attr in ("order_id", "_next_order_id")) or (e.kind == "call" and calls_target(e, "OrderBook.add"))]
        if not eff:
            continue
        n += 1
        g = {
            "market": _path_has(p, "(order.market_id == self.market_id)", True),
            "unplaced": _path_has(p, "(order.placed_at is None)", True),
            "unnumbered": _path_has(p, "(order.order_id is None)", True),
        }
        ctx.check(all(g.values()), f, eff[0].node, "numbering and insertion happen only after all three acceptance guards", "market matches, placed_at is None, order_id is None", str(g))
    ctx.require(n > 0, "Market._add_order: no accepting path")
    f = ctx.func("Market._cancel_order")
    n = 0
    for p in ctx.paths(f.qualname):
        eff = [e for e in p.walk_events() if e.kind == "call" and calls_target(e, "OrderBook.cancel")]
        if not eff:
            continue
        n += 1
        g = {
            "market": _path_has(p, "(cancel.order.market_id == self.market_id)", True),
            "numbered": _path_has(p, "(cancel.order.order_id is None)", False),
            "placed": _path_has(p, "(cancel.order.placed_at is None)", False),
        }
        ctx.check(all(g.values()), f, eff[0].node, "cancellation happens only for a placed order of this market", "market matches, order_id and placed_at set", str(g))
        books = [short(e.recv) for e in eff]
        ctx.check(len(eff) == 1, f, eff[0].node, "one book is asked to cancel", "1", str(books))
    ctx.require(n > 0, "Market._cancel_order: no cancelling path")
    # side selection: the order goes to the book of its own side
    for q, who in (("Market._add_order", "order.is_buy"), ("Market._cancel_order", "cancel.order.is_buy")):
        f = ctx.func(q)
        for p in normal_paths(ctx.paths(q)):
            for e in calls(p):
                if calls_target(e, "OrderBook.add") or calls_target(e, "OrderBook.cancel"):
                    book = key(strip_ver(e.recv)).split(".")[-1]
                    is_buy = [pol for c, pol, _ in p.conds if key(strip_ver(c)) == who]
                    ok = len(is_buy) >= 1 and ((book == "buy_order_book") == is_buy[0])
                    ctx.check(ok, f, e.node, "the book of the order's own side is used", f"{who} -> buy_order_book else sell_order_book", f"{who}={is_buy} -> {book}")


def _owner_checked(p: Path, batch: Term, agent: Term) -> bool:
    """Does the path carry a decision that implies every element of `batch` has
    agent_id == agent.agent_id?  (any / all / sum(...) > 0 spellings share one canonical form.)"""
    from ..kit import forall_pred

    for c, pol, _ in p.conds:
        fa = forall_pred(c, pol)
        if fa is None:
            continue
        pred, gens = fa
        if len(gens) != 1 or gens[0][2] or len(gens[0][0]) != 1 or strip_ver(gens[0][1]) != strip_ver(batch):
            continue
        if pred[0] != "cmp" or pred[1] != "==":
            continue
        sides = {key(pred[2]), key(pred[3])}
        if sides == {f"{gens[0][0][0]}.agent_id", f"{key(strip_ver(agent))}.agent_id"}:
            return True
    return False


@rule("C04.R8", "orders reach a market only through the runner, and only from batches whose owner was checked", "T2 who-may-call + T10 provenance", floor=6)
def r8(ctx: Ctx) -> None:
    HO = "SequentialRunner._handle_orders"
    for callee in ("Market._add_order", "Market._cancel_order"):
        sites = ctx.cg.sites_calling(callee)
        ctx.require(len(sites) >= 1, f"no call site of {callee}")
        for s in sites:
            ctx.check(caller_ok(ctx, s.caller, lambda g: g.qualname == HO), s.caller, s.node, f"caller of {callee}", HO, s.caller.qualname)
    # provenance inside the runner
    f = ctx.func(HO)
    ho_sites = ctx.cg.sites_calling(HO)
    for s in ho_sites:
        ctx.check(caller_ok(ctx, s.caller, lambda g: g.qualname == "SequentialRunner._update_markets"), s.caller, s.node, "caller of _handle_orders", "SequentialRunner._update_markets", s.caller.qualname)
    um = ctx.func("SequentialRunner._update_markets")
    for p in normal_paths(ctx.paths(um.qualname)):
        h = [e for e in calls(p) if calls_target(e, HO)]
        c = [e for e in calls(p) if calls_target(e, "SequentialRunner._collect_orders_from_normal_agents")]
        ok = len(h) == 1 and len(c) == 1 and kw(h[0], "local_orders", 1) == c[0].term
        ctx.check(ok, um, um.node, "the handled batches are exactly the collected (owner-checked) batches", "_handle_orders(local_orders=_collect_orders_from_normal_agents(...))", f"{len(c)} collect, {len(h)} handle")
    # collector: a batch is appended only after the owner check
    col = ctx.func("SequentialRunner._collect_orders_from_normal_agents")
    n = 0
    for p in ctx.paths(col.qualname):
        for l in loops(p):
            for bp in l.paths:
                for e in calls(bp):
                    if e.name == "append" and e.args and e.recv is not None and e.recv == p.exit[1] if p.exit[0] == "return" else False:
                        n += 1
                        batch = e.args[0]
                        subm = [c for c in calls(bp) if c.name == "submit_orders" and c.term == batch]
                        agent = subm[0].recv if subm else None
                        ok = agent is not None and _owner_checked(bp, batch, agent)
                        ctx.check(ok, col, e.node, "normal batch is kept only if every order carries the submitting agent's id", "spoofing check decided before append", "checked" if ok else "no decision implies all agent_ids match")
    ctx.require(n >= 1, "collector: no batch append found")
    # runner: orders handed to the market in the HFT phase come from an owner-checked batch
    n = 0
    for p in ctx.paths(HO):
        for l in [x for x in p.walk_events(True) if x.kind == "loop"]:
            for bp in l.paths:
                subm = [c for c in calls(bp, into_loops=False) if c.name == "submit_orders"]
                if not subm:
                    continue
                batch, agent = subm[0].term, subm[0].recv
                inner = [il for il in loops(bp) if il.iter == batch]
                for il in inner:
                    uses = [c for ibp in il.paths for c in calls(ibp) if calls_target(c, "Market._add_order") or calls_target(c, "Market._cancel_order")]
                    if not uses:
                        continue
                    n += 1
                    ok = agent is not None and _owner_checked(bp, batch, agent)
                    ctx.check(ok, f, il.node, "high-frequency batch is handed to the markets only if every order carries the submitting agent's id", "spoofing check decided before the orders are processed", "checked" if ok else "no decision implies all agent_ids match")
    ctx.require(n >= 1, "runner: no high-frequency batch loop found")
    # every order/cancel reaching a market in _handle_orders is an element of a checked batch
    for p in ctx.paths(HO):
        for e in p.walk_events(True):
            if e.kind == "call" and (calls_target(e, "Market._add_order") or calls_target(e, "Market._cancel_order")):
                a = kw(e, "order", 0) if calls_target(e, "Market._add_order") else kw(e, "cancel", 0)
                ok = a is not None and a[0] == "sym" and "∈" in a[1]
                if not ok and a is not None and strip_ver(a)[0] == "call" and any(x.kind == "call" and x.term == a and x.site.how == "ctor" for x in p.walk_events(True)):
                    ctx.unrec(f, e.node, "the object accepted is the batch element itself", "the runner hands the market an object it has built itself (not an element of an agent's batch): a mechanism next to the one the rule describes", short(a))
                    continue
                ctx.check(ok, f, e.node, "the object accepted is the batch element itself", "loop element", short(a))


@rule("C04.R9", "constructor rejects non-positive volume, non-positive ttl and kind/price mismatches before storing anything", "T6 decision table (interval rejection)", floor=1)
def r9(ctx: Ctx) -> None:
    f = ctx.func("Order.__init__")
    paths = ctx.paths(f.qualname)
    more = [x for x in f.params if x not in ("self", "agent_id", "market_id", "is_buy", "kind", "volume", "placed_at", "price", "order_id", "ttl")]
    tested = sorted({x for x in more for p in paths for c, _, _ in p.conds if any(s_ == ("sym", x) for s_ in subterms(strip_ver(c)))})
    if tested:
        ctx.unrec(f, f.node, "Order.__init__ validation", f"the constructor also validates parameter(s) the rule has no specification for ({', '.join(tested)}): which combinations are refused is not decided")
        return
    cases = []
    for p in paths:
        sts = stores(p)
        if p.exit[0] == "raise":
            cases.append(Case([(strip_ver(c), pol) for c, pol, _ in p.conds], (lambda w, n=len(sts): ("raise", n)), p.describe()))
        else:
            cases.append(Case([(strip_ver(c), pol) for c, pol, _ in p.conds], (lambda w: ("ok",)), p.describe()))
    atoms = {"kind", "price", "volume", "ttl", M, L}
    worlds = list(product_worlds(
        [{"kind": k} for k in ("M", "L", "X")], [{"price": v} for v in (None, -1, 0, 5)],
        [{"volume": v} for v in (-1, 0, 1)], [{"ttl": v} for v in (None, -1, 0, 1)], [{M: "M", L: "L"}],
    ))

    def spec(w: Dict[str, Any]) -> Any:
        bad = (w["kind"] == "M" and w["price"] is not None) or (w["kind"] == "L" and w["price"] is None) or w["volume"] <= 0 or (w["ttl"] is not None and w["ttl"] <= 0)
        return ("raise", 0) if bad else ("ok",)

    table_check_cases(ctx, f, f.node, "Order.__init__ validation", cases, worlds, lambda t: key(t) in atoms, spec)


@rule("C04.R10", "removal by equality removes the order meant: Order equality implies equal order ids", "T6/T9 (same rule as C02.R6)", floor=2)
def r10(ctx: Ctx) -> None:
    from .c02 import order_eq_rule

    order_eq_rule(ctx)


@rule("C04.H1", "mechanism shared with C06: the `now` that expiry is measured against is the market's clock (both books are set to it at every step)", "T4 + T7 (same rule as C06.R6)", floor=6)
def h1(ctx: Ctx) -> None:
    from .c06 import r6 as book_clock_rule

    book_clock_rule(ctx)


@rule("C04.H2", "mechanism shared with C10: the volume a cancel / expiry / fill record reports is the order's own volume at that moment (the accounting identity is read off these records)", "T10 field provenance (same rule as C10.R3)", floor=10)
def h2(ctx: Ctx) -> None:
    from .c10 import r3 as record_fields_rule

    record_fields_rule(ctx)


@rule("C04.H3", "mechanism shared with C02: an order enters a book once (OrderBook.add stamps the acceptance time the lifetime is counted from and files the order under its expiry time; only Market._add_order calls it)", "T2 who-may-call + T1 (same rule as C02.R3)", floor=5)
def h3(ctx: Ctx) -> None:
    from .c02 import r3 as enter_once_rule

    enter_once_rule(ctx)
