"""C16 -- trading halt rule: no fills on a stopped market; halt and resume on schedule.

Decided: no fill is recorded while a market is not running (first sentence).  Necessary
conditions: the halt and resume comparators and the halt's effects.  NOT decided:
run-level timing (how many steps a halt lasts in a concrete run).
"""
from __future__ import annotations

from typing import Any, Dict, List, Optional

from ..kit import iter_source, caller_ok, Ctx, calls, calls_target, kw, loops, nf_cmp, normal_paths, poly_of, rule, short, stores
from ..paths import Event, Path
from ..terms import NONE, Term, Unrecognised, cmp_nf, key, strip_ver, subterms
from .c15 import _sub_ref
from .events import declared_hooks, is_effect

THR = "TradingHaltRule"
EXO = "Market._execute_orders"


@rule("C16.R1", "a fill is recorded only while the market is running: the running test dominates every effect of the fill routine, which is the only place fills are created", "T3 guard + T2", floor=3)
def r1(ctx: Ctx) -> None:
    f = ctx.func(EXO)
    n = 0
    for p in ctx.paths(EXO):
        effs = [e for e in p.walk_events() if is_effect(ctx, e) or (e.kind == "call" and e.site.how == "ctor" and e.name == "ExecutionLog")]
        if not effs:
            continue
        n += 1
        run = [pol for c, pol, _ in p.conds if key(strip_ver(c)) in ("self._is_running", "self.is_running")]
        first = key(strip_ver(p.conds[0][0])) if p.conds else "-"
        ctx.check(bool(run) and run[0] is True and first in ("self._is_running", "self.is_running"), f, effs[0].node, "the running test is decided true before any effect of a fill", "first decision: self.is_running", f"first decision: {first}")
    ctx.require(n >= 1, f"{EXO}: no path with effects")
    for s in ctx.cg.sites_calling(EXO):
        ctx.check(caller_ok(ctx, s.caller, lambda g: g.qualname == "Market._execution"), s.caller, s.node, f"caller of {EXO}", "Market._execution", s.caller.qualname)
    made = [s for s in ctx.cg.sites if s.how == "ctor" and s.name == "ExecutionLog"]
    for s in made:
        ctx.check(caller_ok(ctx, s.caller, lambda g: g.qualname == EXO), s.caller, s.node, "fill records are created only by the fill routine", EXO, s.caller.qualname)
    ctx.require(len(made) >= 1, "no ExecutionLog construction found")


@rule("C16.R2", "halt decision: after a fill on a running target market, |p0 - p| >= |p0 * rate * (halts + 1)| stops that market, stamps the time, counts the halt and suspends the session's execution", "T7 comparator + effects (necessary condition)", floor=3)
def r2(ctx: Ctx) -> None:
    f = ctx.func(f"{THR}.hooked_after_execution")
    derived = [a for a in ("halting_time_started", "activation_count", "halting_time_length") if a in ctx.program.cls(THR).methods and ctx.program.cls(THR).methods[a].is_property]
    if derived:
        ctx.unrec(f, f.node, "state of the halt rule", f"{', '.join(derived)} is no stored field any more but computed from other state of the rule: how it relates to the halts that happened is not decided")
        return
    M = "simulator.id2market[execution_log.market_id]"
    refs = [f"{M}._extract_data_by_time(0, {M}._market_prices, allow_none=False)", f"{M}.get_market_price(0)"]
    curs = [f"{M}._extract_data_by_time(None, {M}._market_prices, allow_none=False)", f"{M}.get_market_price()"]
    rate = ("attr", ("sym", "self"), "trigger_change_rate")
    cnt = ("attr", ("sym", "self"), "activation_count")
    n = 0
    for top in ctx.paths(f.qualname):
        for l in loops(top):
            for bp in l.paths:
                effs = [e for e in bp.events if is_effect(ctx, e)]
                if not effs or bp.exit[0] == "raise":
                    continue
                n += 1
                el = ("sym", f"{l.target[0]}∈{l.loopid}")
                conds = [(strip_ver(c), pol) for c, pol, _ in top.conds]
                run = [pol for c, pol in conds if key(c) in (f"{M}._is_running", f"{M}.is_running")]
                cmpc = [(c, pol) for c, pol in conds if c[0] == "cmp" and "abs(" in key(c)]
                ok = run == [True] and len(cmpc) == 1
                detail = f"running-test={run} comparisons={len(cmpc)}"
                if ok:
                    c, pol = cmpc[0]
                    # halt <=> |thr| <= |dev|
                    lhs, rhs, op = c[2], c[3], c[1]
                    if not pol:
                        ok = False
                    thr_t = lhs[2][0] if lhs[0] == "call" and key(lhs[1]) == "abs" else None
                    dev_t = rhs[2][0] if rhs[0] == "call" and key(rhs[1]) == "abs" else None
                    ok = ok and op == "<=" and thr_t is not None and dev_t is not None
                    if ok:
                        def sub(t: Term) -> Term:
                            for rf in refs:
                                t = _sub_ref(t, rf)
                            out = t
                            for cu in curs:
                                out = _sub_cur(out, cu)
                            return out
                        want_thr = poly_of(("bin", "*", ("bin", "*", ("sym", "P0"), rate), ("bin", "+", cnt, ("const", 1))))
                        want_dev = {poly_of(("bin", "-", ("sym", "P0"), ("sym", "P"))), poly_of(("bin", "-", ("sym", "P"), ("sym", "P0")))}
                        ok = poly_of(sub(thr_t)) == want_thr and poly_of(sub(dev_t)) in want_dev
                        detail = f"|{poly_of(sub(thr_t))}| <= |{poly_of(sub(dev_t))}|"
                from ..kit import unknown_series, memo_on_self

                if not ok and len(cmpc) == 1 and "activation_count" not in key(cmpc[0][0]) and any(x[0] == "attr" and x[1] == ("sym", "self") and x[2] not in ("trigger_change_rate", "activation_count") for x in subterms(cmpc[0][0])):
                    ctx.unrec(f, f.node, "halt comparator", "the number of halts so far is not read from activation_count but derived from other state of the rule: whether it counts the halts is not decided", detail)
                elif not ok and memo_on_self(("target_markets", "halted_sessions"), *[c for c, _ in cmpc]) is not None:
                    ctx.unrec(f, f.node, "halt comparator", f"a price in the comparison is read from self.{memo_on_self(('target_markets', 'halted_sessions'), *[c for c, _ in cmpc])}, a table kept on the rule: whether an entry still equals the market's price at time 0 is not decided", detail)
                elif not ok and unknown_series(*[c for c, _ in cmpc]):
                    ctx.unrec(f, f.node, "halt comparator", "a price in the comparison is read from something that stands in for the recorded series (not the series itself)", detail)
                else:
                    ctx.check(ok, f, f.node, "halt comparator", "market running and |p0*rate*(count+1)| <= |p0 - p|, p0 = that market's price at time 0, p = its current price", detail)
                tgt = [pol for c, pol, _ in bp.conds if strip_ver(c)[0] == "cmp" and strip_ver(c)[1] == "==" and {key(strip_ver(c)[2]), key(strip_ver(c)[3])} == {key(el), M}]
                ctx.check(tgt == [True] and key(strip_ver(l.iter)) == "self.target_markets.values()", f, l.node, "only a target market is halted", "for m in targets: if m == <fill's market>", f"target test={tgt}")
                got = {}
                for e in effs:
                    if e.kind == "store":
                        got[key(strip_ver(e.target))] = strip_ver(e.value)
                want_ok = (
                    got.get(f"{key(el)}._is_running") == ("const", False)
                    and got.get("self.halting_time_started") == ("attr", el, "time")
                    and got.get("self.activation_count") is not None and poly_of(got["self.activation_count"]) == poly_of(("bin", "+", cnt, ("const", 1)))
                    and got.get("simulator.current_session.with_order_execution") == ("const", False)
                )
                ctx.check(want_ok, f, l.node, "effects of a halt", "m._is_running = False; halting_time_started = m.time; activation_count += 1; current_session.with_order_execution = False", str({k: key(v) for k, v in got.items()}))
    ctx.require(n >= 1, f"{THR}.hooked_after_execution: halting path not found")
    hooks, disabled = declared_hooks(ctx, THR)
    g = ctx.func(f"{THR}.hook_registration")
    ex = [h for h in hooks if h.hook_type == "execution"]
    ok = len(ex) == 1 and ex[0].is_before is False and ex[0].returned and (ex[0].time in (None, NONE))
    ctx.check(ok, g, g.node, "the halt decision is hooked after every fill, at all times", "EventHook(self, 'execution', False)", f"{len(ex)} execution hook(s)")
    ctx.require(bool(disabled), f"{THR}: disabled branch not found")


def _sub_cur(t: Term, cur_key: str) -> Term:
    from ..terms import map_children

    t = strip_ver(t)
    if key(t) == cur_key:
        return ("sym", "P")
    return map_children(t, lambda x: _sub_cur(x, cur_key))


@rule("C16.R3", "resumption is examined at each step begin of every target market and happens once the clock has passed halt start + length; a halted target market is left halted only for a stated reason", "T7 comparator + T3 justification of every non-resuming path", floor=2)
def r3(ctx: Ctx) -> None:
    f = ctx.func(f"{THR}.hooked_before_step_for_market")
    derived = [a for a in ("halting_time_started", "activation_count", "halting_time_length") if a in ctx.program.cls(THR).methods and ctx.program.cls(THR).methods[a].is_property]
    if derived:
        ctx.unrec(f, f.node, "state of the halt rule", f"{', '.join(derived)} is no stored field any more but computed from other state of the rule: how it relates to the halts that happened is not decided")
        return
    want = cmp_nf(">", ("attr", ("sym", "market"), "time"), ("bin", "+", ("attr", ("sym", "self"), "halting_time_started"), ("attr", ("sym", "self"), "halting_time_length")), integer=True)
    wneg = cmp_nf("<=", ("attr", ("sym", "market"), "time"), ("bin", "+", ("attr", ("sym", "self"), "halting_time_started"), ("attr", ("sym", "self"), "halting_time_length")), integer=True)

    def classify(c: Term, pol: bool, el: Term) -> str:
        """what a decision on a path says about resuming: `go` (needed for it), `skip:<why>` (a stated
        reason not to), `neutral`, `sentinel` (start time compared with a constant) or `unknown`"""
        c = strip_ver(c)
        while c[0] == "not":
            c, pol = strip_ver(c[1]), not pol
        k = key(c)
        if c[0] == "cmp" and c[1] in ("<", "<=", ">", ">="):
            try:
                nf = nf_cmp(c if pol else ("not", c), integer=True)
            except Unrecognised:
                nf = None
            if nf == want:
                return "go"
            if nf == wneg:
                return "skip:before the end of the halt"
        if c[0] == "cmp" and c[1] in ("==", "is", "!=", "is not", "in", "not in"):
            op, a, b = c[1], strip_ver(c[2]), strip_ver(c[3])
            pos = pol if op in ("==", "is", "in") else not pol
            ks = {key(a), key(b)}
            if op in ("==", "is", "!=", "is not") and ks == {key(el), "market"} and key(el) != "market":
                return "go" if pos else "skip:another market"
            if op in ("in", "not in") and key(a) == "market" and key(b) in ("self.target_markets.values()", "list(self.target_markets.values())"):
                return "go" if pos else "skip:not a target market"
            if op in ("in", "not in") and key(a) in (f"{key(el)}.market_id", "market.market_id") and key(b) in ("self.halted_sessions", "self.halted_sessions.keys()"):
                return "neutral" if pos else "skip:no halt recorded for the market"
            if op in ("==", "is", "!=", "is not") and "simulator.current_session" in ks and NONE in (a, b):
                return "neutral"
            if op in ("==", "is", "!=", "is not") and "simulator.current_session" in ks and any("halted_session" in x for x in ks):
                return "neutral" if pos else "skip:halt belongs to another session"
            if op in ("==", "!=", "is", "is not") and "self.halting_time_started" in ks and any(x[0] == "const" for x in (a, b)):
                return "sentinel"
            # x = self.halted_sessions.pop(id, S); `x is S`: no halt was recorded for the market
            for u, v in ((a, b), (b, a)):
                if op in ("==", "!=", "is", "is not") and u[0] == "call" and u[1][0] == "attr" and u[1][2] in ("pop", "get") and key(u[1][1]) == "self.halted_sessions" and len(u[2]) == 2 and strip_ver(u[2][1]) == v:
                    return "skip:no halt recorded for the market" if pos else "neutral"
        return "unknown"

    full: List[Any] = []  # (conds, events, element, node, exit)
    for top in ctx.paths(f.qualname):
        ls = [l for l in loops(top) if any(key(x) == "self.target_markets" for x in subterms(strip_ver(l.iter)))]
        others = [l for l in loops(top) if l not in ls]
        if others:
            ctx.unrec(f, others[0].node, "loop of the resume handler", "a loop that does not walk the target table is not modelled")
            return
        if ls:
            for l in ls:
                el = ("sym", f"{l.target[0]}∈{l.loopid}")
                for bp in l.paths:
                    full.append((list(top.conds) + list(bp.conds), list(bp.events), el, l.node, bp.exit[0]))
        else:
            full.append((list(top.conds), [e for e in top.events if e.kind == "store"], ("sym", "market"), f.node, top.exit[0]))
    n = 0
    for conds, evs, el, node, ex in full:
        if ex == "raise":
            continue
        ons = [e for e in evs if e.kind == "store" and e.attr in ("_is_running", "with_order_execution") and e.value != ("const", False)]
        kinds = [classify(c, pol, el) for c, pol, _ in conds]
        if ons:
            n += 1
            ctx.check(kinds.count("go") >= 1 and any(k == "go" and strip_ver(c)[0] == "cmp" and strip_ver(c)[1] in ("<", "<=", ">", ">=") for k, (c, _, _) in zip(kinds, conds)), f, node, "resume comparator", "market time > halting_time_started + halting_time_length", " & ".join(short(c) for c, _, _ in conds)[:200])
            tgt_ok = any(k == "go" and strip_ver(c)[1] not in ("<", "<=", ">", ">=") for k, (c, _, _) in zip(kinds, conds))
            run = [e for e in ons if e.attr == "_is_running"]
            ctx.check(tgt_ok and len(run) == 1 and run[0].base == el and run[0].value == ("const", True), f, node, "the market being stepped is the one set running again", "if m == market: m._is_running = True", f"target test={'yes' if tgt_ok else 'no'} running stores={[short(e.target) for e in run]}")
            continue
        why = [k for k in kinds if k.startswith("skip:")]
        if why:
            ctx.holds(f, node, f"path without resumption: {why[0][5:]}")
            continue
        shown = " & ".join(("" if pol else "not ") + short(c) for c, pol, _ in conds)[:240]
        if "sentinel" in kinds:
            ctx.violated(f, node, "every path that leaves a halted target market halted has a stated reason", "before the end of the halt / another market / no halt recorded / halt of another session", f"left halted because of the value of halting_time_started alone (any step, 0 included, can be the start of a halt): {shown}")
        elif "unknown" in kinds:
            ctx.unrec(f, node, "path without resumption", f"decision not recognised as a reason to leave the market halted: {shown}")
        else:
            ctx.violated(f, node, "every path that leaves a halted target market halted has a stated reason", "before the end of the halt / another market / no halt recorded / halt of another session", f"no reason on the path: {shown}")
    ctx.require(n >= 1, f"{THR}: resuming path not found")
    hooks, _ = declared_hooks(ctx, THR)
    g = ctx.func(f"{THR}.hook_registration")
    mh = [h for h in hooks if h.hook_type == "market"]
    ok = len(mh) == 1 and mh[0].is_before is True and mh[0].in_loop is not None and key(iter_source(mh[0].in_loop.iter)) == "self.target_markets.values()" and mh[0].returned and mh[0].time in (None, NONE)
    ctx.check(ok, g, g.node, "one step-begin hook per target market, at all times", "for m in targets: EventHook(self, 'market', True, specific_instance=m)", f"{len(mh)} market hook construction(s), returned={[h.returned for h in mh]}")


@rule("C16.R4", "placing and cancelling orders never depends on the running flag", "T3 absence of guard", floor=4)
def r4(ctx: Ctx) -> None:
    for q in ("Market._add_order", "Market._cancel_order", "OrderBook.add", "OrderBook.cancel"):
        f = ctx.func(q)
        bad = []
        for p in ctx.paths(q):
            for c, pol, _ in p.conds:
                if "_is_running" in key(strip_ver(c)) or "is_running" in key(strip_ver(c)):
                    bad.append(p.describe()[:100])
        ctx.check(not bad, f, f.node, f"{q} does not test whether the market is running", "no decision on is_running", bad[0] if bad else "none")


@rule("C16.H1", "mechanism shared with C13: the after-execution hook (where the halt is decided) runs after every fill in both phases", "T4/T5 (the after-execution part of C13.R3)", floor=1)
def h1(ctx: Ctx) -> None:
    from .c13 import check_call_sites

    check_call_sites(ctx, {"execution"})


@rule("C16.H2", "mechanism shared with C09: the halt rule resumes exactly the session it suspended (suspension marker typestate)", "typestate (same rule as C09.R3)", floor=8)
def h2(ctx: Ctx) -> None:
    from .c09 import r3 as marker_rule

    marker_rule(ctx)


@rule("C16.R5", "the rule's targets are exactly the configured markets, and each rule object keeps its own target table and halt records", "T10 provenance + per-instance state", floor=3)
def r5(ctx: Ctx) -> None:
    from .events import check_instance_state, check_target_table

    check_target_table(ctx, THR)
    n = check_instance_state(ctx, THR)
    ctx.require(n >= 2, f"{THR}: containers changed in place not found (target table and halt records are expected)")


@rule("C16.H3", "mechanism shared with C13: fill hooks and market-step-begin hooks reach every hook registered for the occurrence, each filtered on its own", "T6 + T7 (same rule as C13.R2, rows execution/after and market/before)", floor=8)
def h3(ctx: Ctx) -> None:
    from .c13 import check_triggers

    check_triggers(ctx, {("market", "before"), ("execution", "after")})


@rule("C16.H4", "mechanism shared with C08: after a fill the market price the halt line is compared with is the fill's price (the refresh never skips it)", "T6 decision table (same rule as C08.R2)", floor=1)
def h4(ctx: Ctx) -> None:
    from .c08 import r2 as refresh_rule

    refresh_rule(ctx)


@rule("C16.H5", "mechanism shared with C13: every hook the rule declares (one per target market) is entered in the table", "T3 + T6 (same rule as C13.R4)", floor=3)
def h5(ctx: Ctx) -> None:
    from .c13 import check_registration

    check_registration(ctx)


@rule("C16.H6", "mechanism shared with C18: the halt length and rate the rule runs with are the configured ones (a block's own keys override what it inherits, whatever their value)", "T4 loop structure (same rule as C18.R1)", floor=5)
def h6(ctx: Ctx) -> None:
    from .c18 import r1 as inheritance_rule

    inheritance_rule(ctx)


@rule("C16.H7", "mechanism shared with C13: the hooks the rule declares are registered for that very rule, whatever other events the session has", "T4 + closure capture (same rule as C13.R5)", floor=3)
def h7(ctx: Ctx) -> None:
    from .c13 import r5 as registration_rule

    registration_rule(ctx)


@rule("C16.H8", "mechanism shared with C09: a halt ends with its session at the latest: at every session start each market's running flag is set from the new session's execution switch, whatever it was before", "T3 + T4 (same rule as C09.R2)", floor=6)
def h8(ctx: Ctx) -> None:
    from .c09 import r2 as switch_rule

    switch_rule(ctx)


@rule("C16.R6", "the halt line and the halt length are the configured ones: nothing else (the session the rule is declared in, an earlier halt) changes them", "T10 provenance of every store outside the constructor", floor=2)
def r6(ctx: Ctx) -> None:
    from .events import check_configured_params

    check_configured_params(ctx, THR, {"halting_time_length": "haltingTimeLength", "trigger_change_rate": "triggerChangeRate"})
