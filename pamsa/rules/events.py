"""Shared helpers for the rules about event classes (C14, C15, C16)."""
from __future__ import annotations

from dataclasses import dataclass
from typing import Any, Dict, List, Optional, Tuple

from ..kit import path_text, Ctx, alloc_literal, calls, kw, loops
from ..loader import FuncInfo
from ..paths import Event, Path
from ..terms import NONE, Term, key, strip_ver, subterms


@dataclass
class Hook:
    hook_type: Optional[str]
    is_before: Optional[bool]
    time: Optional[Term]
    specific_class: Optional[Term]
    specific_instance: Optional[Term]
    in_loop: Optional[Event]
    path: Path
    event: Event
    returned: bool


def declared_hooks(ctx: Ctx, cname: str) -> Tuple[List[Hook], List[Path]]:
    """EventHook constructions on the paths of <cname>.hook_registration that return them;
    also the paths taken when the event is disabled."""
    f = ctx.func(f"{cname}.hook_registration")
    hooks: List[Hook] = []
    disabled: List[Path] = []
    for p in ctx.paths(f.qualname):
        if p.exit[0] != "return":
            continue
        en = [pol for c, pol, _ in p.conds if key(strip_ver(c)) == "self.is_enabled"]
        if en and not en[-1]:
            disabled.append(p)
        made: List[Tuple[Event, Optional[Event]]] = []
        for e in p.events:
            if e.kind == "call" and e.site.how == "ctor" and e.name == "EventHook" and "comp" not in e.ctx:
                made.append((e, None))
            if e.kind == "loop":
                for bp in e.paths:
                    for x in bp.events:
                        if x.kind == "call" and x.site.how == "ctor" and x.name == "EventHook":
                            made.append((x, e))
        # what is returned: terms reachable from the return value
        ret_terms = set()

        def collect(t: Term, depth: int = 0) -> None:
            if depth > 6:
                return
            ret_terms.add(t)
            lit = alloc_literal(p, t)
            if lit is not None and lit is not t:
                for x in lit[1]:
                    collect(x, depth + 1)
            if t[0] == "bin":
                collect(t[2], depth + 1)
                collect(t[3], depth + 1)
            if t[0] == "star":  # [a, *more]: the elements of `more` are returned as well
                collect(t[1], depth + 1)
            if t[0] in ("list", "tuple"):
                for x in t[1]:
                    collect(x, depth + 1)
            # lists filled by append inside loops
            for e in p.walk_events(True):
                if e.kind == "call" and e.name in ("append", "extend") and e.recv == t and e.args:
                    if e.args[0] not in ret_terms:
                        collect(e.args[0], depth + 1)

        collect(p.exit[1])
        # hooks built by a comprehension: the construction sits inside the comprehension term
        class _Pseudo:
            def __init__(self, it: Term):
                self.iter = it

        comps = []
        for t in list(ret_terms):
            for s_ in subterms(t):
                if s_[0] == "comp":
                    comps.append(s_)
        for e in p.walk_events(True):
            if e.kind == "call" and e.site.how == "ctor" and e.name == "EventHook" and "comp" in e.ctx and not any(e is m for m, _ in made):
                for cmp_ in comps:
                    if strip_ver(cmp_[2]) == strip_ver(e.term):
                        made.append((e, _Pseudo(cmp_[3][0][1])))  # type: ignore[arg-type]
                        ret_terms.add(e.term)
                        break
        for e, lp in made:
            ht = kw(e, "hook_type", 1)
            ib = kw(e, "is_before", 2)
            hooks.append(Hook(ht[1] if ht is not None and ht[0] == "const" else None, ib[1] if ib is not None and ib[0] == "const" else None,
                              kw(e, "time", 3), kw(e, "specific_class", 4), kw(e, "specific_instance", 5), lp, p, e, e.term in ret_terms))
    return hooks, disabled


def is_effect(ctx: Ctx, e: Event) -> bool:
    """An observable effect of a handler: store/delete on a non-local object, mutation of a
    non-local container, or a call into pams that (transitively) writes state."""
    if e.kind in ("store", "del"):
        b = e.base
        return not (b[0] == "sym" and b[1].startswith("new"))
    if e.kind == "call":
        mb = e.data.get("mutates")
        if mb is not None and not (mb[0] == "sym" and mb[1].startswith("new")):
            return True
        if e.site.targets and e.site.how != "byname":
            return any(ctx.cg.mod_attrs(t) for t in e.site.targets)
    return False


def occurrence_market_keys(handler: FuncInfo) -> List[str]:
    """Syntactic forms of `the market the occurrence belongs to` inside a handler."""
    n = handler.name
    if n in ("hooked_before_order",):
        return ["simulator.id2market[order.market_id]", "self.simulator.id2market[order.market_id]"]
    if n in ("hooked_after_order",):
        return ["simulator.id2market[order_log.market_id]", "self.simulator.id2market[order_log.market_id]"]
    if n in ("hooked_before_cancel",):
        return ["simulator.id2market[cancel.order.market_id]", "self.simulator.id2market[cancel.order.market_id]", "simulator.id2market[cancel.market_id]", "self.simulator.id2market[cancel.market_id]"]
    if n in ("hooked_after_cancel",):
        return ["simulator.id2market[cancel_log.market_id]", "self.simulator.id2market[cancel_log.market_id]"]
    if n in ("hooked_after_execution",):
        return ["simulator.id2market[execution_log.market_id]", "self.simulator.id2market[execution_log.market_id]"]
    if n.endswith("_step_for_market"):
        return ["market"]
    return []


def target_guard(c: Term, pol: bool, mkeys: List[str], loop_elems: Dict[str, Term]) -> bool:
    """(c, pol) establishes that the occurrence's market is one of the event's targets."""
    c = strip_ver(c)
    if c[0] == "cmp" and c[1] == "in" and pol and key(c[2]) in mkeys:
        k = key(c[3])
        return k in ("self.target_markets.values()", "self.target_markets") or k.startswith("self.target_markets")
    if c[0] == "cmp" and c[1] in ("==", "is") and pol:
        ks = {key(c[2]), key(c[3])}
        if ks & set(mkeys):
            other = (ks - set(mkeys)) or ks
            for o in other:
                if o.startswith("self.target_market"):
                    return True
                if o in loop_elems and key(strip_ver(loop_elems[o])).startswith("self.target_markets"):
                    return True
        # id comparison
        for a, b in ((c[2], c[3]), (c[3], c[2])):
            if a[0] == "attr" and a[2] == "market_id" and b[0] == "attr" and b[2] == "market_id" and key(b[1]).startswith("self.target_market"):
                return True
    return False


MUTATORS = ("update", "append", "pop", "clear", "setdefault", "extend", "remove", "add", "discard", "insert", "popitem")


def check_instance_state(ctx: Ctx, cname: str) -> int:
    """every container an event object changes in place through `self` is created per instance in
    __init__ (a class-level container would be shared by all rules of that class)"""
    cls = ctx.program.cls(cname)
    attrs: Dict[str, Any] = {}
    for m in cls.methods.values():
        if m.name == "__init__":
            continue
        for p in ctx.paths(m.qualname):
            for e in p.walk_events(True):
                t = None
                if e.kind in ("store", "del") and e.attr is None and e.base is not None:
                    t = strip_ver(e.base)
                elif e.kind == "call" and e.recv is not None and e.name in MUTATORS:
                    t = strip_ver(e.recv)
                if t is not None and t[0] == "attr" and t[1] == ("sym", "self"):
                    attrs.setdefault(t[2], (m, e))
    init = ctx.program.lookup_method(cname, "__init__")
    n = 0
    # a container written as a default argument is created once, with the function: every call and every object shares it
    import ast as _ast

    for m in cls.methods.values():
        a_ = m.node.args
        params = a_.posonlyargs + a_.args
        for prm, d in list(zip(params[len(params) - len(a_.defaults):], a_.defaults)) + [(k_, d_) for k_, d_ in zip(a_.kwonlyargs, a_.kw_defaults) if d_ is not None]:
            if isinstance(d, (_ast.List, _ast.Dict, _ast.Set)) or (isinstance(d, _ast.Call) and isinstance(d.func, _ast.Name) and d.func.id in ("list", "dict", "set", "defaultdict", "deque")):
                changed = any(
                    (e.kind in ("store", "del") and e.attr is None and e.base is not None and strip_ver(e.base) == ("sym", prm.arg))
                    or (e.kind == "call" and e.recv is not None and e.name in MUTATORS and strip_ver(e.recv) == ("sym", prm.arg))
                    for p in ctx.paths(m.qualname) for e in p.walk_events(True))
                n += 1
                ctx.check(not changed, m, d, f"{m.qualname}: parameter `{prm.arg}` defaults to a container", "a default container that is changed in place is shared by every call and every object of the class: default None and a fresh container inside",
                          f"`{prm.arg}={_ast.unparse(d)}` is changed in place in {m.qualname}" if changed else "only read")
    for a, (m, e) in sorted(attrs.items()):
        n += 1
        ok = init is not None
        found = "no __init__"
        if init is not None:
            ps = [p for p in ctx.paths(init.qualname) if p.exit[0] != "raise"]
            missing = [p for p in ps if not [s for s in p.walk_events() if s.kind == "store" and s.attr == a and key(strip_ver(s.base)) == "self"]]
            ok = bool(ps) and not missing
            found = "created in __init__" if ok else f"{init.qualname} does not bind self.{a}: the container found is the one on the class, shared by every {cname}"
        ctx.check(ok, m, e.node, f"{cname}.{a} is changed in place, so each instance owns its own container", f"self.{a} = <fresh container> in __init__", found)
    return n


def check_target_table(ctx: Ctx, cname: str) -> None:
    """<cname>.setup enters every configured target: target_markets[name] = simulator.name2market[name]"""
    from ..terms import normalise

    f = ctx.func(f"{cname}.setup")
    src = ("sub", ("sym", "settings"), ("const", "targetMarkets"))
    table = ("attr", ("sym", "self"), "target_markets")

    def market_of(n: Term) -> Term:
        return ("sub", ("attr", ("attr", ("sym", "self"), "simulator"), "name2market"), n)

    seen = 0
    for p in ctx.paths(f.qualname):
        if p.exit[0] == "raise":
            continue
        seen += 1
        verdicts: List[Tuple[bool, str, Any]] = []
        # a dictionary built aside and bound to the table afterwards stands for the table while it is filled
        aside = {strip_ver(s.value) for s in p.events if s.kind == "store" and s.attr == "target_markets" and key(strip_ver(s.base)) == "self" and strip_ver(s.value)[0] == "sym" and strip_ver(s.value)[1].startswith("new")}
        filled_aside = set()
        for e in p.events:
            if e.kind == "loop":
                el = ("sym", f"{e.target[0]}∈{e.loopid}") if e.target else None
                for bp in e.paths:
                    sts = [s for s in bp.walk_events(True) if (s.kind == "store" and s.attr is None and (strip_ver(s.base) == table or strip_ver(s.base) in aside)) or (s.kind == "call" and s.recv is not None and (strip_ver(s.recv) == table or strip_ver(s.recv) in aside) and s.name in MUTATORS)]
                    filled_aside |= {strip_ver(s.base) for s in sts if s.kind == "store" and strip_ver(s.base) in aside}
                    if bp.exit[0] == "raise":
                        continue
                    if not sts:
                        continue  # a loop that only validates
                    ok = strip_ver(e.iter) == src and len(sts) == 1 and sts[0].kind == "store" and strip_ver(sts[0].index) == el and strip_ver(sts[0].value) == market_of(el) and bp.exit[0] in ("fall", "continue")
                    verdicts.append((ok, "; ".join(f"{short_(s)}" for s in sts) or f"nothing entered on [{bp.describe()[:80]}]", e.node))
            elif e.kind == "call" and e.recv is not None and strip_ver(e.recv) == table and e.name in MUTATORS:
                arg = normalise(strip_ver(e.args[0])) if e.args else NONE
                ok = e.name == "update" and arg[0] == "comp" and arg[1] == "dictcomp" and len(arg[3]) == 1 and len(arg[3][0][0]) == 1 and not arg[3][0][2] and arg[3][0][1] == src
                if ok:
                    b = ("bound", arg[3][0][0][0])
                    ok = arg[2] == ("tuple", (b, market_of(b)))
                verdicts.append((ok, short_(e), e.node))
            elif e.kind == "store" and e.attr == "target_markets" and key(strip_ver(e.base)) == "self" and (strip_ver(e.value) == table or strip_ver(e.value) in filled_aside):
                pass  # the table bound to itself, or to the dictionary that was filled for it (judged where it was filled)
            elif e.kind == "store" and e.attr == "target_markets" and key(strip_ver(e.base)) == "self":
                arg = normalise(strip_ver(e.value))
                ok = arg[0] == "comp" and arg[1] == "dictcomp" and len(arg[3]) == 1 and len(arg[3][0][0]) == 1 and not arg[3][0][2] and arg[3][0][1] == src
                if ok:
                    b = ("bound", arg[3][0][0][0])
                    ok = arg[2] == ("tuple", (b, market_of(b)))
                verdicts.append((ok, short_(e), e.node))
            elif e.kind == "store" and e.attr is None and strip_ver(e.base) == table:
                verdicts.append((False, short_(e), e.node))
        if not verdicts:
            ctx.violated(f, f.node, f"{cname}: every configured target market is entered in the target table", "for name in settings['targetMarkets']: self.target_markets[name] = simulator.name2market[name]", "the table is never filled on " + p.describe()[:100])
        for ok, found, node in verdicts:
            ctx.check(ok, f, node, f"{cname}: every configured target market is entered in the target table under its own name", "for name in settings['targetMarkets']: self.target_markets[name] = simulator.name2market[name]", found, guard="text",
                      guard_text=" ".join((n_.func.attr if isinstance(n_.func, __import__("ast").Attribute) else getattr(n_.func, "id", "")) for n_ in __import__("ast").walk(f.node) if isinstance(n_, __import__("ast").Call)))  # the table is filled through a routine that is new in this tree
    ctx.require(seen >= 1, f"{cname}.setup: no normal path")


def short_(e: Event) -> str:
    from ..kit import short

    if e.kind == "store":
        return f"{short(e.target)} = {short(e.value)}"
    return short(e.term)[:200]


def check_or_defaults(ctx: Ctx, base: Optional[str], floor: int = 1) -> None:
    """`settings[k] or default` / `settings.get(k) or default` replaces a configured 0 (0.0, False)
    by the default: for a numeric setting that is a different configuration than the one given.
    Reported only where the value is numeric by the code's own account (assigned to an attribute
    typed int/float, wrapped in int()/float(), or defaulted to a number).
    base: restrict to setup() of subclasses of that class (None: every setup(settings))."""
    import ast as _ast

    def reads_settings(n: _ast.AST, names: set, local: Dict[str, _ast.AST]) -> Optional[str]:
        while isinstance(n, _ast.Call) and isinstance(n.func, _ast.Name) and n.func.id in ("int", "float") and len(n.args) == 1:
            n = n.args[0]
        if isinstance(n, _ast.Name) and n.id in local:
            return reads_settings(local[n.id], names, {})
        if isinstance(n, _ast.Subscript) and isinstance(n.value, _ast.Name) and n.value.id in names:
            return _ast.unparse(n)
        if isinstance(n, _ast.Call) and isinstance(n.func, _ast.Attribute) and n.func.attr in ("get", "pop") and isinstance(n.func.value, _ast.Name) and n.func.value.id in names:
            return _ast.unparse(n)
        return None

    def numeric_type(t: Any) -> bool:
        if t and t[0] == "opt":
            t = t[1]
        return bool(t) and t[0] == "prim" and t[1] in ("int", "float")

    ns = 0
    clean = 0
    for g in ctx.program.all_functions():
        if g.cls is None or (g.name != "setup" and base is not None):
            continue
        if g.name != "setup" and not ctx.program.is_subclass(g.cls.name, "Runner"):
            continue  # besides setup(settings), the runners read configuration blocks held in locals
        names = {p for p in g.params if "setting" in p}
        if g.name != "setup":
            names |= {n.id for n in _ast.walk(g.node) if isinstance(n, _ast.Name) and isinstance(n.ctx, _ast.Store) and "setting" in n.id}
        if not names:
            continue
        if base is not None and not ctx.program.is_subclass(g.cls.name, base):
            continue
        ns += 1
        # locals assigned exactly once
        counts: Dict[str, int] = {}
        vals: Dict[str, _ast.AST] = {}
        for n in _ast.walk(g.node):
            if isinstance(n, (_ast.Assign, _ast.AnnAssign)):
                tgts = n.targets if isinstance(n, _ast.Assign) else [n.target]
                for t in tgts:
                    if isinstance(t, _ast.Name) and n.value is not None:
                        counts[t.id] = counts.get(t.id, 0) + 1
                        vals[t.id] = n.value
        local = {k: v for k, v in vals.items() if counts[k] == 1}
        parents: Dict[_ast.AST, _ast.AST] = {}
        for n in _ast.walk(g.node):
            for c in _ast.iter_child_nodes(n):
                parents[c] = n
        bad = 0
        for n in _ast.walk(g.node):
            if not (isinstance(n, _ast.BoolOp) and isinstance(n.op, _ast.Or) and len(n.values) >= 2):
                continue
            src = reads_settings(n.values[0], names, local)
            if src is None:
                continue
            numeric = False
            top: _ast.AST = n
            while isinstance(parents.get(top), _ast.Call) and isinstance(parents[top].func, _ast.Name) and parents[top].func.id in ("int", "float"):
                top = parents[top]
                numeric = True
            d = n.values[-1]
            if isinstance(d, _ast.Constant) and isinstance(d.value, (int, float)) and not isinstance(d.value, bool):
                numeric = True
            if isinstance(d, _ast.Attribute) and isinstance(d.value, _ast.Name) and d.value.id == "self" and numeric_type(ctx.ctab.attr_type(g.cls.name, d.attr)):
                numeric = True
            par = parents.get(top)
            if isinstance(par, (_ast.Assign, _ast.AnnAssign)):
                tgts = par.targets if isinstance(par, _ast.Assign) else [par.target]
                for t in tgts:
                    if isinstance(t, _ast.Attribute) and isinstance(t.value, _ast.Name) and t.value.id == "self" and numeric_type(ctx.ctab.attr_type(g.cls.name, t.attr)):
                        numeric = True
            if numeric:
                bad += 1
                ctx.violated(g, n, f"{g.qualname} takes configured numbers as given", "presence test (`k in settings` / `is not None`) before falling back to a default", f"`{_ast.unparse(n)[:120]}`: a configured 0 counts as absent and is replaced by the default")
        # the same mistake spelled as a test: `if not settings.get(k): ...` treats a configured 0 as absent
        def numeric_evidence(name: Optional[str], node: _ast.AST) -> bool:
            for m in _ast.walk(g.node):
                if isinstance(m, _ast.Call) and isinstance(m.func, _ast.Name) and m.args:
                    a0 = m.args[0]
                    same = (name is not None and isinstance(a0, _ast.Name) and a0.id == name) or (name is None and _ast.dump(a0) == _ast.dump(node))
                    if same and m.func.id in ("int", "float"):
                        return True
                    if same and m.func.id == "isinstance" and len(m.args) == 2 and any(isinstance(x, _ast.Name) and x.id in ("int", "float") for x in _ast.walk(m.args[1])):
                        return True
            return False

        tests = []
        for n in _ast.walk(g.node):
            if isinstance(n, (_ast.If, _ast.IfExp, _ast.While)):
                tests.append(n.test)
        for t in tests:
            cands = [t]
            while cands:
                c = cands.pop()
                if isinstance(c, _ast.UnaryOp) and isinstance(c.op, _ast.Not):
                    cands.append(c.operand)
                    continue
                if isinstance(c, _ast.BoolOp):
                    cands.extend(c.values)
                    continue
                src = reads_settings(c, names, local)
                if src is None or isinstance(c, _ast.Call) and isinstance(c.func, _ast.Name):
                    continue
                nm = c.id if isinstance(c, _ast.Name) else None
                if numeric_evidence(nm, c):
                    bad += 1
                    ctx.violated(g, c, f"{g.qualname} takes configured numbers as given", "presence test (`k in settings` / `is not None`)", f"`{_ast.unparse(t)[:100]}` tests the truth value of {src}: a configured 0 counts as absent")
        if not bad:
            clean += 1
    ctx.holds(None, None, f"configured numbers are taken as given by {('setup() of ' + base + ' classes') if base else 'every setup() and runner configuration reader'}", "no `<settings read> or <default>` and no truthiness test of a settings read in a numeric place", f"{clean} of {ns} functions examined have none")
    ctx.require(ns >= floor, "fewer setup(settings) implementations than confirmed by reading")


def check_identity_comparisons(ctx: Ctx, classes: Optional[List[str]], floor: int = 1) -> None:
    """`a is b` between values that are compared by value everywhere else: numbers, strings, tuples,
    instances of a class that defines __eq__.  Identity of such values is an accident of the
    interpreter (small-int cache, interning, which object a copy or a configuration reader built).
    Reported only when the static type of an operand is known to be of that kind.
    classes: restrict to methods of these classes and their subclasses (None: all of pams)."""
    import ast as _ast
    from ..types import TypeEnv

    p = ctx.program
    # value objects: classes that define both __eq__ and __hash__ (an entity with __eq__ only, like Order, may be tested for identity on purpose)
    by_value = {c for c in p.classes if any("__eq__" in p.classes[m].methods and "__hash__" in p.classes[m].methods for m in p.mro(c) if m in p.classes)}

    def valueish(t: Any) -> Optional[str]:
        if not t:
            return None
        if t[0] == "opt":
            return valueish(t[1])
        if t[0] == "prim" and t[1] in ("int", "float", "str", "bytes", "complex"):
            return t[1]
        if t[0] == "tuple":
            return "tuple"
        if t[0] == "cls" and t[1] in by_value:
            return f"{t[1]} (a value class: defines __eq__ and __hash__)"
        return None

    def singleton(n: _ast.AST) -> bool:
        return isinstance(n, _ast.Constant) and (n.value is None or isinstance(n.value, bool) or n.value is Ellipsis)

    nf = 0
    clean = 0
    for g in p.all_functions():
        if classes is not None:
            owner = g
            while owner.outer is not None:
                owner = owner.outer
            if owner.cls is None or not any(p.is_subclass(owner.cls.name, c) for c in classes if c in p.classes):
                continue
        nf += 1
        env = None
        bad = 0
        for n in _ast.walk(g.node):
            if not isinstance(n, _ast.Compare):
                continue
            left = n.left
            for op, right in zip(n.ops, n.comparators):
                if isinstance(op, (_ast.Is, _ast.IsNot)) and not singleton(left) and not singleton(right):
                    if env is None:
                        env = TypeEnv(p, g, ctx.ctab)
                    kinds = [valueish(env.type_of(x)) for x in (left, right)]
                    const_val = [isinstance(x, _ast.Constant) and not singleton(x) for x in (left, right)]
                    why = next((k for k in kinds if k), None) or ("a literal" if any(const_val) else None)
                    if why:
                        bad += 1
                        ctx.violated(g, n, f"{g.qualname}: values are compared by value", "`==` / `!=` (identity only for None, booleans and objects without value equality)", f"`{_ast.unparse(n)[:100]}` compares by identity a value of type {why}: equal values held in distinct objects are told apart",
                                     **({} if "value class" in str(why) else {"guard": "text", "guard_text": _ast.unparse(g.node)}))
                left = right
        if not bad:
            clean += 1
    ctx.holds(None, None, f"values are compared by value in {', '.join(classes) if classes else 'pams'}", "no identity comparison of numbers, strings, tuples or instances of a value class", f"{clean} of {nf} functions examined have none")
    ctx.require(nf >= floor, "fewer functions examined than confirmed by reading")


def check_configured_params(ctx: Ctx, cname: str, params: Dict[str, str]) -> None:
    """attributes that hold configured values are written, outside the constructor, with the configured
    value only: self.<attr> = settings['<key>'] (int()/float() around it, or settings.get(key[, self.attr])).
    A value that depends on anything else is reported; another spelling of the same read is refused."""
    from ..kit import short

    p = ctx.program
    n = 0
    for m in p.cls(cname).methods.values():
        if m.name == "__init__":
            continue
        for path in ctx.paths(m.qualname):
            if path.exit[0] == "raise":
                continue
            for e in path.walk_events(True):
                if e.kind != "store" or e.attr not in params or key(strip_ver(e.base)) != "self":
                    continue
                n += 1
                k = params[e.attr]
                v = strip_ver(e.value)
                while v[0] == "call" and v[1][0] == "name" and v[1][1] in ("int", "float") and len(v[2]) == 1:
                    v = strip_ver(v[2][0])
                good = (f"settings['{k}']", f"settings.get('{k}')", f"settings.get('{k}', self.{e.attr})")
                label = f"{cname}.{e.attr} is the configured {k}"
                if key(v) in good:
                    ctx.holds(m, e.node, label, good[0], short(e.value))
                    continue
                deps = sorted({key(x) for x in subterms(v) if x[0] in ("attr", "sym") and key(x) not in ("settings", "self", f"self.{e.attr}")})
                if deps:
                    ctx.violated(m, e.node, label, f"self.{e.attr} = {good[0]}", f"{short(e.value)[:120]}: depends on {', '.join(deps)[:120]}")
                elif any(x[0] == "bool" for x in subterms(v)):
                    ctx.violated(m, e.node, label, f"self.{e.attr} = {good[0]}", f"{short(e.value)[:120]}: a truth value decides between the configured value and something else")
                else:
                    ctx.unrec(m, e.node, label, "the configured value is read in a form that is not modelled", short(e.value)[:120])
    ctx.require(n >= len(params), f"{cname}: stores of the configured parameters not found")
