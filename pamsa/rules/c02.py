"""C02 -- fills follow price-time priority; order comparison is a strict total order."""
from __future__ import annotations

from typing import Any, Dict, Iterable, List, Optional

from ..kit import (
    Ctx, caller_ok, calls, calls_target, kw, normal_paths, options, product_worlds, rule, short, stores,
    table_check, weak_orders,
)
from ..paths import Event, Path
from ..terms import subterms, NONE, Term, Unrecognised, World, key, strip_ver
from .matching import analyse_walk, pop_side, queue_side

GTLT = "Order._gt_lt"
M, L = "pams.order.MARKET_ORDER", "pams.order.LIMIT_ORDER"

_ATOMS = {
    "self.kind", "other.kind", "self.price", "other.price", "self.placed_at", "other.placed_at",
    "self.order_id", "other.order_id", "self.is_buy", "other.is_buy", "gt", M, L,
}


def _order_worlds() -> Iterable[Dict[str, Any]]:
    for ks in ("M", "L"):
        for ko in ("M", "L"):
            if ks == "L" and ko == "L":
                prices = [{"self.price": w["a"], "other.price": w["b"]} for w in weak_orders(["a", "b"])]
            else:
                prices = [{"self.price": None if ks == "M" else 0, "other.price": None if ko == "M" else 0}]
            times = [{"self.placed_at": w["a"], "other.placed_at": w["b"]} for w in weak_orders(["a", "b"])]
            ids = [{"self.order_id": w["a"], "other.order_id": w["b"]} for w in weak_orders(["a", "b"])]
            for w in product_worlds(prices, times, ids, options("self.is_buy", [True, False]), options("gt", [True, False])):
                w.update({"self.kind": ks, "other.kind": ko, M: "M", L: "L"})
                w["other.is_buy"] = w["self.is_buy"]  # comparability is checked first: both orders are of one side
                yield w


def _spec(w: Dict[str, Any]) -> Any:
    def rank(who: str):
        kind = 0 if w[f"{who}.kind"] == "M" else 1
        price = 0
        if w[f"{who}.kind"] == "L":
            price = -w[f"{who}.price"] if w["self.is_buy"] else w[f"{who}.price"]
        return (kind, price if w["self.kind"] == w["other.kind"] == "L" else 0, w[f"{who}.placed_at"], w[f"{who}.order_id"])

    a, b = rank("self"), rank("other")
    return ("ret", a > b) if w["gt"] else ("ret", a < b)


def _outcome(p: Path, w: World) -> Any:
    if p.exit[0] == "raise":
        return ("raise",)
    if p.exit[0] == "return":
        return ("ret", bool(w.eval(p.exit[1])))
    return ("fall",)


@rule("C02.R1", "order comparison equals the lexicographic priority (market first, better price, earlier time, lower id) in every world", "T6 decision table", floor=4)
def r1(ctx: Ctx) -> None:
    f = ctx.func(GTLT)
    nested = [n.qualname for n in f.nested.values()]
    paths = ctx.paths(GTLT, inline=nested)
    # fields of the two orders the comparison reads besides the priority keys: a copy of a key taken by the
    # constructor goes stale when the key is rewritten later (pre-acceptance hooks do rewrite kind, side and price)
    extra = sorted({x[2] for p_ in paths for c, _, _ in p_.conds for x in subterms(strip_ver(c))
                    if x[0] == "attr" and x[1] in (("sym", "self"), ("sym", "other")) and x[2] not in KEY_ATTRS and x[2] not in ("__class__",)}
                   - set(ctx.program.cls("Order").methods))
    ini_params = set(ctx.func("Order.__init__").params)
    for a in extra:
        if a in ini_params:
            continue  # a constructor field that is no key: reported by the table check below
        ws = ctx.cg.writers_of("Order", a, kinds=("store", "aug", "del"))
        src = set()
        for pa in ctx.paths("Order.__init__"):
            for e in pa.walk_events():
                if e.kind == "store" and e.attr == a and key(strip_ver(e.base)) == "self":
                    src |= {x[1] for x in subterms(strip_ver(e.value)) if x[0] == "sym" and x[1] in KEY_ATTRS} | {x[2] for x in subterms(strip_ver(e.value)) if x[0] == "attr" and x[1] == ("sym", "self") and x[2] in KEY_ATTRS}
        only_init = bool(ws) and all(w.func.qualname == "Order.__init__" for w in ws)
        later = sorted({w.func.qualname for k_ in src for w in ctx.cg.writers_of("Order", k_, kinds=("store", "aug", "del")) if w.func.qualname != "Order.__init__" and not (w.recv and "Order" not in w.recv)})
        if only_init and src and later:
            ctx.violated(f, f.node, f"the comparison reads Order.{a}", "the ranking reads the priority keys themselves", f"Order.{a} is computed from {', '.join(sorted(src))} by the constructor and never again, while {', '.join(later[:3])} rewrite(s) {', '.join(sorted(src))} afterwards: the comparison then ranks the order by what it was constructed as")
        else:
            ctx.unrec(f, f.node, f"the comparison reads Order.{a}", "a field that is neither a priority key nor a constructor parameter: how it follows the keys is not decided")
        return
    table_check(
        ctx, f, f.node, "strict order table of Order._gt_lt", paths, list(_order_worlds()),
        lambda t: key(strip_ver(t)) in _ATOMS, _outcome, _spec,
    )
    # comparing orders of different sides (or with a non-order) is refused up front
    pre = [p for p in paths if p.exit[0] != "raise"]
    ok = bool(pre) and all(any(e.name == "_check_comparability" and e.args and key(e.args[0]) == "other" for e in calls(p)) for p in pre)
    ctx.check(ok, f, f.node, "comparison starts with the comparability check (same class, same side)", "self._check_comparability(other)", "present" if ok else "missing on some path")
    # the rich comparison operators delegate with the right flag
    for meth, flag in (("__lt__", False), ("__gt__", True)):
        m = ctx.func(f"Order.{meth}")
        ps = normal_paths(ctx.paths(m.qualname))
        ok = bool(ps)
        found = []
        for p in ps:
            t = p.exit[1] if p.exit[0] == "return" else None
            found.append(short(t))
            good = False
            if t is not None and t[0] == "call":
                cs = [e for e in calls(p) if e.term == t]
                if cs and calls_target(cs[0], GTLT) and key(cs[0].recv) == "self":
                    g = kw(cs[0], "gt", 1)
                    o = kw(cs[0], "other", 0)
                    good = g == ("const", flag) and o is not None and key(o) == "other"
            ok = ok and good
        ctx.check(ok, m, m.node, f"Order.{meth} delegates to _gt_lt(other, gt={flag})", f"return self._gt_lt(other, gt={flag})", "; ".join(found))
    # <= and >= are equality or the strict operator
    for meth, strict in (("__le__", "__lt__"), ("__ge__", "__gt__")):
        m = ctx.func(f"Order.{meth}")
        ps = normal_paths(ctx.paths(m.qualname, auto_inline_trivial=False))
        ok = bool(ps)
        found = []
        for p in ps:
            names = sorted(e.name for e in calls(p) if key(e.recv or NONE) == "self")
            found.append(",".join(names))
            t = p.exit[1] if p.exit[0] == "return" else None
            good = (
                t is not None and t[0] == "bool" and t[1] == "or" and len(t[2]) == 2
                and names == sorted(["__eq__", strict])
                and all(e.args and key(e.args[0]) == "other" for e in calls(p) if e.name in ("__eq__", strict))
            )
            ok = ok and good
        ctx.check(ok, m, m.node, f"Order.{meth} is __eq__ or {strict}", f"self.__eq__(other) or self.{strict}(other)", "; ".join(found))


# ----------------------------------------------------------------------------- heap discipline
_HEAP_OK = {"heappush", "heappop", "heapify"}


def _scan_heap(ctx: Ctx, f, path: Path, dirty: Dict[str, Any], out: List[Dict[str, Any]], alias: Optional[Dict[Term, str]] = None) -> None:
    """Walk the events of one path keeping, per queue, whether it may not be a heap."""
    alias = {} if alias is None else alias

    def _is_pq(t: Optional[Term]) -> bool:
        return t is not None and (t in alias or key(strip_ver(t)).endswith("priority_queue"))

    def _pqk(t: Term) -> str:
        return alias.get(t) or key(strip_ver(t))

    holes: Dict[str, Any] = alias.setdefault("__holes__", {})  # type: ignore[arg-type]  # queue -> [index overwritten on a clean heap, sifts done at it]
    for e in path.events:
        if e.kind == "call":
            fn = e.fname
            if fn.startswith("heapq.") and e.args and _is_pq(e.args[0]):
                q = _pqk(e.args[0])
                if e.name == "heapify":
                    dirty.pop(q, None)
                elif e.name in ("heappush", "heappop"):
                    if q in dirty:
                        out.append({"what": f"heapq.{e.name} on {q} while it may not be a heap", "node": e.node, "since": dirty[q]})
                elif e.name in ("_siftup", "_siftdown") and str(dirty.get(q, "")).startswith("element store") and q in holes:
                    # the textbook repair after overwriting one position i of a heap: sift the new entry towards the leaves
                    # (_siftup(h, i)) AND towards the root (_siftdown(h, 0, i)); one direction alone is not enough in general
                    # (seeds C02t, C03t do one, their corrected versions both)
                    at = strip_ver(e.args[1]) if e.name == "_siftup" and len(e.args) == 2 else (strip_ver(e.args[2]) if e.name == "_siftdown" and len(e.args) == 3 and strip_ver(e.args[1]) == ("const", 0) else None)
                    if at is not None and at == holes[q][0]:
                        holes[q][1].add(e.name)
                        if holes[q][1] == {"_siftup", "_siftdown"}:
                            dirty.pop(q, None)
                            holes.pop(q, None)
                        else:
                            dirty[q] = f"element store repaired in one direction only (heapq.{e.name})"
                    else:
                        dirty[q] = f"heapq.{e.name}"
                else:
                    dirty[q] = f"heapq.{e.name}"
            elif e.data.get("mutates") is not None and _is_pq(e.data["mutates"]):
                if e.name == "pop" and not e.args and not e.kwargs:
                    continue  # taking the last leaf off a heap leaves a heap
                dirty[_pqk(e.data["mutates"])] = f".{e.name}()"
        elif e.kind == "store":
            if e.attr == "priority_queue":
                v = e.value
                lit = _literal_of(path, v)
                qk = key(strip_ver(e.target))
                alias[v] = qk  # the stored object now *is* that queue
                if lit is not None and len(lit[1]) == 0:
                    dirty.pop(qk, None)  # empty list is a heap
                else:
                    dirty[qk] = "rebinding"
            elif e.attr is None and _is_pq(e.base):
                was_clean = _pqk(e.base) not in dirty
                dirty[_pqk(e.base)] = "element store"
                if was_clean and e.index is not None:
                    holes[_pqk(e.base)] = [strip_ver(e.index), set()]
                else:
                    holes.pop(_pqk(e.base), None)
        elif e.kind == "del" and e.attr is None and _is_pq(e.base):
            dirty[_pqk(e.base)] = "element delete"
        elif e.kind == "loop":
            merged: Dict[str, Any] = dict(dirty)
            for bp in e.paths:
                d2 = dict(dirty)
                _scan_heap(ctx, f, bp, d2, out, dict(alias))
                if bp.exit[0] == "return" and d2:
                    for q, why in d2.items():
                        out.append({"what": f"returns with {q} possibly not a heap after {why}", "node": e.node})
                if bp.exit[0] != "raise":
                    merged.update(d2)
            dirty.clear()
            dirty.update(merged)


def _no_iteration_ran(p: Path) -> bool:
    """every loop iteration that touches a queue also appends to one local list L, and the path has
    decided len(L) == 0 afterwards: then no such iteration ran (an infeasible combination otherwise)"""
    from ..kit import nf_cmp
    from ..terms import Unrecognised, cmp_nf

    companions: Optional[set] = None
    for l in [e for e in p.walk_events(True) if e.kind == "loop"]:
        for bp in l.paths:
            if bp.exit[0] == "raise":
                continue
            mut = [e for e in bp.events if e.kind == "call" and e.data.get("mutates") is not None and key(strip_ver(e.data["mutates"])).endswith("priority_queue")]
            if not mut:
                continue
            apps = {e.recv for e in bp.events if e.kind == "call" and e.name == "append" and e.recv is not None and e.recv[0] == "sym"}
            # the list the loop runs over is such a witness too: `for o in L: queue.remove(o)` ... `if len(L) > 0: heapify`
            if l.iter is not None:
                apps = apps | {strip_ver(l.iter)}
            companions = apps if companions is None else (companions & apps)
    if not companions:
        return False
    for c, pol, _ in p.conds:
        c = strip_ver(c)
        for L in companions:
            ln = ("call", ("name", "len"), (L,), (), None)
            try:
                nf = nf_cmp(c if pol else ("not", c), integer=True)
            except Unrecognised:
                continue
            if nf in (cmp_nf("==", ln, ("const", 0), integer=True), cmp_nf("<=", ln, ("const", 0), integer=True)):
                return True
    return False


def _literal_of(path: Path, v: Term) -> Optional[Term]:
    for e in path.walk_events(True):
        if e.kind == "note" and e.data.get("what") == "alloc" and e.data.get("sym") == v:
            return e.data["literal"]
    if v[0] in ("list",):
        return v
    return None


@rule("C02.R2", "every mutation of a priority queue is heappush/heappop/heapify or is followed by heapify before the queue is used or the function returns", "T4 typestate on all normal paths", floor=4)
def r2(ctx: Ctx) -> None:
    ws = ctx.cg.writers_of("OrderBook", "priority_queue")
    funcs = []
    for w in ws:
        if w.func not in funcs:
            funcs.append(w.func)
    ctx.require(len(funcs) >= 3, "fewer than 3 functions mutate OrderBook.priority_queue")
    # the discipline decided here is that of a binary heap kept with heapq; a queue kept in another way
    # (a sorted list, a key function) is a different data structure with a different invariant
    heap_ops = [w for w in ws if w.kind == "heap"]
    sorted_ops = [w for w in ws if w.kind == "mutcall" and w.detail in ("sort", "insert") and not w.func.name.startswith("get_")]  # (a view that reorders the queue is judged below, as a mutation)
    if not heap_ops or sorted_ops:
        g0 = (sorted_ops or ws)[0]
        ctx.unrec(g0.func, g0.node, "the priority queue is kept as a binary heap with heapq", "the queue is (also) maintained by sort() / insert() or without heapq: whether that order agrees with the comparison of orders is not decided")
        return
    for f in funcs:
        paths = ctx.paths(f.qualname)
        problems: List[Dict[str, Any]] = []
        n = 0
        from ..kit import is_helper

        sites = ctx.cg.sites_calling(f.qualname)
        deferred = bool(is_helper(f) and f.name.startswith("_") and sites)
        if deferred:
            for s_ in sites:
                if s_.caller not in funcs:
                    funcs.append(s_.caller)
        for p in paths:
            if p.exit[0] == "raise":
                continue
            n += 1
            dirty: Dict[str, Any] = {}
            _scan_heap(ctx, f, p, dirty, problems)
            if dirty and _no_iteration_ran(p):
                continue  # the path decided that the list filled alongside every queue mutation is empty: no mutation happened
            if dirty and deferred:
                continue  # a private helper: what it leaves behind is judged where it is called (its events are part of the caller's paths)
            for q, why in dirty.items():
                problems.append({"what": f"returns with {q} possibly not a heap after {why}", "node": f.node})
        uniq = sorted({pr["what"] for pr in problems})
        node = problems[0]["node"] if problems else f.node
        ctx.check(not problems, f, node, f"heap discipline of {f.qualname}", "heap invariant re-established on every normal path",
                  "; ".join(uniq) if uniq else f"{n} normal paths clean", paths=n)


# ----------------------------------------------------------------------------- keys frozen
KEY_ATTRS = ("price", "placed_at", "order_id", "kind", "is_buy")


@rule("C02.R3", "sort keys of an order are written only before it enters a book", "T1 who-may-write + T5 ordering", floor=5)
def r3(ctx: Ctx) -> None:
    p = ctx.program
    # an order enters a book once: OrderBook.add stamps the acceptance time, so adding a resting order
    # again (e.g. to put it back after a round) gives it a new place in the time priority
    for s_ in ctx.cg.sites_calling("OrderBook.add"):
        ctx.check(caller_ok(ctx, s_.caller, lambda g: g.qualname == "Market._add_order"), s_.caller, s_.node, "caller of OrderBook.add (which stamps the acceptance time)", "Market._add_order", s_.caller.qualname)
    for attr in KEY_ATTRS:
        for w in ctx.cg.writers_of("Order", attr, kinds=("store", "aug", "del")):
            f = w.func
            q = f.qualname
            if w.recv and "Order" not in w.recv:
                continue
            if not w.recv:
                # unknown receiver: only count it when nothing else explains the attribute
                owners = [c for c in p.classes if ctx.ctab.attrs.get(c, {}).get(attr) is not None and c != "Order"]
                if isinstance(w.recv_expr, __import__("ast").Name) and w.recv_expr.id == "self" and f.cls is not None and f.cls.name != "Order":
                    continue
                if owners and f.cls is not None and any(p.is_subclass(f.cls.name, o) for o in owners):
                    continue
            construct = f"write of Order.{attr} in {q}"
            if q == "Order.__init__":
                ctx.holds(f, w.node, construct, expected="constructor", found="constructor")
                continue
            if f.name == "hooked_before_order" and f.cls is not None and p.is_subclass(f.cls.name, "EventABC"):
                ctx.holds(f, w.node, construct, expected="pre-acceptance hook", found="order-before handler (runs before _add_order, C13.R3)")
                continue
            if q in ("Market._add_order", "OrderBook.add"):
                entry = "add" if q == "Market._add_order" else "heappush"
                bad = []
                for path in ctx.paths(q):
                    if path.exit[0] == "raise":
                        continue
                    seen_entry = False
                    for e in path.events:
                        if e.kind == "call" and e.name == entry and (entry != "add" or calls_target(e, "OrderBook.add")):
                            seen_entry = True
                        if e.kind == "store" and e.attr == attr and e.node is w.node and seen_entry:
                            bad.append(path.describe()[:200])
                ctx.check(not bad, f, w.node, construct, f"store precedes the insertion ({entry}) on every path",
                          "store after the order entered the book on: " + bad[0] if bad else "precedes insertion")
                continue
            if caller_ok(ctx, f, lambda g: g.qualname in ("Order.__init__", "Market._add_order", "OrderBook.add") or (g.name == "hooked_before_order" and g.cls is not None and p.is_subclass(g.cls.name, "EventABC"))):
                # a private helper of an allowed writer: its store is seen, inlined, on the caller's paths
                ctx.holds(f, w.node, construct, expected="helper of an allowed writer", found="inlined into its caller (ordering checked there)")
                continue
            ctx.violated(f, w.node, construct, "only Order.__init__, Market._add_order/OrderBook.add (before insertion) and order-before hooks write sort keys",
                         f"{q} writes Order.{attr}", guard="site")


# ----------------------------------------------------------------------------- consumption in pop order
@rule("C02.R4", "the walk pops a side only when its current order is fully allocated, and allocates min(remaining) to the current pair", "T3 guard + T10 provenance", floor=4)
def r4(ctx: Ctx) -> None:
    w = analyse_walk(ctx)
    f = ctx.func("Market._execution")
    phi = w.loop.phi
    names = {"B": w.var["btmp"], "S": w.var["stmp"]}
    for bp in w.body:
        if bp.exit == "raise":
            continue
        for side, ev in bp.pops.items():
            tmp = phi[names[side]]
            ok = any(pol and c == ("cmp", "==", ("const", 0), tmp) or (pol and c == ("cmp", "==", tmp, ("const", 0))) for c, pol, _ in bp.path.conds)
            ctx.check(ok, f, ev.node, f"pop of side {side} guarded by exhausted allocation", f"{names[side]} == 0 on the path", "guard present" if ok else "pop without the remaining-volume test")
        if bp.appended is None:
            continue
        vol, bo, so = bp.appended[1]
        cb, cs = w.cur(bp, "B"), w.cur(bp, "S")
        tb, ts = w.cur_tmp(bp, "B"), w.cur_tmp(bp, "S")
        exp_min = {("call", ("name", "min"), (tb, ts), (), None), ("call", ("name", "min"), (ts, tb), (), None)}
        ok = vol in exp_min and bo == cb and so == cs
        ctx.check(ok, f, bp.path.events[-1].node if bp.path.events else f.node,
                  "allocation pairs the current buy and sell order with min(remaining volumes)",
                  f"({short(next(iter(exp_min)))}, {short(cb)}, {short(cs)})", f"({short(vol)}, {short(bo)}, {short(so)})")
        eb, es = bp.path.env.get(names["B"]), bp.path.env.get(names["S"])
        ok2 = eb == ("bin", "-", tb, vol) and es == ("bin", "-", ts, vol)
        ctx.check(ok2, f, f.node, "remaining volumes decrease by the allocated volume",
                  f"{names['B']} = {short(tb)} - v; {names['S']} = {short(ts)} - v", f"{names['B']} = {short(eb)}; {names['S']} = {short(es)}")
    # initial state: one side popped before the loop with its volume, the other exhausted (0)
    init = w.loop.init
    pre = w.pre_pops
    ok = True
    desc = []
    for side in ("B", "S"):
        iv = init.get(names[side])
        cur = init.get(w.var[side])
        if side in pre:
            good = cur == pre[side].term and iv == ("attr", pre[side].term, "volume")
        else:
            good = iv == ("const", 0)
        desc.append(f"{names[side]}={short(iv)}")
        ok = ok and good
    ctx.check(ok, f, w.loop.node, "walk starts with popped orders' volumes (or 0 = pop first)", "tmp = popped.volume | 0", ", ".join(desc))


@rule("C02.R5", "best-order views read element 0 of the heap and cache nothing", "T12 purity", floor=2)
def r5(ctx: Ctx) -> None:
    for q in ("OrderBook.get_best_order", "OrderBook.get_best_price"):
        f = ctx.func(q)
        ps = ctx.paths(q)
        st = [e for p in ps for e in p.walk_events(True) if e.kind in ("store", "del") or (e.kind == "call" and not e.pure and not e.noise)]
        rets = []
        ok = not st
        derived = False
        for p in ps:
            if p.exit[0] != "return":
                ok = False
                continue
            t = strip_ver(p.exit[1])
            rets.append(key(t))
            want0 = "self.priority_queue[0]" + (".price" if q.endswith("price") else "")
            if key(t) not in (want0, "None"):
                ok = False
                if key(t).startswith("self.priority_queue[0]"):
                    derived = True  # a part of element 0 (the queue holds entries built around the orders)
        if not ok and not st and derived:
            ctx.unrec(f, f.node, f"{q} is a pure view of priority_queue[0]", "the view returns a part of element 0: the queue no longer holds the orders themselves, how an entry relates to its order is not decided", f"returns {sorted(set(rets))}")
            continue
        ctx.check(ok, f, f.node, f"{q} is a pure view of priority_queue[0]", "return priority_queue[0](.price) or None; no stores", f"returns {sorted(set(rets))}; effects={len(st)}")


def order_eq_rule(ctx: Ctx) -> None:
    """Order.__eq__ must distinguish two different accepted orders of one book: equality
    implies equal order ids (the book removes `the order equal to the top`)."""
    f = ctx.func("Order.__eq__")
    n = 0
    for p in normal_paths(ctx.paths(f.qualname)):
        if p.exit[0] != "return":
            continue
        n += 1
        r = strip_ver(p.exit[1])
        conj = list(r[2]) if r[0] == "bool" and r[1] == "and" else [r]
        # decisions taken true on the path are conjuncts too (if a != b: return False ...)
        conj += [strip_ver(c) if pol else ("not", strip_ver(c)) for c, pol, _ in p.conds]
        has_id = any(c[0] == "cmp" and c[1] == "==" and {key(c[2]), key(c[3])} == {"self.order_id", "other.order_id"} for c in conj)
        if r == ("const", False):
            continue
        ctx.check(has_id, f, f.node, "two orders compare equal only if their order ids are equal", "self.order_id == other.order_id among the conjuncts", short(r)[:160])
    ctx.require(n >= 1, "Order.__eq__: no returning path")
    g = ctx.func("Order.__ne__")
    for p in normal_paths(ctx.paths(g.qualname, auto_inline_trivial=False, inline_helpers=False)):
        r = strip_ver(p.exit[1]) if p.exit[0] == "return" else NONE
        ok = r[0] == "not" and r[1][0] == "call" and key(r[1][1]) == "self.__eq__"
        ctx.check(ok, g, g.node, "!= is the negation of ==", "not self.__eq__(other)", short(r))


@rule("C02.R6", "equality of orders is identity within a book (consistent with the strict order: distinct orders are never equal)", "T6/T9", floor=2)
def r6(ctx: Ctx) -> None:
    order_eq_rule(ctx)


@rule("C02.H1", "mechanism shared with C13: hooks that may rewrite a pending order run before the order is handed to the market in both phases (afterwards its sort keys are frozen)", "T5 ordering (the acceptance part of C13.R3)", floor=4)
def h1(ctx: Ctx) -> None:
    from .c13 import check_call_sites

    check_call_sites(ctx, {"accept"})


def check_order_ids(ctx: Ctx) -> None:
    """ids are what breaks ties: each accepted order gets an id no earlier order of the market has"""
    from ..kit import caller_ok
    from ..terms import diff_const

    ws = ctx.cg.writers_of("Market", "_next_order_id")
    ctx.require(bool(ws), "Market._next_order_id (the id counter the rule is stated in terms of) is not written anywhere: renamed or removed")
    for w in ws:
        ok = caller_ok(ctx, w.func, lambda g: g.qualname in ("Market.__init__", "Market._add_order"))
        ctx.check(ok, w.func, w.node, "writer of the market's order-id counter", "Market.__init__ (start) | Market._add_order (advance)", w.func.qualname + (": setting the counter again lets new orders reuse ids of resting ones" if not ok else ""))
    f = ctx.func("Market._add_order")
    n = 0
    for p in normal_paths(ctx.paths(f.qualname)):
        ids = [e for e in stores(p, "order_id") if key(strip_ver(e.base)) == "order"]
        cnt = [e for e in stores(p, "_next_order_id") if key(strip_ver(e.base)) == "self"]
        if not ids and not cnt:
            continue
        n += 1
        if len(ids) != 1 or len(cnt) != 1:
            ctx.violated(f, f.node, "an accepted order gets one id and the counter moves once", "order.order_id = counter; counter += 1", f"{len(ids)} id store(s), {len(cnt)} counter store(s)")
            continue
        given = strip_ver(ids[0].value)
        new = strip_ver(cnt[0].value)
        old = strip_ver(cnt[0].cur) if cnt[0].cur is not None else ("attr", ("sym", "self"), "_next_order_id")
        cands = list(new[2]) if new[0] == "call" and key(new[1]) == "max" else [new]
        d_given = [diff_const(c, given) for c in cands]
        d_old = [diff_const(c, old) for c in cands]
        above_given = any(d is not None and d >= 1 for d in d_given)
        not_below_old = any(d is not None and d >= 0 for d in d_old) or (given == old and above_given)
        if above_given and not_below_old:
            ctx.holds(f, cnt[0].node, "the counter ends above the id just given and never goes back", "counter' >= id + 1, counter' >= counter", short(new))
        elif any(d == 0 for d in d_given) and not above_given:
            ctx.violated(f, cnt[0].node, "the counter ends above the id just given", "counter' >= id + 1", f"{short(new)} can equal the id just given ({short(given)}): the next order gets the same id")
        else:
            ctx.unrec(f, cnt[0].node, "the counter ends above the id just given and never goes back", "relation between the new counter and the id not decided", f"id={short(given)}, counter'={short(new)}")
    ctx.require(n >= 1, "Market._add_order: numbering path not found")


@rule("C02.R7", "order ids are unique within a market and grow with acceptance: the counter is only started by the constructor and advanced past every id handed out", "T1 who-may-write + T7 difference", floor=2)
def r7(ctx: Ctx) -> None:
    check_order_ids(ctx)


@rule("C02.H2", "prices, times and ids are compared by value wherever orders are ranked (two equal prices are one price level, whichever float objects hold them)", "T13 lint over Order, OrderKind, OrderBook", floor=1)
def h2(ctx: Ctx) -> None:
    from .events import check_identity_comparisons

    check_identity_comparisons(ctx, ["Order", "OrderKind", "OrderBook"], floor=15)


@rule("C02.H3", "mechanism shared with C03: the ranking reads the kind of an order and the price of a limit order; the two stay tied (market order <=> no price) after the constructor", "T1 writers + T6 per path (same rule as C03.H10)", floor=2)
def h3(ctx: Ctx) -> None:
    from .c03 import check_kind_price

    check_kind_price(ctx)


@rule("C02.H4", "mechanism shared with C03: every order popped during a round is back in its book when the round ends, whichever way it ends (an order that vanished from its book while live is never served, whatever its priority)", "T4 pairing (same rule as C03.R3)", floor=4)
def h4(ctx: Ctx) -> None:
    from .c03 import r3 as restore_rule

    restore_rule(ctx)
