"""C13 -- event hooks fire exactly at their registered occasions, times and markets."""
from __future__ import annotations

import ast
from typing import Any, Dict, List, Optional, Tuple

from ..kit import path_text, caller_ok, Case, Ctx, calls, calls_target, kw, loops, normal_paths, poly_of, product_worlds, rule, short, stores, table_check_cases
from ..paths import Event, Path
from ..terms import NONE, Term, canon_pred, key, strip_ver, substitute, subterms
from .runner import ADD, CANCEL, EXEC, HO, IT, RUN, handling_blocks

# (type, when) -> (trigger suffix, handler, argument name, time source over the trigger's parameter)
ROWS: Dict[Tuple[str, str], Tuple[str, str, str, str]] = {
    ("order", "before"): ("before_order", "hooked_before_order", "order", "self.id2market[order.market_id].time"),
    ("order", "after"): ("after_order", "hooked_after_order", "order_log", "order_log.time"),
    ("cancel", "before"): ("before_cancel", "hooked_before_cancel", "cancel", "self.id2market[cancel.order.market_id].time"),
    ("cancel", "after"): ("after_cancel", "hooked_after_cancel", "cancel_log", "cancel_log.cancel_time"),
    ("execution", "after"): ("after_execution", "hooked_after_execution", "execution_log", "execution_log.time"),
    ("session", "before"): ("before_session", "hooked_before_session", "session", "session.session_start_time"),
    ("session", "after"): ("after_session", "hooked_after_session", "session", "-1*1 + session.iteration_steps + session.session_start_time"),
    ("market", "before"): ("before_step_for_market", "hooked_before_step_for_market", "market", "market.time"),
    ("market", "after"): ("after_step_for_market", "hooked_after_step_for_market", "market", "market.time"),
}
TYPES = ["order", "cancel", "execution", "session", "market"]
CHECK = "Simulator._check_event_class_and_instance"


@rule("C13.R1", "one hook table, four views that agree: registration key, table keys, trigger function and handler method for every (type, before/after) pair", "T9 writer/reader table agreement", floor=9)
def r1(ctx: Ctx) -> None:
    # table keys in Simulator.__init__
    f = ctx.func("Simulator.__init__")
    keys: Optional[List[str]] = None
    for p in normal_paths(ctx.paths(f.qualname)):
        for e in stores(p, "events_dict"):
            for n in p.events:
                if n.kind == "note" and n.data.get("what") == "alloc" and n.data.get("sym") == e.value and n.data["literal"][0] == "dict":
                    keys = [k[1] for k, _ in n.data["literal"][1] if k is not None and k[0] == "const"]
    ctx.require(keys is not None, "Simulator.__init__: events_dict literal not found")
    want = sorted(f"{t}_{w}" for t, w in ROWS)
    ctx.check(sorted(keys or []) == want, f, f.node, "hook table has one slot per (type, before/after) except (execution, before)", ", ".join(want), ", ".join(sorted(keys or [])))
    # name built at registration
    g = ctx.func("Simulator._add_event")
    names = set()
    for p in normal_paths(ctx.paths(g.qualname)):
        bef = [pol for c, pol, _ in p.conds if key(strip_ver(c)) == "event_hook.is_before"]
        for l in loops(p):
            for bp in l.paths:
                for e in bp.walk_events():
                    t = None
                    if e.kind == "store" and e.attr is None:
                        t = e.base
                    elif e.kind == "call" and e.name == "append":
                        t = e.recv
                    if t is None:
                        continue
                    for s in subterms(strip_ver(t)):
                        if s[0] == "sub" and key(s[1]) == "self.events_dict":
                            names.add((key(s[2]), bef[-1] if bef else None))
    want_names = {("(event_hook.hook_type + '_before')", True), ("(event_hook.hook_type + '_after')", False)}
    ctx.check(names == want_names, g, g.node, "registration key = hook_type + '_before' | '_after' by is_before", str(sorted(want_names)), str(sorted(names, key=str)))
    # per row: trigger reads its own slot and calls its own handler with the occurrence
    for (t, w), (suffix, handler, arg, _) in ROWS.items():
        q = f"Simulator._trigger_event_{suffix}"
        tf = ctx.func(q)
        slots = set()
        hcalls = set()
        for p in normal_paths(ctx.paths(q)):
            mentioned = [strip_ver(c) for c, _, _ in p.conds]
            for e in p.walk_events(True):
                if e.kind == "call":
                    mentioned += [strip_ver(x) for x in ((e.recv,) if e.recv is not None else ()) + tuple(e.args) + tuple(v for _, v in e.kwargs)]
                elif e.kind == "loop" and e.iter is not None:
                    mentioned.append(strip_ver(e.iter))
            for m in mentioned:
                for s in subterms(m):
                    if s[0] == "sub" and key(s[1]) == "self.events_dict":
                        slots.add(s[2][1] if s[2][0] == "const" else key(s[2]))
            for l in loops(p):
                el = ("sym", f"{l.target[0]}∈{l.loopid}")
                for bp in l.paths:
                    for e in calls(bp):
                        if e.name.startswith("hooked_"):
                            ok = e.recv is not None and strip_ver(e.recv) == ("attr", el, "event") and key(kw(e, "simulator", 0) or NONE) == "self" and key(kw(e, arg, 1) or NONE) == tf.params[1]
                            hcalls.add((e.name, ok))
        if not slots:
            ctx.unrec(tf, tf.node, f"{q} reads the slot {t}_{w}", "no read of self.events_dict[...] found on its paths")
        else:
            ctx.check(slots == {f"{t}_{w}"}, tf, tf.node, f"{q} reads the slot {t}_{w}", f"{t}_{w}", ", ".join(sorted(slots)))
        ctx.check(hcalls == {(handler, True)}, tf, tf.node, f"{q} invokes {handler}(simulator=self, {arg}=<occurrence>) on the hook's event", handler, str(sorted(hcalls)))
        ctx.check(ctx.program.lookup_method("EventABC", handler) is not None, tf, tf.node, f"EventABC declares {handler}", "method exists", "present" if ctx.program.lookup_method("EventABC", handler) else "missing")
    # no trigger without a row
    for name in ctx.program.cls("Simulator").methods:
        if name.startswith("_trigger_event_") and not _internal_trigger_helper(ctx, name):
            ok = any(name == f"_trigger_event_{r[0]}" for r in ROWS.values())
            if not ok:
                ctx.unrec(ctx.func(f"Simulator.{name}"), None, f"trigger {name} belongs to a table row", "a trigger that the table of hook points does not know: which hook point it serves, and whether it serves it as the tabulated trigger would, is not decided")
                continue
            ctx.holds(ctx.func(f"Simulator.{name}"), None, f"trigger {name} belongs to a table row", "known trigger", name)


@rule("C13.R2", "each trigger selects hooks registered for all times plus those registered for the occurrence's time, calls each once, and market-step triggers apply the class/instance filter", "T6 + T7", floor=18)
def r2(ctx: Ctx) -> None:
    check_triggers(ctx, None)


def _dispatch_loops(ctx: Ctx, tf, q: str, p: Path, t: str) -> None:
    """per selected hook: one handler call, market-step triggers under the class/instance filter"""
    lps = loops(p)
    for l in lps:
        el = ("sym", f"{l.target[0]}∈{l.loopid}")
        gen_src = [e for e in calls(p, into_loops=False) if e.term == l.iter and e.site.targets and any(isinstance(x, (ast.Yield, ast.YieldFrom)) for t_ in e.site.targets for x in ast.walk(t_.node))]
        if gen_src:
            ctx.unrec(tf, l.node, f"{q}: hooks are drawn from a generator helper", "selection and filtering happen inside a generator function, which the path evaluator does not inline")
            continue
        for bp in l.paths:
            hs = [e for e in calls(bp) if e.name.startswith("hooked_")]
            filt = [(c, pol) for c, pol, _ in bp.conds if strip_ver(c)[0] == "call" and key(strip_ver(c)[1]) == "self._check_event_class_and_instance"]
            other = [c for c, pol, _ in bp.conds if (c, pol) not in [(x, y) for x, y in filt]]
            if t == "market":
                okf = len(filt) == 1 and not other
                if okf:
                    c, pol = filt[0]
                    a = dict(strip_ver(c)[3])
                    okf = key(a.get("check_object", NONE)) == tf.params[1] and a.get("class_requirement") == ("attr", el, "specific_class") and a.get("instance_requirement") == ("attr", el, "specific_instance")
                    okf = okf and (len(hs) == 1) == pol
                ctx.check(okf, tf, l.node, f"{q}: handler runs iff the hook's class/instance filter accepts the market", "if _check_event_class_and_instance(market, hook.specific_class, hook.specific_instance): handler", bp.describe()[:160], guard="text", guard_text=path_text(p))
            else:
                ctx.check(len(hs) == 1 and not bp.conds and bp.exit[0] == "fall", tf, l.node, f"{q}: one unconditional handler call per selected hook", "exactly one call, no filter", f"{len(hs)} call(s), {len(bp.conds)} condition(s)", guard="text", guard_text=path_text(p))


def _selection_by_pieces(ctx: Ctx, tf, q: str, p: Path, slot: Term, tsrc: str, none_in, time_in) -> Optional[bool]:
    """selection written with hooks.get(key, []) (alone or mixed with membership tests): the walked list is
    built from pieces, each `hooks[K]` under `K in hooks` or `hooks.get(K, [])`.  True = as specified,
    False = reported, None = form not understood"""
    lps = loops(p)
    if len(lps) != 1 or lps[0].iter is None:
        return None
    it = lps[0].iter

    def piece(x: Term):
        x = strip_ver(x)
        if x[0] == "star":
            x = x[1]
        if x[0] == "sub" and x[1] == slot:
            return ("sub", x[2])
        if x[0] == "call" and x[1] == ("attr", slot, "get") and len(x[2]) == 2:
            d = x[2][1]
            lit = alloc_literal_any(p, d)
            if d in (("list", ()), ("tuple", ()), ("const", ())) or (lit is not None and lit[0] in ("list", "tuple") and len(lit[1]) == 0):
                return ("get", x[2][0])
        return None

    pieces = []
    base = strip_ver(it)
    label0 = f"{q}: selecting hooks never changes the registered buckets"

    def flat_plus(x: Term):
        return flat_plus(x[2]) + flat_plus(x[3]) if x[0] == "bin" and x[1] == "+" else [x]

    from ..terms import normalise as _norm0

    if base[0] == "call" and key(base[1]) in ("list", "tuple") and len(base[2]) == 1 and not base[3] and key(strip_ver(base[2][0])[1] if strip_ver(base[2][0])[0] == "call" else NONE) in ("itertools.chain", "chain"):
        base = _norm0(strip_ver(base[2][0]))  # list(chain(a, b)) is the fresh list a + b
    parts = flat_plus(base)
    raw_first = piece(parts[0]) if parts else None
    if raw_first is not None and (len(parts) > 1 or any(e.kind == "call" and e.name == "extend" and e.recv == it for e in p.events)):
        # the walked list starts as the registered bucket itself (no copy) and is then extended
        inplace = any(e.kind == "call" and e.name == "extend" and e.recv == it for e in p.events) or any(isinstance(n_, ast.AugAssign) and isinstance(n_.op, ast.Add) for n_ in ast.walk(tf.node))
        if inplace:
            ctx.violated(tf, tf.node, label0, "start from a new list (or a copy) before adding the timed hooks", f"{short(parts[0])} is the registered list itself and is extended in place: timed hooks stay in the all-times bucket")
            return False
    from ..terms import normalise as _normalise

    nb = _normalise(base)
    keyed = (nb[0] == "comp" and len(nb[3]) == 2 and len(nb[3][0][0]) == 1 and len(nb[3][1][0]) == 1 and nb[2] == ("bound", nb[3][1][0][0])
             and strip_ver(nb[3][0][1])[0] in ("tuple", "list") and not nb[3][1][2])
    if keyed:
        # [h for K in (a, b) if K in hooks for h in hooks[K]]: one guarded piece per listed key, in that order
        kv = ("bound", nb[3][0][0][0])
        guard_ok = list(nb[3][0][2]) == [("cmp", "in", kv, slot)]
        src = strip_ver(nb[3][1][1])
        src_ok = src == ("sub", slot, kv) or (src[0] == "call" and src[1] == ("attr", slot, "get") and len(src[2]) == 2 and src[2][0] == kv and src[2][1] == ("list", ()))
        if not src_ok or not (guard_ok or (src[0] == "call" and not nb[3][0][2])):
            return None
        for K in strip_ver(nb[3][0][1])[1]:
            pieces.append(("get", strip_ver(K)))
    elif len(parts) > 1:
        for x in parts:
            pc = piece(x)
            if pc is None:
                return None
            pieces.append(pc)
    elif base[0] == "call" and key(base[1]) in ("list", "tuple") and len(base[2]) == 1:
        pc = piece(base[2][0])
        if pc is None:
            return None
        pieces.append(pc)
    elif raw_first is not None:
        pieces.append(raw_first)
    else:
        lit = alloc_literal_any(p, it)
        if lit is None or lit[0] != "list":
            return None
        for x in lit[1]:
            pc = piece(x) if x[0] == "star" else None
            if pc is None:
                return None
            pieces.append(pc)
    for e in p.events:
        if e.kind == "call" and e.name == "extend" and e.recv == it and e.args:
            pc = piece(e.args[0])
            if pc is None:
                return None
            pieces.append(pc)
    label = f"{q}: targets = hooks[None] ++ hooks[time]"
    nones = [pc for pc in pieces if pc[1] == NONE]
    times = [pc for pc in pieces if pc[1] != NONE]
    ok = True
    for mode, K in pieces:
        if mode == "sub":
            dec = none_in if K == NONE else [pol for k2, pol in time_in if k2 == K]
            if dec != [True]:
                ctx.violated(tf, tf.node, label, "hooks[K] only after `K in hooks` was decided true", f"hooks[{short(K)}] read without that decision")
                ok = False
    want_none = not (none_in == [False])
    want_time = not (time_in and time_in[0][1] is False)
    if (len(nones) == 1) != want_none or len(nones) > 1:
        ctx.violated(tf, tf.node, label, "the all-times bucket is taken exactly once (when present)", f"{len(nones)} time(s)")
        ok = False
    if (len(times) == 1) != want_time or len(times) > 1:
        ctx.violated(tf, tf.node, label, "the bucket of the occurrence's time is taken exactly once (when present)", f"{len(times)} time(s)")
        ok = False
    for mode, K in times:
        if not (poly_of(K) == tsrc or key(K) == tsrc):
            ctx.violated(tf, tf.node, f"{q}: occurrence time", tsrc, short(K))
            ok = False
    if nones and times and pieces.index(nones[0]) > pieces.index(times[0]):
        ctx.violated(tf, tf.node, label, "all-times hooks first", "timed hooks first")
        ok = False
    if ok:
        ctx.holds(tf, tf.node, label, "hooks.get(None, []) ++ hooks.get(time, [])", " ++ ".join(f"{m}:{short(K)}" for m, K in pieces))
    return ok


def alloc_literal_any(p: Path, t: Term):
    from ..kit import alloc_literal

    return alloc_literal(p, t)


def _internal_trigger_helper(ctx: Ctx, name: str) -> bool:
    """a private method shared by the tabulated triggers (called by them and by nobody else): it is
    analysed inside each of them, after inlining, not as a trigger of its own"""
    if any(name == f"_trigger_event_{r[0]}" for r in ROWS.values()):
        return False
    sites = ctx.cg.sites_calling(f"Simulator.{name}")
    rows = {f"Simulator._trigger_event_{r[0]}" for r in ROWS.values()}
    return bool(sites) and all(s_.caller.qualname in rows for s_ in sites)


def check_registration(ctx: Ctx) -> None:
    """C13.R4 as a premise of the properties whose events rely on being registered as declared"""
    r4(ctx)


def check_triggers(ctx: Ctx, only) -> None:
    """selection / filtering / exhaustive dispatch of the triggers of the given (type, when) rows (None = all)"""
    for (t, w), (suffix, handler, arg, tsrc) in ROWS.items():
        if only is not None and (t, w) not in only:
            continue
        q = f"Simulator._trigger_event_{suffix}"
        tf = ctx.func(q)
        slot = ("sub", ("attr", ("sym", "self"), "events_dict"), ("const", f"{t}_{w}"))
        seen_paths = 0
        for p in normal_paths(ctx.paths(q)):
            seen_paths += 1
            early = [(l, bp) for l in loops(p) for bp in l.paths if bp.exit[0] not in ("fall", "continue")]
            ctx.check(not early, tf, early[0][0].node if early else tf.node, f"{q}: every selected hook is examined (one hook's filter never cuts off the hooks after it)", "loop bodies always fall through or continue", "; ".join(f"{bp.exit[0]} under {bp.describe()[:80]}" for _, bp in early))
            none_in = [pol for c, pol, _ in p.conds if strip_ver(c)[0] == "cmp" and strip_ver(c)[1] == "in" and strip_ver(c)[2] == NONE and strip_ver(c)[3] == slot]
            time_in = [(strip_ver(c)[2], pol) for c, pol, _ in p.conds if strip_ver(c)[0] == "cmp" and strip_ver(c)[1] == "in" and strip_ver(c)[2] != NONE and strip_ver(c)[3] == slot]
            ok = len(none_in) == 1 and len(time_in) == 1
            if not ok:
                verdict = _selection_by_pieces(ctx, tf, q, p, slot, tsrc, none_in, time_in)
                if verdict is None:
                    if not none_in and not time_in:
                        ctx.unrec(tf, tf.node, f"{q}: selection of the all-times and the timed bucket", "buckets are not selected through `None in hooks` / `time in hooks` / `hooks.get(key, [])`; this form of selection is not modelled")
                    else:
                        ctx.unrec(tf, tf.node, f"{q}: membership tests for the all-times and the timed bucket", "mixed selection form not modelled", p.describe()[:200])
                    continue
                if verdict is False:
                    continue
                _dispatch_loops(ctx, tf, q, p, t)
                continue
            tt, tpol = time_in[0]
            ctx.check(poly_of(tt) == tsrc or key(tt) == tsrc, tf, tf.node, f"{q}: occurrence time", tsrc, poly_of(tt))
            ext = [e for e in p.events if e.kind == "call" and e.name == "extend"]
            got = [key(strip_ver(e.args[0])) for e in ext]
            lps0 = loops(p)
            if not ext and lps0:
                # the selection written as one list: [*hooks[None], *hooks[time]] with an empty list standing in for an absent bucket
                from ..kit import alloc_literal

                it0 = lps0[0].iter
                lit0 = alloc_literal(p, it0) if it0 is not None else None
                lit0 = lit0 if lit0 is not None else (strip_ver(it0) if it0 is not None and strip_ver(it0)[0] == "list" else None)
                if lit0 is not None and lit0[0] == "list" and all(x[0] == "star" for x in lit0[1]):
                    parts = []
                    for x in lit0[1]:
                        inner = alloc_literal(p, x[1]) or strip_ver(x[1])
                        if inner[0] == "list" and not inner[1]:
                            continue
                        parts.append(key(strip_ver(x[1])))
                    got = parts

                    class _E:  # noqa: N801
                        recv = it0
                    ext = [_E() for _ in parts]  # type: ignore[misc]
            want = ([key(("sub", slot, NONE))] if none_in[0] else []) + ([key(("sub", slot, tt))] if tpol else [])
            lps = loops(p)
            if any(e.term == l.iter and e.site.targets and any(isinstance(x, (ast.Yield, ast.YieldFrom)) for t_ in e.site.targets for x in ast.walk(t_.node)) for l in lps for e in calls(p, into_loops=False)):
                ctx.unrec(tf, tf.node, f"{q}: hooks are drawn from a generator helper", "selection and filtering happen inside a generator function, which the path evaluator does not inline")
                continue
            tgt_ok = len(lps) == 1 and all(e.recv == lps[0].iter for e in ext)
            if not want and not lps and not ext and not [e for e in calls(p) if e.name.startswith("hooked_")]:
                tgt_ok = True  # neither bucket exists: the (empty) selection is walked zero times
            ctx.check(got == want and tgt_ok, tf, tf.node, f"{q}: targets = hooks[None] ++ hooks[time] (buckets present: all-times={none_in[0]}, timed={tpol})", " ++ ".join(want) or "[]", " ++ ".join(got) or "[]", guard="text", guard_text=path_text(p))
            _dispatch_loops(ctx, tf, q, p, t)
        ctx.require(seen_paths >= 1, f"{q}: no normal path")
    # the filter predicate itself
    f = ctx.func(CHECK)
    cases = []
    for p in ctx.paths(CHECK):
        conds = [(strip_ver(c), pol) for c, pol, _ in p.conds]
        out = ("ret", p.exit[1][1]) if p.exit[0] == "return" and p.exit[1][0] == "const" else ("other",)
        cases.append(Case(conds, (lambda w, out=out: out), p.describe()))
    atoms = {"class_requirement", "instance_requirement", "isinstance(check_object, class_requirement)", "(check_object == instance_requirement)", "(instance_requirement == check_object)", "check_object"}
    worlds = []
    for cr in (None, "C"):
        for ir in (None, "I"):
            for isa in (True, False):
                for eq in (True, False):
                    worlds.append({"class_requirement": cr, "instance_requirement": ir, "isinstance(check_object, class_requirement)": isa, "(check_object == instance_requirement)": eq, "(instance_requirement == check_object)": eq})

    def spec(w: Dict[str, Any]) -> Any:
        ok = (w["class_requirement"] is None or w["isinstance(check_object, class_requirement)"]) and (w["instance_requirement"] is None or w["(check_object == instance_requirement)"])
        return ("ret", ok)

    table_check_cases(ctx, f, f.node, "filter predicate = (class None or isinstance) and (instance None or equal)", cases, worlds, lambda t: key(t) in atoms, spec)


@rule("C13.R3", "the run loop calls each trigger once per occurrence, before-hooks before the occurrence takes effect and after-hooks after it; nobody else calls triggers", "T5 ordering + T4 + T2", floor=12)
def r3(ctx: Ctx) -> None:
    check_call_sites(ctx, {"accept", "execution", "session", "step", "callers"})


def check_call_sites(ctx: Ctx, aspects) -> None:
    """aspects: accept (before/after order and cancel), before_order (only that hook),
    execution (after-execution hook), session, step, callers"""
    f = ctx.func(HO)
    blocks = list(handling_blocks(ctx))
    for b in blocks:
        evs = b.path.events
        i = evs.index(b.accept)
        bname = "_trigger_event_before_order" if b.kind == "order" else "_trigger_event_before_cancel"
        aname = "_trigger_event_after_order" if b.kind == "order" else "_trigger_event_after_cancel"
        barg, aarg = ("order", "order_log") if b.kind == "order" else ("cancel", "cancel_log")
        trig = [e for e in evs if e.kind == "call" and e.name.startswith("_trigger_event_") and e.name.endswith(("_order", "_cancel"))]
        bef = [e for e in trig if e.name == bname and kw(e, barg, 0) == b.elem]
        aft = [e for e in trig if e.name == aname and kw(e, aarg, 0) == b.accept.term]
        unknown_trig = [e for e in evs if e.kind == "call" and e.name.startswith("_trigger_event_") and not any(e.name == f"_trigger_event_{r[0]}" for r in ROWS.values())]
        for e in b.path.walk_events(True):  # ... or one that was folded into the handling as a helper
            tq = e.data.get("target", "") if e.kind == "note" and e.data.get("what") == "inline" else ""
            tn = tq.split(".")[-1]
            if tn.startswith("_trigger_event_") and not any(tn == f"_trigger_event_{r[0]}" for r in ROWS.values()) and not _internal_trigger_helper(ctx, tn):
                class _N:  # noqa: N801
                    name = tn
                unknown_trig.append(_N())
        if unknown_trig and ("accept" in aspects or "before_order" in aspects):
            ctx.unrec(f, b.accept.node, f"{b.phase} {b.kind}: before-hook, acceptance, after-hook", f"the handling calls {unknown_trig[0].name}, a trigger the table of hook points does not know")
            continue
        if "accept" in aspects:
            ok = len(trig) == 2 and len(bef) == 1 and len(aft) == 1 and evs.index(bef[0]) < i < evs.index(aft[0])
            if not ok and len(trig) < 2 and len(bef) <= 1 and len(aft) <= 1:
                # a trigger absent from this way through the handling but present on another one: it is called under a condition
                missing = [n_ for n_, got_ in ((bname, bef), (aname, aft)) if not got_]
                elsewhere = [m_ for m_ in missing if any(b2.phase == b.phase and b2.kind == b.kind and any(e.kind == "call" and e.name == m_ for e in b2.path.events) for b2 in blocks)]
                if missing and elsewhere == missing:
                    ctx.unrec(f, b.accept.node, f"{b.phase} {b.kind}: before-hook, acceptance, after-hook", f"{', '.join(missing)} is called under a condition ({b.path.describe()[:120]}): whether a hook that is due is ever skipped by it is not decided")
                    continue
            ctx.check(ok, f, b.accept.node, f"{b.phase} {b.kind}: before-hook, acceptance, after-hook", f"{bname}({barg}=<it>) < accept < {aname}({aarg}=<record>)",
                      " < ".join((e.name if e.kind == "call" else "?") for e in evs if e in trig or e is b.accept))
        elif "before_order" in aspects and b.kind == "order":
            allb = [e for e in trig if e.name == bname]
            ok = len(allb) == 1 and len(bef) == 1 and evs.index(bef[0]) < i
            if not allb and any(b2.phase == b.phase and b2.kind == b.kind and any(e.kind == "call" and e.name == bname for e in b2.path.events) for b2 in blocks):
                ctx.unrec(f, b.accept.node, f"{b.phase} order: the before-order hook runs once, before acceptance", f"{bname} is called under a condition ({b.path.describe()[:120]}): whether a hook that is due is ever skipped by it is not decided")
                continue
            ctx.check(ok, f, b.accept.node, f"{b.phase} order: the before-order hook runs once, before acceptance", f"{bname}(order=<it>) < _add_order", f"{len(allb)} before-order trigger(s)")
        if "execution" not in aspects:
            continue
        # fills
        ex = [e for e in evs if e.kind == "call" and calls_target(e, EXEC)]
        for x in ex:
            walked = [l for l in loops(b.path) if l.iter == x.term or (l.iter is not None and l.iter[0] == "call" and key(l.iter[1]) == "zip" and l.iter[2] and l.iter[2][0] == x.term)]
            telling = [l for l in walked if any(e.name == "executed_order" or e.name.startswith("_trigger_event_") for bp in l.paths for e in calls(bp))]
            if len(walked) > 1 and len(telling) == 1:
                walked = telling  # the other passes over the fills settle them (a folded-in routine of the simulator); the pass that tells is this one
            ctx.check(len(walked) == 1, f, x.node, f"{b.phase} {b.kind}: the fills of a round are walked once, right after the round (hooks see a fill before the next order is accepted)", "for log in <result of this _execution()>: ...", f"{len(walked)} loop(s) over the round's result within the handling of that order")
            for l in walked:
                el = ("sym", f"{l.target[0]}∈{l.loopid}")
                for bp in l.paths:
                    ts = [e for e in calls(bp) if e.name.startswith("_trigger_event_")]
                    good = [e for e in ts if e.name == "_trigger_event_after_execution" and kw(e, "execution_log", 0) == el]
                    cbs = [e for e in calls(bp) if e.name == "executed_order"]
                    ok = len(ts) == 1 and len(good) == 1 and all(bp.events.index(c) < bp.events.index(good[0]) for c in cbs)
                    ctx.check(ok, f, l.node, f"{b.phase} {b.kind}: after-execution hook once per fill, after the parties were told", "_trigger_event_after_execution(execution_log=<fill>) once, last", f"{len(ts)} trigger(s)")
        if not ex:
            stray = [e for e in calls(b.path) if e.name == "_trigger_event_after_execution"]
            ctx.check(not stray, f, b.accept.node, f"{b.phase} {b.kind}: no after-execution hook without a matching round", "0", str(len(stray)))
    # session and step hooks
    g = ctx.func(RUN)
    for p in (normal_paths(ctx.paths(RUN)) if "session" in aspects else []):
        for l in [l for l in loops(p) if key(strip_ver(l.iter)) == "self.simulator.sessions"]:
            el = ("sym", f"{l.target[0]}∈{l.loopid}")
            for bp in l.paths:
                ts = [e for e in bp.events if e.kind == "call" and e.name.startswith("_trigger_event_")]
                it = [e for e in bp.events if e.kind == "call" and e.name == "_iterate_market_updates"]
                ok = [e.name for e in ts] == ["_trigger_event_before_session", "_trigger_event_after_session"] and all(kw(e, "session", 0) == el for e in ts) and len(it) == 1 and bp.events.index(ts[0]) < bp.events.index(it[0]) < bp.events.index(ts[1])
                cur = [e for e in bp.events if e.kind == "store" and e.attr == "current_session"]
                ok = ok and len(cur) == 1 and cur[0].value == el and bp.events.index(cur[0]) < bp.events.index(ts[0])
                ctx.check(ok, g, l.node, "per session: current session set, before-session hook, steps, after-session hook", "current_session = s; before(s); steps; after(s)", " ; ".join(e.name for e in ts))
    h = ctx.func(IT)
    for p in (normal_paths(ctx.paths(IT)) if "step" in aspects else []):
        for sl in [l for l in loops(p) if l.iter is not None and l.iter[0] == "call" and key(l.iter[1]) == "range"]:
            for bp in sl.paths:
                if bp.exit[0] == "raise":
                    continue
                seq = []
                for e in bp.events:
                    if e.kind == "loop":
                        el = ("sym", f"{e.target[0]}∈{e.loopid}")
                        names = set()
                        for ip in e.paths:
                            ts = [c for c in calls(ip) if c.name.startswith("_trigger_event_")]
                            names.add(tuple((c.name, kw(c, "market", 0) == el) for c in ts))
                        if len(names) == 1:
                            seq.extend(list(next(iter(names))))
                        else:
                            seq.append(("inconsistent", False))
                            # a trigger that is skipped because the runner has no logger: hooks do not depend on logging
                            for ip in e.paths:
                                if not [c for c in calls(ip) if c.name.startswith("_trigger_event_")] and ip.exit[0] != "raise":
                                    lg = [pol for c, pol, _ in ip.conds if key(strip_ver(c)) == "(self.logger is None)"]
                                    others = [c for c, pol, _ in ip.conds if key(strip_ver(c)) != "(self.logger is None)"]
                                    if lg and lg[-1] and not others:
                                        ctx.violated(h, e.node, "step hooks are dispatched whether or not the runner writes logs", "the trigger is called on the path without a logger as well", "the pass over the markets leaves without calling the step trigger when self.logger is None")
                                    # a trigger that is called for markets of one kind only
                                    kinds_ = [(strip_ver(c), pol) for c, pol, _ in ip.conds]
                                    if kinds_ and all(c[0] == "call" and key(c[1]) == "isinstance" and c[2] and c[2][0] == el for c, _ in kinds_):
                                        ctx.violated(h, e.node, "step hooks are dispatched for every market", "the trigger is called for each market of the session, of whatever class", "no step trigger for markets with " + " & ".join(("" if pol else "not ") + key(c) for c, pol in kinds_))
                    elif e.kind == "call" and e.name == "_update_markets":
                        seq.append(("order-phase", True))
                    elif e.kind == "call" and e.name == "_update_times_on_markets":
                        seq.append(("clock", True))
                names = [n for n, _ in seq if n != "order-phase"]
                # the print switch of a session (like the presence of a logger) decides what is written, never which hooks run
                pr = [pol for c, pol, _ in bp.conds if key(strip_ver(c)) in ("session.with_print", "(self.logger is None)")]
                if pr and not any(n.startswith("_trigger_event_") for n in names) and any(any(n2.startswith("_trigger_event_") for n2 in [c.name for c in calls(o)]) for o in sl.paths if o is not bp):
                    ctx.violated(h, sl.node, "step hooks are dispatched whatever the session prints or logs", "the step triggers are called on every path of a step", "on the path where " + " & ".join((("" if pol else "not ") + key(strip_ver(c))) for c, pol, _ in bp.conds if key(strip_ver(c)) in ("session.with_print", "(self.logger is None)")) + " no step trigger is called")
                    continue
                if "inconsistent" in names:
                    ctx.unrec(h, sl.node, "per step: before-step hook for every market, order phase, after-step hook for every market, then the clock", "a step trigger is called for some markets or steps only (under a condition): whether the skipped calls would have reached no hook is not decided")
                    continue
                ok = names == ["_trigger_event_before_step_for_market", "_trigger_event_after_step_for_market", "clock"] and all(g_ for _, g_ in seq)
                if ("order-phase", True) in seq:
                    ok = ok and [n for n, _ in seq] == ["_trigger_event_before_step_for_market", "order-phase", "_trigger_event_after_step_for_market", "clock"]
                ctx.check(ok, h, sl.node, "per step: before-step hook for every market, order phase, after-step hook for every market, then the clock", "before(m)* ; orders ; after(m)* ; clock", str([n for n, _ in seq]))
    for name in (ctx.program.cls("Simulator").methods if "callers" in aspects else []):
        if name.startswith("_trigger_event_") and not _internal_trigger_helper(ctx, name):
            for s in ctx.cg.sites_calling(f"Simulator.{name}"):
                ctx.check(caller_ok(ctx, s.caller, lambda g: g.cls is not None and g.cls.name == "SequentialRunner"), s.caller, s.node, f"caller of {name}", "SequentialRunner", s.caller.qualname)


@rule("C13.R4", "a hook cannot be registered twice, is entered at most once per time, and ill-formed hooks are rejected at construction", "T3 guard + T6", floor=3)
def r4(ctx: Ctx) -> None:
    f = ctx.func("Simulator._add_event")
    n = 0
    for p in ctx.paths(f.qualname):
        eff = [e for e in p.walk_events() if e.kind in ("store",) or (e.kind == "call" and e.data.get("mutates") is not None)]
        if not eff:
            continue
        n += 1
        dup = [pol for c, pol, _ in p.conds if key(strip_ver(c)) == "(event_hook in self.event_hooks)"]
        first = strip_ver(p.conds[0][0]) if p.conds else NONE
        if not dup and first[0] == "cmp" and first[1] == "in" and key(first[2]) == "event_hook" and key(first[3]).startswith("self.") and p.conds[0][1] is False:
            ctx.unrec(f, f.node, "a hook already registered is rejected before any table is touched", f"the duplicate test looks the hook up in {key(first[3])}, not in self.event_hooks: whether that collection holds exactly the registered hooks is not decided")
            continue
        ctx.check(bool(dup) and dup[0] is False and p.conds[0][1] is False and key(strip_ver(p.conds[0][0])) == "(event_hook in self.event_hooks)", f, f.node,
                  "a hook already registered is rejected before any table is touched", "first decision: `event_hook in self.event_hooks` is false", p.describe()[:140])
        for l in loops(p):
            for bp in l.paths:
                # a bucket created for a time is a new list of its own
                made_here = {e.data.get("sym") for e in bp.events if e.kind == "note" and e.data.get("what") == "alloc"}
                for e in bp.events:
                    newb = None
                    if e.kind == "store" and e.attr is None and "events_dict" in key(strip_ver(e.base)):
                        newb = e.value
                    elif e.kind == "call" and e.name == "setdefault" and e.recv is not None and "events_dict" in key(strip_ver(e.recv)) and len(e.args) == 2:
                        newb = e.args[1]
                    if newb is None:
                        continue
                    fresh = newb in made_here or newb[0] == "list"
                    ctx.check(fresh, f, e.node, "each time gets a bucket of its own (a list created for that time, never one shared between times)", "events_dict[name][t] = []  (a new list per t)", short(newb) + (" is created once outside the loop over the hook's times" if not fresh else ""))
                apps = [e for e in calls(bp) if e.name == "append" and e.args and key(e.args[0]) == "event_hook"]
                for a in apps:
                    bucket = a.recv
                    guarded = any((not pol) and strip_ver(c)[0] == "cmp" and strip_ver(c)[1] == "in" and key(strip_ver(c)[2]) == "event_hook" and (strip_ver(c)[3] == strip_ver(bucket)) for c, pol, _ in bp.conds)
                    iter_ok = l.iter is not None and strip_ver(l.iter)[0] == "call" and key(strip_ver(l.iter)[1]) in ("set", "dict.fromkeys", "sorted")
                    ctx.check(guarded or iter_ok, f, a.node, "a hook enters the bucket of one time at most once (repeated times in its list do not repeat it)", "`if hook not in bucket: bucket.append(hook)` or iteration over distinct times", "guarded" if guarded else "unguarded append per listed time")
    ctx.require(n >= 2, "_add_event: registering paths not found")
    # which times a hook is entered under: its own list when one is given (even an empty one), the all-times key otherwise
    ht = ("attr", ("sym", "event_hook"), "time")
    for p in ctx.paths(f.qualname):
        if p.exit[0] == "raise" or not [e for e in p.walk_events() if e.kind == "call" and e.name == "append" and e.args and key(e.args[0]) == "event_hook"] and not loops(p):
            continue
        dec = []
        for c, pol, _ in p.conds:
            cc, cpol = canon_pred(strip_ver(c))
            if ht in list(subterms(cc)):
                dec.append((cc, cpol == pol))
        # `event_hook.time or <default>`: the truth value of the list stands in for `is None`, so an empty list (never)
        # takes the default (always) -- seed C13t
        ordef = [l for l in loops(p) if l.iter is not None and strip_ver(l.iter)[0] == "bool" and strip_ver(l.iter)[1] == "or" and strip_ver(strip_ver(l.iter)[2][0]) == ht]
        if not dec and ordef:
            ctx.violated(f, ordef[0].node, "only a missing time list means `at all times` (an empty list means never)", "decision `event_hook.time is None`", f"`{short(strip_ver(ordef[0].iter))}`: an empty list is false, so it is replaced by the default like None")
            continue
        if len(dec) != 1:
            ctx.unrec(f, f.node, "one decision on whether the hook carries a time list", "`event_hook.time is None`", p.describe()[:200])
            continue
        cc, given_none = dec[0]
        if not (cc[0] == "cmp" and cc[1] in ("is", "==") and {cc[2], cc[3]} == {ht, NONE}):
            ctx.violated(f, f.node, "only a missing time list means `at all times` (an empty list means never)", "decision `event_hook.time is None`", short(cc))
            continue
        lp = [l for l in loops(p) if l.iter is not None and strip_ver(l.iter) == ht]

        def bucket_keys(path: Path) -> List[Term]:
            ks = []
            for e in path.events:
                if e.kind == "store" and e.attr is None and "events_dict" in key(strip_ver(e.base)):
                    ks.append(strip_ver(e.index))
                if e.kind == "call" and e.name == "append" and e.recv is not None and strip_ver(e.recv)[0] == "sub" and "events_dict" in key(strip_ver(e.recv)[1]):
                    ks.append(strip_ver(e.recv)[2])
            return ks

        top = bucket_keys(p)
        if given_none:
            ctx.check(not lp and all(k == NONE for k in top), f, f.node, "a hook without a time list is entered under the all-times key only", "events_dict[name][None]", f"keys touched: {[short(k) for k in top]}, loops over the list: {len(lp)}")
        else:
            inner_ok = all(k == ("sym", f"{l.target[0]}∈{l.loopid}") for l in lp for bp in l.paths for k in bucket_keys(bp))
            ctx.check(len(lp) == 1 and not top and inner_ok, f, f.node, "a hook with a time list is entered under exactly the listed times", "for t in event_hook.time: events_dict[name][t]", f"{len(lp)} loop(s) over the list, keys outside the loop={[short(k) for k in top]}")
    g = ctx.func("EventHook.__init__")
    known_params = {"self", "event", "hook_type", "is_before", "time", "specific_class", "specific_instance"}
    more = [x for x in g.params if x not in known_params]
    if more:
        ctx.unrec(g, g.node, "EventHook validation", f"the constructor takes parameter(s) the rule has no specification for ({', '.join(more)}): which combinations are valid, and when such a hook is due, is not decided")
        return
    cases = []
    for p in ctx.paths(g.qualname):
        conds = [(strip_ver(c), pol) for c, pol, _ in p.conds]
        out = ("raise",) if p.exit[0] == "raise" else ("ok",)
        cases.append(Case(conds, (lambda w, out=out: out), p.describe()))
    atoms = {"hook_type", "is_before", "specific_class", "specific_instance", "issubclass(specific_class, pams.market.Market)", "isinstance(specific_instance, pams.market.Market)"}
    worlds = list(product_worlds([{"hook_type": t} for t in TYPES + ["bogus"]], [{"is_before": b} for b in (True, False)], [{"specific_class": c} for c in (None, "K")],
                                 [{"specific_instance": i} for i in (None, "I")], [{"issubclass(specific_class, pams.market.Market)": b} for b in (True, False)],
                                 [{"isinstance(specific_instance, pams.market.Market)": b} for b in (True, False)]))

    def spec(w: Dict[str, Any]) -> Any:
        bad = w["hook_type"] not in TYPES or (w["hook_type"] == "execution" and w["is_before"])
        if w["specific_class"] is not None or w["specific_instance"] is not None:
            if w["hook_type"] != "market":
                bad = True
            else:
                if w["specific_class"] is not None and not w["issubclass(specific_class, pams.market.Market)"]:
                    bad = True
                if w["specific_instance"] is not None and not w["isinstance(specific_instance, pams.market.Market)"]:
                    bad = True
        return ("raise",) if bad else ("ok",)

    table_check_cases(ctx, g, g.node, "EventHook validation", cases, worlds, lambda t: key(t) in atoms, spec)
    for p in normal_paths(ctx.paths(g.qualname)):
        got = {e.attr: key(e.value) for e in stores(p) if key(strip_ver(e.base)) == "self"}
        want = {"event": "event", "hook_type": "hook_type", "is_before": "is_before", "time": "time", "specific_class": "specific_class", "specific_instance": "specific_instance"}
        ctx.check({k: v for k, v in got.items() if k in want} == want, g, g.node, "EventHook stores its arguments under their own names", str(want), str(got))


@rule("C13.R5", "every hook an event declares is registered once, for the event that declared it", "T4 + closure capture check", floor=3)
def r5(ctx: Ctx) -> None:
    gs = ctx.func("SequentialRunner._generate_sessions")
    # the callback is a closure of the generating function or a method of the runner
    meths = [m for m in (gs.cls.methods.values() if gs.cls is not None else ())]
    cands = [n_ for m in meths for n_ in m.nested.values()] + [m for m in meths if m is not gs]
    regs = [n for n in cands if any(isinstance(x, ast.Call) and isinstance(x.func, ast.Attribute) and x.func.attr == "_add_event" for x in ast.walk(n.node))]
    regs = [n for n in regs if any(calls_target(e, "Simulator._add_event") for p in ctx.paths(n.qualname) for e in calls(p))]
    ctx.require(len(regs) == 1, "_generate_sessions: the deferred hook-registration callback was not found")
    cb = regs[0]
    # every event a session lists is created (whether it acts is the event's own `enabled` decision)
    nmade = 0
    for top in normal_paths(ctx.paths(gs.qualname)):
        stack = [top]
        while stack:
            path = stack.pop()
            for e in path.events:
                if e.kind != "loop":
                    continue
                made_here = [bp for bp in e.paths if any(c.kind == "call" and kw(c, "event_id") is not None for c in bp.events)]
                if made_here:
                    nmade += 1
                    for bp in e.paths:
                        if bp.exit[0] == "raise" or bp in made_here:
                            continue
                        ctx.violated(gs, e.node, "every event listed in a session is created and its hooks are registered", "no path of the loop over a session's events leaves without creating the event", "skipped on [" + bp.describe()[:160] + "]")
                else:
                    stack.extend(bp for bp in e.paths if bp.exit[0] != "raise")
    ctx.require(nmade >= 1, "_generate_sessions: the loop that creates a session's events was not found")
    own = [a for a in cb.params if not (cb.cls is not None and a == "self")]
    if not own:
        ctx.violated(cb, cb.node, "the deferred callback receives its event as a parameter", "def callback(_event): ...", "callback without parameters (it can only see the event through its closure)")
    pname = own[0] if own else "<event>"
    for p in normal_paths(ctx.paths(cb.qualname)):
        lps = loops(p)
        ok = len(lps) == 1 and lps[0].iter is not None and lps[0].iter[0] == "call" and lps[0].iter[1][0] == "attr" and lps[0].iter[1][2] == "hook_registration" and lps[0].iter[1][1] == ("sym", pname)
        if ok:
            el = ("sym", f"{lps[0].target[0]}∈{lps[0].loopid}")
            for bp in lps[0].paths:
                adds = [e for e in calls(bp) if calls_target(e, "Simulator._add_event")]
                ok = ok and len(adds) == 1 and kw(adds[0], "event_hook", 0) == el and not bp.conds
        ctx.check(ok, cb, cb.node, "the callback registers each hook returned by its event's hook_registration() once", f"for h in {pname}.hook_registration(): simulator._add_event(h)", p.describe()[:160])
    # closure capture: the callback may use only its parameter and self
    free = set()
    bound = set(cb.params)
    for n in ast.walk(cb.node):
        if isinstance(n, ast.Name):
            if isinstance(n.ctx, ast.Store):
                bound.add(n.id)
    # parameter defaults are evaluated when the callback is defined (inside the loop iteration): not a capture
    body_nodes = [x for st_ in cb.node.body for x in ast.walk(st_)] if hasattr(cb.node, "body") and isinstance(cb.node.body, list) else list(ast.walk(cb.node))
    default_bound: Dict[str, str] = {}
    if isinstance(cb.node, (ast.FunctionDef, ast.AsyncFunctionDef)):
        a_ = cb.node.args
        pos_ = a_.posonlyargs + a_.args
        for arg_, d_ in zip(pos_[len(pos_) - len(a_.defaults):], a_.defaults):
            if isinstance(d_, ast.Name):
                default_bound[arg_.arg] = d_.id
    for n in body_nodes:
        if isinstance(n, ast.Name) and isinstance(n.ctx, ast.Load) and n.id not in bound and n.id not in ("self",) and n.id not in gs.module.imports and n.id not in dir(__builtins__) and n.id not in dir(__import__("builtins")):
            free.add(n.id)
    loopvars = set()
    for n in ast.walk((cb.outer or gs).node):
        if isinstance(n, ast.For):
            for x in ast.walk(n):
                if isinstance(x, ast.Name) and isinstance(x.ctx, ast.Store):
                    loopvars.add(x.id)
    captured = sorted(free & loopvars)
    ctx.check(not captured, cb, cb.node, "the deferred callback does not capture a loop variable of the generating loop", "uses only its own parameter", "captures " + ", ".join(captured) if captured else "no capture")
    # each created event gets its own deferred registration with itself as argument
    n = 0
    for p in normal_paths(ctx.paths(gs.qualname)):
        for l in [x for x in p.walk_events(True) if x.kind == "loop"]:
            for bp in l.paths:
                made = [e for e in calls(bp, into_loops=False) if e.site.how == "ctor" and "EventABC" in e.site.recv]
                if not made:
                    continue
                n += 1
                defs = []
                for e in calls(bp, into_loops=False):
                    if e.name == "append" and e.args and e.args[0][0] == "tuple" and len(e.args[0][1]) == 2 and key(e.args[0][1][0]).endswith(cb.name):
                        lit = None
                        for x in bp.events:
                            if x.kind == "note" and x.data.get("what") == "alloc" and x.data.get("sym") == e.args[0][1][1]:
                                lit = x.data["literal"]
                        defs.append(lit)
                ok = len(defs) == 1 and defs[0] is not None and len(defs[0][1]) == 1 and defs[0][1][0][0] == ("const", pname) and defs[0][1][0][1] == made[0].term
                if not ok and len(defs) == 1 and defs[0] is not None and len(defs[0][1]) == 0 and pname in default_bound:
                    # def callback(_event=event): the event is bound as the parameter's default when the callback is defined
                    ok = bp.env.get(default_bound[pname]) == made[0].term and cb.outer is not None
                ctx.check(ok, gs, made[0].node, "each event created gets one deferred registration bound to that very event", f"pending.append(({cb.name}, {{'{pname}': <the new event>}}))", f"{len(defs)} deferred registration(s): {[short(d) if d else None for d in defs]}")
    ctx.require(n >= 1, "_generate_sessions: event construction not found")
    # the deferred calls are executed, each once, in order
    st = ctx.func("SequentialRunner._setup")
    found = False
    for p in normal_paths(ctx.paths(st.qualname)):
        for e in p.walk_events():
            if e.kind == "call" and "comp" in e.ctx and e.kwargs and e.kwargs[0][0] == "**":
                found = True
        for l in loops(p):
            if key(strip_ver(l.iter)) == "self._pending_setups" and len(l.target) == 2:
                fn, kwv = (("sym", f"{t}∈{l.loopid}") for t in l.target)
                if all(len([c for c in calls(bp) if c.fterm == fn and c.kwargs and c.kwargs[0] == ("**", kwv)]) == 1 and not bp.conds for bp in l.paths):
                    found = True
    ctx.check(found, st, st.node, "every pending setup is executed", "[func(**kwargs) for func, kwargs in self._pending_setups]", "present" if found else "not found")


@rule("C13.H1", "mechanism shared with C10: the time a hook is selected by is the occurrence's own time (records carry the market clock of the moment)", "T10 field provenance (same rule as C10.R3)", floor=10)
def h1(ctx: Ctx) -> None:
    from .c10 import r3 as record_fields_rule

    record_fields_rule(ctx)



@rule("C13.H2", "times, names and hook types are compared by value wherever hooks are filed and selected (a step number or a name is never tested with `is`)", "T13 lint over Simulator, EventHook and the event classes", floor=1)
def h2(ctx: Ctx) -> None:
    from .events import check_identity_comparisons

    check_identity_comparisons(ctx, ["Simulator", "EventHook", "EventABC"], floor=30)
