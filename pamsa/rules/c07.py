"""C07 -- reproducibility: configuration and seed determine the whole run."""
from __future__ import annotations

import ast
from typing import Any, Dict, Iterable, List, Optional, Set, Tuple

from ..callgraph import MUTATORS, classes_of
from ..kit import Ctx, calls, calls_target, kw, loops, normal_paths, rule, short
from ..loader import FuncInfo
from ..paths import Event, Path
from ..terms import NONE, Term, key, strip_ver, subterms
from ..types import UNK, _name_of, elem_type, strip_opt

BANNED_MODULES = {
    "time": "wall clock", "datetime": "wall clock", "uuid": "ambient randomness", "secrets": "ambient randomness",
    "threading": "scheduling nondeterminism", "multiprocessing": "scheduling nondeterminism", "concurrent": "scheduling nondeterminism",
    "asyncio": "scheduling nondeterminism", "glob": "filesystem enumeration", "socket": "ambient input", "getpass": "ambient input",
    "tempfile": "ambient state", "platform": "ambient input",
}
BANNED_OS = {"environ", "getenv", "urandom", "getpid", "listdir", "scandir", "walk", "getcwd", "times", "cpu_count"}
BANNED_BUILTINS = {"id": "address-dependent", "hash": "hash-seed dependent", "input": "ambient input"}
DYNAMIC = {"setattr", "delattr", "exec", "eval", "vars", "compile", "globals", "locals", "__import__"}
STOCHASTIC = {
    "random", "gauss", "sample", "choices", "choice", "randint", "randrange", "shuffle", "uniform", "normalvariate", "expovariate",
    "betavariate", "gammavariate", "lognormvariate", "triangular", "getrandbits", "standard_normal", "normal", "integers", "permutation",
    "exponential", "seed",
}
ALLOW = {
    # (function qualname, symbol) -> reason
    ("Runner.__init__", "random.Random()"): "default generator when the caller hands none (the property fixes the seed of the generator handed in)",
    ("Runner.main", "time.time_ns"): "wall-clock readings flow only into print()",
    ("Runner.__init__", "open"): "reads the settings file the caller names",
    ("pams.utils.class_finder:find_class", "__import__"): "imports pams' own namespaces for class lookup (read only)",
    ("pams.utils.class_finder:find_class", "globals"): "read only, for class lookup",
    ("pams.utils.class_finder:find_class", "locals"): "read only, for class lookup",
}


def _enclosing(ctx: Ctx) -> Dict[int, FuncInfo]:
    m: Dict[int, FuncInfo] = {}
    for f in ctx.program.all_functions():
        for n in ast.walk(f.node):
            m.setdefault(id(n), f)
    # innermost wins: walk nested after outer
    for f in ctx.program.all_functions():
        if f.outer is not None:
            for n in ast.walk(f.node):
                m[id(n)] = f
    return m


def _mod_alias(mi, name: str) -> Optional[str]:
    """dotted module a local name is bound to by an import (None if not a module import)."""
    return mi.imports.get(name)


@rule("C07.R1", "no ambient randomness, wall clock, environment, hash- or address-dependent value is read anywhere in pams (allowlisted symbols excepted)", "T13 banned-API lint with per-symbol allowlist", floor=8)
def r1(ctx: Ctx) -> None:
    enc = _enclosing(ctx)
    nsites = 0
    used_allow: Set[Tuple[str, str]] = set()
    for mi in ctx.program.modules.values():
        parents: Dict[int, ast.AST] = {}
        for node in ast.walk(mi.tree):
            for ch in ast.iter_child_nodes(node):
                parents[id(ch)] = node
        # imports
        for node in ast.walk(mi.tree):
            f = enc.get(id(node))
            where = f.qualname if f else mi.name
            if isinstance(node, (ast.Import, ast.ImportFrom)):
                names = [a.name for a in node.names] if isinstance(node, ast.Import) else [node.module or ""]
                for n in names:
                    root = n.split(".")[0]
                    nsites += 1
                    if root in BANNED_MODULES and root != "time":
                        ctx.violated(f, node, f"import of {root} in {where}", "module not used by pams", f"import {n} ({BANNED_MODULES[root]})")
                    elif root == "time" and mi.name != "pams.runners.base":
                        ctx.violated(f, node, f"import of time in {where}", "only pams.runners.base imports time (for printed timings)", f"import {n}")
            if not isinstance(node, ast.Call):
                continue
            nm = _name_of(node.func) or ""
            parts = nm.split(".")
            root = parts[0]
            tgt = _mod_alias(mi, root) if root else None
            sym = None
            why = ""
            if tgt == "random" and len(parts) == 2:
                if parts[1] in ("Random", "SystemRandom"):
                    if parts[1] == "SystemRandom":
                        sym, why = "random.SystemRandom", "OS entropy"
                    elif not node.args and not node.keywords:
                        sym, why = "random.Random()", "generator seeded from OS entropy"
                else:
                    sym, why = f"random.{parts[1]}", "module-level (global) generator"
            elif tgt and tgt.startswith("random.") and len(parts) == 1:
                if tgt != "random.Random" or (not node.args and not node.keywords):
                    sym, why = tgt + ("()" if tgt == "random.Random" else ""), "module-level (global) generator"
            elif tgt in ("numpy", "numpy.random") and "random" in parts[1:] + ([] if tgt == "numpy" else ["random"]):
                fn = parts[-1]
                if fn == "default_rng":
                    if not node.args and not node.keywords:
                        sym, why = "np.random.default_rng()", "generator seeded from OS entropy"
                elif fn not in ("Generator",):
                    sym, why = f"np.random.{fn}", "numpy's global generator"
            elif tgt == "time" or (tgt or "").startswith("time."):
                sym, why = nm if tgt == "time" else tgt, "wall clock"
            elif tgt == "os" and len(parts) >= 2 and parts[1] in BANNED_OS:
                sym, why = nm, "process environment"
            elif isinstance(node.func, ast.Name) and node.func.id in BANNED_BUILTINS and node.func.id not in mi.imports:
                sym, why = node.func.id, BANNED_BUILTINS[node.func.id]
                par = parents.get(id(node))
                if sym == "id" and isinstance(par, ast.Compare) and all(isinstance(o, (ast.In, ast.NotIn, ast.Eq, ast.NotEq, ast.Is, ast.IsNot)) for o in par.ops):
                    sym = None  # identity test: the address is compared for equality only, its value never matters
                elif sym == "id" and ((isinstance(par, ast.Subscript) and par.slice is node) or (isinstance(par, ast.Call) and isinstance(par.func, ast.Attribute) and par.func.attr in ("get", "pop", "setdefault") and par.args and par.args[0] is node)):
                    f_ = enc.get(id(node))
                    ctx.unrec(f_, node, f"id in {f_.qualname if f_ else mi.name}", "an address is used as the key of a table: the value of the address does not matter as long as an entry found under a reused address is recognised as stale, which is not decided here")
                    sym = None
            elif isinstance(node.func, ast.Name) and node.func.id in DYNAMIC:
                sym, why = node.func.id, "dynamic code / namespace access"
                if sym in ("setattr", "getattr", "hasattr") and node.args and isinstance(node.args[0], ast.Name) and node.args[0].id == "self":
                    sym = None  # a field of the object itself, named by a value: no source of nondeterminism
                if sym == "vars" and len(node.args) == 1:
                    sym = None  # vars(x) is x.__dict__: the attributes of a given object, in definition order
            elif isinstance(node.func, ast.Name) and node.func.id == "open":
                sym, why = "open", "file input"
            elif isinstance(node.func, ast.Attribute) and node.func.attr == "popitem":
                sym, why = ".popitem()", "order-dependent removal"
            elif (tgt or "").split(".")[0] == "numpy" and any(k_.arg == "where" for k_ in node.keywords) and not any(k_.arg == "out" for k_ in node.keywords) and parts[-1] not in ("where", "sum", "mean", "min", "max", "any", "all", "prod", "amax", "amin", "argmax", "argmin", "std", "var"):
                sym, why = f"np.{parts[-1]}(..., where=...) without out=", "the masked-out entries of the result are uninitialised memory"
            elif (tgt or "").split(".")[0] == "numpy" and parts[-1] in ("empty", "empty_like", "ndarray"):
                sym, why = f"np.{parts[-1]}", "uninitialised memory"
            nsites += 1
            if sym is None:
                continue
            k = (where, sym)
            via = None
            if k not in ALLOW and f is not None:
                from ..kit import caller_ok

                for (q_, s_), why_ in ALLOW.items():
                    if s_ == sym and caller_ok(ctx, f, lambda g, q_=q_: g.qualname == q_):
                        via = (q_, why_)
            if k in ALLOW:
                used_allow.add(k)
                ctx.holds(f, node, f"{sym} in {where}", expected="allowlisted: " + ALLOW[k], found=sym)
            elif via is not None:
                ctx.holds(f, node, f"{sym} in {where} (private helper of {via[0]})", expected="allowlisted: " + via[1], found=sym)
            else:
                ctx.violated(f, node, f"{sym} in {where}", "no ambient source of nondeterminism", f"{sym}: {why}")
        # os.environ attribute reads (not calls)
        for node in ast.walk(mi.tree):
            if isinstance(node, ast.Attribute) and isinstance(node.value, ast.Name) and _mod_alias(mi, node.value.id) == "os" and node.attr == "environ":
                f = enc.get(id(node))
                ctx.violated(f, node, f"os.environ in {f.qualname if f else mi.name}", "no ambient input", "os.environ")
    ctx.require(nsites >= 500, "lint visited fewer call/import sites than the package contains")
    # the wall-clock values of Runner.main only reach print()
    f = ctx.func("Runner.main")
    for p in ctx.paths(f.qualname):
        tn = [e.term for e in calls(p) if e.fname.startswith("time.")]
        bad = []
        for e in p.walk_events():
            if e.kind == "store" and any(t in list(subterms(e.value)) for t in tn):
                bad.append(short(e.target))
            if e.kind == "call" and e.name not in ("print", "str", "time_ns") and any(t in [s for a in list(e.args) + [v for _, v in e.kwargs] for s in subterms(a)] for t in tn):
                bad.append(e.name)
        ctx.check(not bad, f, f.node, "timing values of Runner.main flow only into print", "no store, no call other than print/str", ", ".join(bad) or "print only")


def _is_instance_generator(t: Optional[Term]) -> bool:
    if t is None:
        return False
    t = strip_ver(t)
    if t[0] == "attr" and t[2] in ("prng", "_prng", "_np_prng"):
        return True
    if t == ("sym", "prng"):
        return True  # the generator handed to a constructor (it becomes the instance generator)
    if t[0] == "call" and key(t[1]) == "random.Random" and not t[2] and not t[3]:
        return True  # Runner.__init__'s default generator (allowlisted by R1, only there)
    if t[0] == "call" and t[1][0] == "attr" and t[1][2] == "get_prng":
        return True
    return False


def _fresh_generator(t: Optional[Term]) -> bool:
    """random.Random(<instance generator>.randint(...))"""
    if t is None or t[0] != "call" or key(t[1]) != "random.Random" or len(t[2]) != 1:
        return False
    a = t[2][0]
    return a[0] == "call" and a[1][0] == "attr" and a[1][2] in ("randint", "getrandbits", "randrange") and _is_instance_generator(a[1][1])


@rule("C07.R2", "every generator is created from its owner's generator, every component gets a fresh one, and every random draw uses an instance generator", "T10 provenance", floor=14)
def r2(ctx: Ctx) -> None:
    p = ctx.program
    n_new = n_pass = n_draw = 0
    for f in p.all_functions():
        if f.outer is not None:
            continue
        for path in ctx.paths(f.qualname):
            for e in path.walk_events(True):
                if e.kind != "call":
                    continue
                # (a) construction of generators
                if e.fname in ("random.Random",) and e.args:
                    n_new += 1
                    ctx.check(_fresh_generator(e.term), f, e.node, "new random.Random is seeded by a draw from the owner's generator", "random.Random(<self generator>.randint(...))", short(e.term))
                elif e.name == "default_rng" and (e.args or e.kwargs):
                    n_new += 1
                    a = e.args[0] if e.args else e.kwargs[0][1]
                    ok = a[0] == "call" and a[1][0] == "attr" and a[1][2] in ("randint", "getrandbits", "randrange") and _is_instance_generator(a[1][1])
                    ctx.check(ok, f, e.node, "numpy generator is seeded by a draw from the owner's generator", "default_rng(<self generator>.randint(...))", short(e.term))
                # (b) components receive a fresh generator
                if e.site.how == "ctor":
                    has_prng = False
                    for t in e.site.targets:
                        if "prng" in t.params:
                            has_prng = True
                    if has_prng:
                        a = kw(e, "prng")
                        if a is None:
                            for t in e.site.targets:
                                i = t.params.index("prng") - 1
                                if 0 <= i < len(e.args):
                                    a = e.args[i]
                        n_pass += 1
                        if e.name == "JsonRandom":
                            ok = _is_instance_generator(a)
                            ctx.check(ok, f, e.node, "JsonRandom wraps its owner's own generator", "JsonRandom(prng=self.prng)", short(a))
                        elif f.name == "__init__" and a is not None and a[0] == "sym" and a[1] == "prng":
                            ctx.holds(f, e.node, "constructor forwards the generator it was given to its base class", expected="super().__init__(prng=prng)", found=short(a))
                        else:
                            ctx.check(_fresh_generator(a), f, e.node, f"{e.name} receives a fresh generator derived from the creator's", "prng=random.Random(<self generator>.randint(...))", short(a))
                if e.site.how == "super" and e.name == "__init__":
                    continue
                # (c) stochastic draws
                if e.name in STOCHASTIC and e.recv is not None and not e.site.targets:
                    rt = strip_ver(e.recv)
                    if rt[0] == "name":
                        continue  # module-level functions are judged by R1
                    if e.name in ("random",) and rt[0] == "attr" and rt[2] in ("json_random",):
                        continue
                    looks_gen = _is_instance_generator(rt)
                    typ = None
                    if not looks_gen:
                        # a local alias of a generator, e.g. rng = self.prng
                        continue_ok = False
                        if rt[0] == "sym" and rt[1] in ("prng", "_prng"):
                            continue_ok = True
                        if not continue_ok:
                            # receivers that are not generators at all (e.g. list.index) are irrelevant
                            if e.name in ("sample", "choice", "choices", "shuffle", "gauss", "randint", "uniform", "standard_normal", "getrandbits", "randrange", "normalvariate", "expovariate", "seed"):
                                n_draw += 1
                                ctx.violated(f, e.node, f"random draw {e.name} on a receiver that is not an instance generator", "self.prng / self._prng / self._np_prng / get_prng()", short(rt))
                            continue
                    n_draw += 1
                    ctx.holds(f, e.node, f"random draw {e.name} on an instance generator", expected="instance generator", found=short(rt))
    ctx.require(n_new >= 6 and n_pass >= 6 and n_draw >= 8, f"generator discipline: found only {n_new} constructions, {n_pass} hand-overs, {n_draw} draws")
    from ..kit import super_init_forwarding

    for f, node, ok, what in super_init_forwarding(ctx, "prng"):
        ctx.check(ok, f, node, f"{f.qualname} hands the generator it was given to its base constructor", "super().__init__(..., prng=prng)", what)


_ORDER_FREE_CONSUMERS = {"len", "sorted", "sum", "min", "max", "any", "all", "frozenset", "set", "bool"}


@rule("C07.R3", "no iteration order of a hash-based set reaches the outcome", "T13 lint on every set construction", floor=1)
def r3(ctx: Ctx) -> None:
    enc = _enclosing(ctx)
    n = 0
    for mi in ctx.program.modules.values():
        parents: Dict[int, ast.AST] = {}
        for node in ast.walk(mi.tree):
            for ch in ast.iter_child_nodes(node):
                parents[id(ch)] = node
        for node in ast.walk(mi.tree):
            is_set = isinstance(node, (ast.Set, ast.SetComp)) or (isinstance(node, ast.Call) and isinstance(node.func, ast.Name) and node.func.id in ("set", "frozenset") and node.func.id not in mi.imports)
            if not is_set and isinstance(node, ast.BinOp) and isinstance(node.op, (ast.BitAnd, ast.BitOr, ast.BitXor, ast.Sub)):
                # set algebra on dictionary views: `d.keys() & names` is a set
                is_set = any(isinstance(x, ast.Call) and isinstance(x.func, ast.Attribute) and x.func.attr in ("keys", "items") and not x.args for x in (node.left, node.right))
            if not is_set and isinstance(node, ast.Call) and isinstance(node.func, ast.Attribute) and node.func.attr in ("intersection", "union", "difference", "symmetric_difference") and not (isinstance(node.func.value, ast.Name) and node.func.value.id in ("np", "numpy")):
                is_set = True
            if not is_set:
                continue
            n += 1
            f = enc.get(id(node))
            where = f.qualname if f else mi.name
            par = parents.get(id(node))
            ok = False
            how = "?"
            if isinstance(par, ast.Call) and isinstance(par.func, ast.Name) and par.func.id in _ORDER_FREE_CONSUMERS and node in par.args:
                ok, how = True, f"consumed by {par.func.id}()"
            elif isinstance(par, ast.Compare) and node in par.comparators and all(isinstance(o, (ast.In, ast.NotIn, ast.Eq, ast.NotEq, ast.LtE, ast.GtE, ast.Lt, ast.Gt)) for o in par.ops):
                ok, how = True, "membership / set comparison"
            elif isinstance(par, ast.Call) and isinstance(par.func, ast.Name) and par.func.id in ("list", "tuple") and f is not None:
                # list(set(...)) bound to a local that is sorted in place before it is returned or iterated
                gp = parents.get(id(par))
                name = None
                if isinstance(gp, (ast.Assign, ast.AnnAssign)):
                    tg = gp.targets[0] if isinstance(gp, ast.Assign) else gp.target
                    if isinstance(tg, ast.Name):
                        name = tg.id
                if name is not None:
                    sorts = [c for c in ast.walk(f.node) if isinstance(c, ast.Call) and isinstance(c.func, ast.Attribute) and c.func.attr == "sort" and isinstance(c.func.value, ast.Name) and c.func.value.id == name]
                    first_iter = [c for c in ast.walk(f.node) if isinstance(c, (ast.For, ast.comprehension)) and isinstance(c.iter, ast.Name) and c.iter.id == name]
                    if sorts and all(s.lineno <= i.iter.lineno for s in sorts[:1] for i in first_iter):
                        ok, how = True, f"list sorted in place ({name}.sort) before any iteration"
                    else:
                        # every use of the list is itself insensitive to its order
                        tgt_node = gp.targets[0] if isinstance(gp, ast.Assign) else gp.target
                        uses = [u for u in ast.walk(f.node) if isinstance(u, ast.Name) and u.id == name and u is not tgt_node]
                        bad_use = []
                        for u in uses:
                            if isinstance(u.ctx, ast.Store):
                                bad_use.append(u)
                                continue
                            up = parents.get(id(u))
                            if isinstance(up, ast.Compare) and u in up.comparators and all(isinstance(o, (ast.In, ast.NotIn)) for o in up.ops):
                                continue
                            if isinstance(up, ast.Call) and isinstance(up.func, ast.Name) and up.func.id in _ORDER_FREE_CONSUMERS and u in up.args:
                                continue
                            if isinstance(up, ast.comprehension) and up.iter is u:
                                owner = parents.get(id(up))
                                oc = parents.get(id(owner)) if owner is not None else None
                                if isinstance(owner, (ast.GeneratorExp, ast.ListComp, ast.SetComp)) and isinstance(oc, ast.Call) and isinstance(oc.func, ast.Name) and oc.func.id in _ORDER_FREE_CONSUMERS and owner in oc.args:
                                    continue
                            bad_use.append(u)
                        if uses and not bad_use:
                            ok, how = True, f"{name} is only tested for membership or fed to sorted()/sum()/min()/max()"
            if not ok and f is not None and isinstance(par, (ast.Assign, ast.AnnAssign)) and par.value is node:
                tg = par.targets[0] if isinstance(par, ast.Assign) and len(par.targets) == 1 else (par.target if isinstance(par, ast.AnnAssign) else None)
                if isinstance(tg, ast.Name):
                    uses = [u for u in ast.walk(f.node) if isinstance(u, ast.Name) and u.id == tg.id and u is not tg]
                    rebound = [u for u in uses if isinstance(u.ctx, ast.Store)]
                    bad_use = []
                    for u in uses:
                        if isinstance(u.ctx, ast.Store):
                            continue
                        up = parents.get(id(u))
                        if isinstance(up, ast.Compare) and u in up.comparators and all(isinstance(o, (ast.In, ast.NotIn, ast.Eq, ast.NotEq)) for o in up.ops):
                            continue
                        if isinstance(up, ast.Attribute) and up.attr in ("add", "discard", "remove", "update", "clear", "__contains__", "issubset", "issuperset", "isdisjoint") and isinstance(parents.get(id(up)), ast.Call):
                            continue
                        if isinstance(up, ast.Call) and isinstance(up.func, ast.Name) and up.func.id in _ORDER_FREE_CONSUMERS and u in up.args:
                            continue
                        bad_use.append(u)
                    if not rebound and not bad_use:
                        ok, how = True, f"bound to {tg.id}, used only for membership / size"
                if not ok and isinstance(tg, ast.Attribute) and isinstance(tg.value, ast.Name) and tg.value.id == "self" and f.cls is not None:
                    # a set kept on the object: every use of that attribute in the class is order-free
                    bad_use = []
                    nuse = 0
                    for m_ in f.cls.methods.values():
                        mparents: Dict[int, ast.AST] = {}
                        for n_ in ast.walk(m_.node):
                            for c_ in ast.iter_child_nodes(n_):
                                mparents[id(c_)] = n_
                        for u in ast.walk(m_.node):
                            if not (isinstance(u, ast.Attribute) and u.attr == tg.attr and isinstance(u.value, ast.Name) and u.value.id == "self") or u is tg:
                                continue
                            nuse += 1
                            up = mparents.get(id(u))
                            if isinstance(u.ctx, ast.Store):
                                if isinstance(up, (ast.Assign, ast.AnnAssign)) and up.value is not None and (isinstance(up.value, (ast.Set, ast.SetComp)) or (isinstance(up.value, ast.Call) and isinstance(up.value.func, ast.Name) and up.value.func.id in ("set", "frozenset"))):
                                    continue
                                bad_use.append(u)
                                continue
                            if isinstance(up, ast.Compare) and u in up.comparators and all(isinstance(o, (ast.In, ast.NotIn, ast.Eq, ast.NotEq)) for o in up.ops):
                                continue
                            if isinstance(up, ast.Attribute) and up.attr in ("add", "discard", "remove", "update", "clear", "__contains__", "issubset", "issuperset", "isdisjoint") and isinstance(mparents.get(id(up)), ast.Call):
                                continue
                            if isinstance(up, ast.Call) and isinstance(up.func, ast.Name) and up.func.id in _ORDER_FREE_CONSUMERS and u in up.args:
                                continue
                            bad_use.append(u)
                    if not bad_use:
                        ok, how = True, f"kept in self.{tg.attr}, used only for membership / size ({nuse} use(s) in {f.cls.name})"
                if not ok and isinstance(par, ast.AnnAssign):
                    ann = ast.unparse(par.annotation)
                    if ann.replace("typing.", "") in ("Set[int]", "Set[float]", "set[int]", "set[float]", "FrozenSet[int]"):
                        ok, how = True, "elements are numbers by annotation (hash independent of PYTHONHASHSEED)"
            if not ok:
                # a set placed in a container literal that is bound with an annotation naming its element type
                up_ = par
                nested = False
                while isinstance(up_, (ast.Dict, ast.List, ast.Tuple)):
                    nested = True
                    up_ = parents.get(id(up_))
                if nested and isinstance(up_, ast.AnnAssign):
                    ann = ast.unparse(up_.annotation).replace("typing.", "")
                    import re as _re

                    inner = _re.findall(r"(?:Set|set|FrozenSet|frozenset)\[([^\]\[]*)\]", ann)
                    if inner and all(x.strip() in ("int", "float", "bool") for x in inner):
                        ok, how = True, "elements are numbers by annotation (hash independent of PYTHONHASHSEED)"
                if not ok and nested:
                    ctx.unrec(f, node, f"set constructed in {where}", "the set is stored inside another container; where it is iterated is not followed")
                    continue
            if not ok and f is not None:
                # hash-stable element types (int/float/bool): iteration order does not depend on the hash seed
                env = ctx.cg.env(f)
                et = UNK
                if isinstance(node, ast.Call) and node.args:
                    et = env._iter_elem(node.args[0], env.type_of(node.args[0]))
                et = strip_opt(et)
                if et[0] == "prim" and et[1] in ("int", "float", "bool"):
                    ok, how = True, f"elements are {et[1]} (hash independent of PYTHONHASHSEED)"
            ctx.check(ok, f, node, f"set constructed in {where}", "only len/in/sorted/sort() consumers, or int/float elements", how if ok else f"set iterated / exposed in order ({type(par).__name__})")
    ctx.require(n >= 1, "no set construction left in pams (four confirmed by reading): the lint would pass vacuously")


@rule("C07.R4", "no state survives a run inside pams: no global rebinding, no mutable class-level or default-argument containers, no dynamic attribute writes", "T13 lint", floor=39)
def r4(ctx: Ctx) -> None:
    enc = _enclosing(ctx)
    n = 0
    for mi in ctx.program.modules.values():
        for node in ast.walk(mi.tree):
            f = enc.get(id(node))
            if isinstance(node, (ast.Global, ast.Nonlocal)):
                ctx.violated(f, node, f"{type(node).__name__.lower()} statement in {f.qualname if f else mi.name}", "no rebinding of outer state", ", ".join(node.names))
            if isinstance(node, ast.Attribute) and node.attr == "__dict__":
                ctx.violated(f, node, f"__dict__ access in {f.qualname if f else mi.name}", "no dynamic attribute access", "__dict__")
        # module-level mutable containers
        for node in mi.tree.body:
            if isinstance(node, (ast.Assign, ast.AnnAssign)) and node.value is not None and _mutable_literal(node.value):
                names = [t.id for t in (node.targets if isinstance(node, ast.Assign) else [node.target]) if isinstance(t, ast.Name)]
                if names == ["__all__"]:
                    continue
                n += 1
                use = _module_container_use(mi.tree, names[0]) if len(names) == 1 else "other"
                if use == "constant":
                    ctx.holds(None, node, f"module-level container {names[0]} in {mi.name} is never changed", "a table that is only read")
                elif use == "memo":
                    ctx.unrec(None, node, f"module-level mutable container {names[0]} in {mi.name}", "it is used as a keyed memo (entries looked up and stored under a key, never walked): whether an entry kept from an earlier run can change an outcome is not decided")
                elif use == "lazy":
                    ctx.unrec(None, node, f"module-level mutable container {names[0]} in {mi.name}", "it is filled once, on first use, and only read afterwards: whether what it is filled with can differ from run to run is not decided")
                else:
                    ctx.violated(None, node, f"module-level mutable container {', '.join(names)} in {mi.name}", "no process-wide mutable state", ast.unparse(node.value)[:60])
    for cname, ci in ctx.program.classes.items():
        n += 1
        bad = []
        for node in ci.node.body:
            if isinstance(node, (ast.Assign, ast.AnnAssign)) and node.value is not None and _mutable_literal(node.value):
                tg = node.targets[0] if isinstance(node, ast.Assign) else node.target
                bad.append(ast.unparse(tg))
        f0 = next(iter(ci.methods.values()), None)
        ctx.check(not bad, f0, ci.node, f"class {cname} has no class-level mutable container", "instance state only", ", ".join(bad) or "none")
    for f in ctx.program.all_functions():
        a = f.node.args
        bad = [ast.unparse(d)[:40] for d in list(a.defaults) + [d for d in a.kw_defaults if d is not None] if _mutable_literal(d)]
        if bad:
            ctx.violated(f, f.node, f"mutable default argument in {f.qualname}", "no state shared between calls", ", ".join(bad))


def _module_container_use(tree: ast.Module, name: str) -> str:
    """how a module-level container is used in its module: 'constant' (only read), 'memo' (entries are
    stored and looked up under a key and the container is never walked, measured or handed on),
    'other' (anything else: appended to, iterated, passed around)"""
    parents: Dict[int, ast.AST] = {}
    for n in ast.walk(tree):
        for c in ast.iter_child_nodes(n):
            parents[id(c)] = n
    mutated = keyed_write = walked = escaped = False
    fills = 0
    for n in ast.walk(tree):
        if not (isinstance(n, ast.Name) and n.id == name):
            continue
        par = parents.get(id(n))
        if isinstance(par, ast.Subscript) and par.value is n and isinstance(par.ctx, ast.Store) and isinstance(par.slice, ast.Slice) and par.slice.lower is None and par.slice.upper is None and par.slice.step is None:
            # X[:] = ...  directly under `if len(X) == 0:` / `if not X:` -- the table is filled on first use and then only read
            st = parents.get(id(par))
            guard = parents.get(id(st)) if st is not None else None
            if isinstance(guard, ast.If) and st in guard.body:
                t = ast.unparse(guard.test).replace(" ", "")
                if t in (f"len({name})==0", f"not{name}", f"0==len({name})", f"{name}==[]"):
                    fills += 1
                    continue
        if isinstance(n.ctx, ast.Store):
            if isinstance(par, (ast.Assign, ast.AnnAssign)) and parents.get(id(par)) is tree:
                continue  # the definition itself
            escaped = True
            continue
        if isinstance(par, ast.Subscript) and par.value is n:
            if isinstance(par.ctx, (ast.Store, ast.Del)):
                keyed_write = True
            continue
        if isinstance(par, ast.Compare) and n in par.comparators and all(isinstance(o, (ast.In, ast.NotIn)) for o in par.ops):
            continue
        if isinstance(par, ast.Attribute) and par.value is n and isinstance(parents.get(id(par)), ast.Call):
            m = par.attr
            if m in ("get",):
                continue
            if m in ("setdefault", "pop", "clear", "__setitem__", "__delitem__"):
                keyed_write = True
                continue
            if m in ("append", "extend", "add", "update", "insert", "remove", "discard", "sort", "reverse", "popitem"):
                mutated = True
                continue
            if m in ("items", "values", "keys", "copy", "index", "count"):
                walked = True
                continue
        if isinstance(par, (ast.For, ast.comprehension)) and getattr(par, "iter", None) is n:
            walked = True
            continue
        if isinstance(par, ast.Call) and isinstance(par.func, ast.Name) and par.func.id in ("len", "sorted", "list", "tuple", "set", "sum", "min", "max", "any", "all") and n in par.args:
            walked = True
            continue
        escaped = True
    if fills and not mutated and not keyed_write:
        return "lazy"
    if mutated or (keyed_write and (walked or escaped)):
        return "other"
    if keyed_write:
        return "memo"
    if escaped:
        return "other"
    return "constant"


def _mutable_literal(v: ast.AST) -> bool:
    if isinstance(v, (ast.List, ast.Dict, ast.Set, ast.ListComp, ast.DictComp, ast.SetComp)):
        return True
    if isinstance(v, ast.Call) and isinstance(v.func, ast.Name) and v.func.id in ("list", "dict", "set", "defaultdict", "OrderedDict", "deque", "Counter"):
        return True
    return False


# ----------------------------------------------------------------------------- settings taint
def _root(t: Term) -> Term:
    t = strip_ver(t)
    while t[0] in ("sub", "attr"):
        t = t[1]
    return t


class _Taint:
    """Is a term (possibly) an object reachable from the caller's settings?"""

    def __init__(self, ctx: Ctx, f: FuncInfo, path: Path, sources: Set[str]):
        self.ctx = ctx
        self.sources = sources  # stripped keys of source terms
        self.loop_iter: Dict[str, Term] = {}
        for e in path.walk_events(True):
            if e.kind == "loop" and e.iter is not None:
                for n in e.target:
                    self.loop_iter[f"{n}∈{e.loopid}"] = e.iter

    def tainted(self, t: Term, depth: int = 0) -> bool:
        t = strip_ver(t)
        if depth > 8:
            return False
        if key(t) in self.sources:
            return True
        if t[0] in ("sub", "attr"):
            # an element / field of a tainted object is an object of the caller too
            return self.tainted(t[1], depth + 1)
        if t[0] == "sym" and t[1] in self.loop_iter:
            return self.tainted(self.loop_iter[t[1]], depth + 1)
        if t[0] == "call":
            fn = key(t[1])
            # views and identity-returning helpers keep the taint of their receiver / argument
            if t[1][0] == "attr" and t[1][2] in ("values", "items", "keys", "get", "setdefault", "pop"):
                return self.tainted(t[1][1], depth + 1)
            if fn in ("iter", "reversed", "enumerate", "zip", "filter", "map", "next") and t[2]:
                return any(self.tainted(a, depth + 1) for a in t[2])
            return False  # any other call result (copy(), dict(), list(), json_extends(...)) is a fresh object
        if t[0] == "ifexp":
            return self.tainted(t[2], depth + 1) or self.tainted(t[3], depth + 1)
        return False


def _mutated_params(ctx: Ctx, f: FuncInfo, seen: Optional[Set[str]] = None) -> Dict[str, str]:
    """Parameters of f whose referent (or something reachable from it) may be mutated."""
    cache = getattr(ctx, "_mutparams", None)
    if cache is None:
        cache = {}
        ctx._mutparams = cache  # type: ignore[attr-defined]
    if f.qualname in cache:
        return cache[f.qualname]
    seen = set(seen or ())
    if f.qualname in seen:
        return {}
    seen.add(f.qualname)
    res: Dict[str, str] = {}
    params = [p for p in f.params if p not in ("self", "cls")]
    try:
        paths = ctx.paths(f.qualname)
    except Exception:
        cache[f.qualname] = {}
        return {}
    for path in paths:
        for pname in params:
            if pname in res:
                continue
            tt = _Taint(ctx, f, path, {pname})
            for why in _taint_mutations(ctx, f, path, tt, seen):
                res[pname] = why
                break
    cache[f.qualname] = res
    return res


def _taint_mutations(ctx: Ctx, f: FuncInfo, path: Path, tt: _Taint, seen: Set[str]) -> Iterable[str]:
    for e in path.walk_events(True):
        if e.kind in ("store", "del") and tt.tainted(e.base):
            yield f"{'del' if e.kind == 'del' else 'store'} {short(e.target)} in {e.func.qualname}"
        elif e.kind == "call":
            mb = e.data.get("mutates")
            if mb is not None and tt.tainted(mb):
                yield f"{short(mb)}.{e.name}() in {e.func.qualname}"
            # hand-over to a callee that mutates the corresponding parameter
            targets = list(e.site.targets) if e.site.how != "byname" else []
            argmap: List[Tuple[Optional[int], Optional[str], Term]] = [(i, None, a) for i, a in enumerate(e.args)] + [(None, k, v) for k, v in e.kwargs]
            # deferred-call idiom: X.append((obj.method, {kw: value}))
            if e.name == "append" and e.args and e.args[0][0] == "tuple" and len(e.args[0][1]) == 2:
                fn_t, kwd = e.args[0][1]
                lit = None
                for n in path.walk_events(True):
                    if n.kind == "note" and n.data.get("what") == "alloc" and n.data.get("sym") == kwd:
                        lit = n.data["literal"]
                if lit is not None and lit[0] == "dict":
                    dsites = [s for s in ctx.cg.sites if s.node is e.node and s.how == "deferred"]
                    targets = [t for s in dsites for t in s.targets]
                    argmap = [(None, k[1], v) for k, v in lit[1] if k is not None and k[0] == "const"]
            for t in targets:
                if t.name == "__init__" and e.site.how == "ctor":
                    pass
                mp = _mutated_params(ctx, t, seen)
                if not mp:
                    continue
                pnames = [x for x in t.params]
                if t.cls is not None and not t.is_static and pnames and pnames[0] in ("self", "cls"):
                    pnames = pnames[1:]
                for i, k, a in argmap:
                    pn = k if k is not None else (pnames[i] if i is not None and i < len(pnames) else None)
                    if pn in mp and tt.tainted(a):
                        yield f"passed as `{pn}` to {t.qualname}, which mutates it ({mp[pn]})"


def _kept_settings_parts(ctx: Ctx, g0: FuncInfo) -> None:
    """setup() may keep a reference to a part of its settings (self.x = settings[k]): the object is
    still the caller's, so no method of the class may change it in place later on."""
    assert g0.cls is not None
    kept: Dict[str, str] = {}
    for path in ctx.paths(g0.qualname):
        if path.exit[0] == "raise":
            continue
        tt = _Taint(ctx, g0, path, {"settings"})
        for e in path.walk_events():
            if e.kind == "store" and e.attr is not None and e.base is not None and key(strip_ver(e.base)) == "self" and tt.tainted(e.value):
                kept.setdefault(e.attr, short(e.value))
    if not kept:
        return
    p = ctx.program
    classes = [c for c in p.classes if p.is_subclass(c, g0.cls.name)]
    for attr, src in sorted(kept.items()):
        probs: List[str] = []
        rebinds: List[str] = []
        for c in classes:
            for m in p.classes[c].methods.values():
                for fn in [m] + list(m.nested.values()):
                    try:
                        paths = ctx.paths(fn.qualname)
                    except Exception:
                        continue
                    for path in paths:
                        if fn.qualname not in (g0.qualname, f"{c}.__init__"):
                            for e in path.walk_events():
                                if e.kind == "store" and e.attr == attr and e.base is not None and key(strip_ver(e.base)) == "self" and fn.qualname not in rebinds:
                                    rebinds.append(fn.qualname)
                        tt = _Taint(ctx, fn, path, {f"self.{attr}"})
                        for why in _taint_mutations(ctx, fn, path, tt, set()):
                            if why not in probs:
                                probs.append(why)
        construct = f"{g0.qualname} keeps a part of its settings in self.{attr}"
        if probs and rebinds:
            ctx.unrec(g0, g0.node, construct, f"self.{attr} ({src}) is changed in place ({probs[0]}) but is also rebound in {', '.join(rebinds[:3])}: whether the object changed is still the caller's is not decided")
        elif probs:
            ctx.violated(g0, g0.node, construct, "the object is the caller's: read only, or copied before it is changed", f"self.{attr} = {src}; then {'; '.join(probs[:3])}")
        else:
            ctx.holds(g0, g0.node, construct, expected="never changed in place", found=f"self.{attr} = {src}: no store/del/mutator on it in {len(classes)} class(es)")


def check_setups_pure(ctx: Ctx, base: Optional[str]) -> None:
    """the group settings handed to setup() are shared (one dict for all members of a group, and
    shallow copies of the caller's configuration): no setup implementation may change what its
    settings reach.  base: restrict to subclasses of that class (None = all)"""
    ns = 0
    for g0 in ctx.program.all_functions():
        if g0.name != "setup" or g0.cls is None or "settings" not in g0.params:
            continue
        if base is not None and not ctx.program.is_subclass(g0.cls.name, base):
            continue
        ns += 1
        mp0 = _mutated_params(ctx, g0)
        ctx.check("settings" not in mp0, g0, g0.node, f"{g0.qualname} leaves the settings it is given untouched", "no store/del/mutator on anything reachable from `settings`", mp0.get("settings", "no mutation"))
        _kept_settings_parts(ctx, g0)
    ctx.require(ns >= (8 if base is None else 3), "fewer setup(settings) implementations than confirmed by reading")


@rule("C07.R5", "running never modifies the caller's settings object: nothing reachable from it is mutated, directly or through a callee", "T14 taint (flow through aliases, loop elements and callee summaries)", floor=8)
def r5(ctx: Ctx) -> None:
    p = ctx.program
    sources = {"self.settings"}
    n = 0
    for cname in ("Runner", "SequentialRunner"):
        for m in p.cls(cname).methods.values():
            for nested in [m] + list(m.nested.values()):
                paths = ctx.paths(nested.qualname)
                probs: List[str] = []
                for path in paths:
                    tt = _Taint(ctx, nested, path, sources)
                    for why in _taint_mutations(ctx, nested, path, tt, set()):
                        if why not in probs:
                            probs.append(why)
                n += 1
                ctx.check(not probs, nested, nested.node, f"{nested.qualname} leaves the caller's settings untouched", "no store/del/mutator on, and no mutating callee for, anything reachable from self.settings",
                          "; ".join(probs[:3]) if probs else "no mutation of tainted objects")
    ctx.require(n >= 8, "fewer runner methods analysed than exist")
    check_setups_pure(ctx, None)
    # the constructor stores the caller's dict itself (so the above taint source is the right one)
    f = ctx.func("Runner.__init__")
    st = [e for pa in ctx.paths(f.qualname) for e in pa.walk_events() if e.kind == "store" and e.attr == "settings"]
    ctx.check(bool(st), f, f.node, "the runner keeps (a reference to) the caller's settings", "self.settings = settings | json.load(...)", f"{len(st)} store(s)")
    # json_extends hands back a fresh dict and does not touch its arguments
    g = ctx.func("pams.utils.json_extends:json_extends")
    mp = _mutated_params(ctx, g)
    mp = {k: v for k, v in mp.items() if k in ("whole_json", "target_json", "excludes_fields", "parent_name")}  # private accumulators are its own business
    ctx.check(not mp, g, g.node, "json_extends does not modify the configuration it is given", "no configuration-carrying parameter mutated", str(mp) if mp else "none")
    for pa in normal_paths(ctx.paths(g.qualname)):
        r = pa.exit[1] if pa.exit[0] == "return" else None
        tt = _Taint(ctx, g, pa, {"whole_json", "target_json", "excludes_fields"})
        fresh = r is not None and not tt.tainted(r) and (r[0] == "call" or (r[0] == "sym" and (r[1].startswith("ψ") or r[1].startswith("new"))))
        if fresh and r[0] == "sym" and r[1].startswith("ψ"):
            # loop-carried result: every value it can take must be fresh (initial copy, rebuilt dict)
            lp = [l for l in loops(pa) if r in l.out.values()]
            name = [k for l in lp for k, v in l.out.items() if v == r]
            vals = [lp[0].init.get(name[0])] + [bp.env.get(name[0]) for bp in lp[0].paths if bp.exit[0] != "raise"] if lp else []
            fresh = bool(vals) and all(v is not None and (v == lp[0].phi[name[0]] or (v[0] == "call" and not tt.tainted(v))) for v in vals)
            detail = ", ".join(short(v) for v in vals)
        else:
            detail = short(r)
        ctx.check(fresh, g, g.node, "json_extends returns a new dict (copy of the entry, merged into new dicts)", "result of .copy() / dict(...)", detail)
