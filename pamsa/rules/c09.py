"""C09 -- session rules: placement/execution switches, order caps, HFT interleaving."""
from __future__ import annotations

from typing import Any, Dict, List, Optional, Set, Tuple

from ..kit import path_text, alloc_literal, caller_ok, nonempty_decision, Ctx, calls, calls_target, kw, loops, nf_cmp, normal_paths, poly_of, rule, short, stores
from ..paths import Event, Path
from ..terms import NONE, Term, Unrecognised, cmp_nf, key, strip_ver, subterms
from .c04 import writer_allowlist
from .runner import ADD, CANCEL, COL, EXEC, HO, IT, RUN, UM, Block, handling_blocks, market_of, switch_cond


@rule("C09.R1", "orders are requested and accepted only inside the placement-gated order phase", "T3 guard + T2 who-may-call", floor=6)
def r1(ctx: Ctx) -> None:
    f = ctx.func(IT)
    n = 0
    for p in ctx.paths(IT):
        for l in loops(p):
            for bp in l.paths:
                for e in calls(bp, into_loops=False):
                    if calls_target(e, UM):
                        n += 1
                        g = switch_cond(bp, "with_order_placement")
                        ok = g is True and key(kw(e, "session", 0) or NONE) == "session"
                        ctx.check(ok, f, e.node, "the order phase runs only when the session allows order placement", "if session.with_order_placement: _update_markets(session)", f"placement decision on the path: {g}")
    ctx.require(n >= 1, f"{IT}: call of _update_markets not found inside the step loop")
    for callee, allowed in ((UM, {IT}), (HO, {UM}), (COL, {UM})):
        for s in ctx.cg.sites_calling(callee):
            ctx.check(caller_ok(ctx, s.caller, lambda g, allowed=allowed: g.qualname in allowed), s.caller, s.node, f"caller of {callee}", ", ".join(sorted(allowed)), s.caller.qualname)
    # who asks agents for orders
    p = ctx.program
    nsub = 0
    for s in ctx.cg.sites_by_name("submit_orders"):
        q = s.caller.qualname
        nsub += 1
        ok = caller_ok(ctx, s.caller, lambda g: g.qualname in (COL, HO) or (g.cls is not None and p.is_subclass(g.cls.name, "Agent") and g.name.startswith("submit_orders")))
        ctx.check(ok, s.caller, s.node, "submit_orders is invoked by the run loop (or by an agent delegating to its base class)", f"{COL} | {HO} | Agent.submit_orders*", q)
    ctx.require(nsub >= 2, "fewer submit_orders call sites than confirmed")
    # belt and braces inside the handlers: acceptance happens only on paths where placement was seen true
    for b in handling_blocks(ctx):
        if b.phase == "normal":
            g = switch_cond(b.path, "with_order_placement")
            ctx.check(g is True, ctx.func(HO), b.accept.node, "normal-batch acceptance re-checks the placement switch", "with_order_placement decided true before _add_order/_cancel_order", str(g))


@rule("C09.R2", "a matching round follows every accepted order or cancel on that order's market exactly when the session's execution switch is on; markets copy the switch at session start", "T3 + T4", floor=6)
def r2(ctx: Ctx) -> None:
    f = ctx.func(HO)
    blocks = handling_blocks(ctx)
    ctx.require(len(blocks) >= 8, f"{HO}: expected order and cancel handling in both phases with both switch values")
    kinds = set()
    for b in blocks:
        kinds.add((b.kind, b.phase))
        evs = b.path.events
        i = evs.index(b.accept)
        ex = [e for e in evs[i + 1:] if e.kind == "call" and calls_target(e, EXEC)]
        before = [e for e in evs[:i] if e.kind == "call" and calls_target(e, EXEC)]
        g = switch_cond(b.path, "with_order_execution")
        gate_term = [strip_ver(c) for c, pol, _ in b.path.conds if strip_ver(c)[0] == "attr" and strip_ver(c)[2] == "with_order_execution"]
        ok_gate = bool(gate_term) and key(gate_term[-1]) == "session.with_order_execution"
        if g is True:
            ok = len(ex) == 1 and not before and market_of(ex[0]) == market_of(b.accept) and ok_gate
            found = f"{len(ex)} round(s) after acceptance on {', '.join(market_of(e) for e in ex) or '-'}"
        elif g is False:
            ok = not ex and not before and ok_gate
            found = f"{len(ex) + len(before)} round(s) although the switch is off"
        else:
            ok = False
            found = "matching is not conditioned on session.with_order_execution"
        ctx.check(ok, f, b.accept.node, f"{b.phase} {b.kind}: matching round iff execution switch, on the order's own market", f"if session.with_order_execution: {market_of(b.accept)}._execution()", found, **({"guard": "text", "guard_text": path_text(b.path)} if g is None else {}))
        # the switch is read when the decision is taken: a hook run for an earlier order of the same
        # submission (trading halt) may have cleared it since
        import ast as _ast

        gnodes = [nd for c, pol, nd in b.path.conds if strip_ver(c)[0] == "attr" and strip_ver(c)[2] == "with_order_execution"]
        if gnodes:
            nd = gnodes[-1]
            fresh = nd is not None and (any(isinstance(x, _ast.Attribute) and x.attr == "with_order_execution" for x in _ast.walk(nd))
                                        or any(isinstance(x, _ast.Call) and isinstance(x.func, _ast.Attribute) and isinstance(x.func.value, _ast.Name) and x.func.value.id == "session" for x in _ast.walk(nd)))  # a method of the session asked now reads the switch now
            ctx.check(fresh, f, nd if nd is not None else b.accept.node, f"{b.phase} {b.kind}: the execution switch is read at the moment of the decision", "`if session.with_order_execution:` evaluated per order",
                      "read per order" if fresh else f"the decision tests `{_ast.unparse(nd) if nd is not None else '?'}`, a copy taken before the orders of the submission were processed")
    ctx.check(kinds == {("order", "normal"), ("cancel", "normal"), ("order", "hft"), ("cancel", "hft")}, f, f.node, "orders and cancels are handled in the normal and the high-frequency phase", "4 kinds", str(sorted(kinds)))
    for s in ctx.cg.sites_calling(EXEC):
        ctx.check(caller_ok(ctx, s.caller, lambda g: g.qualname == HO), s.caller, s.node, f"caller of {EXEC}", HO, s.caller.qualname)
    # markets take over the session's switch before the first step
    g = ctx.func(IT)
    for p in normal_paths(ctx.paths(IT)):
        lps = loops(p)
        step = [l for l in lps if l.iter is not None and l.iter[0] == "call" and key(l.iter[1]) == "range"]
        copy = []
        for l in lps:
            if l in step:
                continue
            el = ("sym", f"{l.target[0]}∈{l.loopid}")
            for bp in l.paths:
                for e in bp.events:
                    if e.kind == "store" and e.attr == "_is_running" and e.base == el and key(strip_ver(e.value)) == "session.with_order_execution" and not bp.conds:
                        copy.append(l)
        ok = len(copy) == 1 and len(step) == 1 and p.events.index(copy[0]) < p.events.index(step[0]) and key(strip_ver(copy[0].iter)) in ("self.simulator.markets", "markets")
        # every market gets *a* value before the steps, unconditionally, but not literally the session's switch (a method of the session decides, per market): another statement of the same rule
        other_value = [l for l in lps if l not in step and l.paths and all(any(e.kind == "store" and e.attr == "_is_running" for e in bp.events) for bp in l.paths if bp.exit[0] != "raise")]
        ctx.check(ok, g, g.node, "every market's running flag is set from the session before the steps", "for market in markets: market._is_running = session.with_order_execution", f"{len(copy)} copy loop(s)",
                  **({"guard": "text", "guard_text": __import__("ast").unparse(g.node)} if other_value and not copy else {}))


def _self_attr_of(t: Term) -> Optional[str]:
    """name M if the term is rooted at self.M (self.M, self.M[k], self.M.pop(k), ...)"""
    t = strip_ver(t)
    while True:
        if t[0] == "attr" and t[1] == ("sym", "self"):
            return t[2]
        if t[0] in ("attr", "sub"):
            t = t[1]
        elif t[0] == "call" and t[1][0] == "attr":
            t = t[1][1]
        else:
            return None


@rule("C09.R3", "only the session itself, the run loop and the halt rule write the execution switches, and the halt rule turns on only what it turned off itself", "T1 who-may-write + typestate (suspension marker)", floor=8)
def r3(ctx: Ctx) -> None:
    p = ctx.program
    handlers = tuple(n for n in p.cls("EventABC").methods if n.startswith("hooked_"))
    writer_allowlist(ctx, "Session", "with_order_execution", {"Session.__init__": "constructor", "Session.setup": "configuration"}, handlers)
    writer_allowlist(ctx, "Market", "_is_running", {"Market.__init__": "constructor", IT: "session start"}, handlers)
    # typestate for every event class that writes a switch
    classes = set()
    for attr, cls in (("with_order_execution", "Session"), ("_is_running", "Market")):
        for w in ctx.cg.writers_of(cls, attr):
            if w.func.cls is not None and p.is_subclass(w.func.cls.name, "EventABC"):
                classes.add(w.func.cls.name)
    for cname in sorted(classes):
        ci = p.cls(cname)
        off_paths: List[Tuple[Any, Path, Event]] = []
        on_paths: List[Tuple[Any, Path, List[Event]]] = []
        for m in ci.methods.values():
            if not m.name.startswith("hooked_"):
                continue
            for top in ctx.paths(m.qualname):
                for path, chain in _all(top):
                    sw = [e for e in path.events if e.kind == "store" and e.attr in ("with_order_execution", "_is_running")]
                    if not sw or path.exit[0] == "raise":
                        continue
                    offs = [e for e in sw if e.value == ("const", False)]
                    ons = [e for e in sw if e.value != ("const", False)]
                    if offs:
                        off_paths.append((m, path, offs))  # type: ignore[arg-type]
                    if ons:
                        on_paths.append((m, _with_outer(path, chain), ons))
        # (a) suspension is recorded: the path that switches a session off stores that session in a marker field
        markers: Set[str] = set()
        for m, path, offs in off_paths:  # type: ignore[misc]
            sess = [e for e in offs if e.attr == "with_order_execution"]
            if not sess:
                continue
            rec = [e for e in path.events if e.kind == "store" and e is not sess[0] and _self_attr_of(e.target) is not None and strip_ver(e.value) == strip_ver(sess[0].base)]
            ms = {_self_attr_of(e.target) for e in rec}
            markers |= {x for x in ms if x}
            ctx.check(bool(rec), m, sess[0].node, f"{cname}: switching execution off records which session was suspended", "self.<marker>[...] = <the session switched off>",
                      "recorded in " + ", ".join(sorted(x for x in ms if x)) if rec else "no record of the suspended session")
        # (b) resumption only of a recorded suspension, and only of that session
        for m, path, ons in on_paths:
            tested = {a for c, pol, _ in path.conds for a in [_marker_test(c, pol, markers)] if a}
            for e in ons:
                base_marker = _self_attr_of(e.base) if e.attr == "with_order_execution" else None
                same = any(pol and strip_ver(c)[0] == "cmp" and strip_ver(c)[1] in ("is", "==") and
                           ({_self_attr_of(strip_ver(c)[2]), _self_attr_of(strip_ver(c)[3])} & markers) and
                           any(key(x) == "simulator.current_session" for x in (strip_ver(c)[2], strip_ver(c)[3])) for c, pol, _ in path.conds)
                if e.attr == "with_order_execution":
                    ok = bool(tested) and (base_marker in markers) and same
                    ctx.check(ok, m, e.node, f"{cname}: execution is switched on only for the session this rule suspended, while it is still current",
                              "marker tested; session taken from the marker; `is simulator.current_session` decided true",
                              f"marker tested: {sorted(tested) or 'no'}; session written: {short(e.base)}; identity with current session: {'yes' if same else 'no'}")
                else:
                    ok = bool(tested) and same
                    ctx.check(ok, m, e.node, f"{cname}: a market is set running only when this rule suspended it in the current session",
                              "marker tested and suspended session is the current one", f"marker tested: {sorted(tested) or 'no'}; identity with current session: {'yes' if same else 'no'}")
        # (c) marker starts empty
        init = ci.methods.get("__init__")
        for mk in sorted(markers):
            ok = False
            if init is not None:
                for ip in ctx.paths(init.qualname):
                    for e in ip.events:
                        if e.kind == "store" and e.attr == mk:
                            lit = None
                            for n in ip.events:
                                if n.kind == "note" and n.data.get("what") == "alloc" and n.data.get("sym") == e.value:
                                    lit = n.data["literal"]
                            ok = (lit is not None and len(lit[1]) == 0) or e.value in (NONE, ("const", False))
            ctx.check(ok, init, init.node if init else None, f"{cname}: suspension marker {mk} starts empty", "{} / None / False in __init__", "empty" if ok else "not initialised empty")
        if off_paths and not markers:
            ctx.violated(ci.methods.get("hooked_after_execution") or next(iter(ci.methods.values())), ci.node, f"{cname}: no suspension marker", "a field recording the suspended session", "none")


def _all(top: Path, chain: Tuple = ()) -> List[Tuple[Path, Tuple]]:
    out = [(top, chain)]
    for e in top.events:
        if e.kind == "loop":
            for bp in e.paths:
                out.extend(_all(bp, chain + (top,)))
    return out


def _with_outer(path: Path, chain: Tuple) -> Path:
    conds = []
    for c in chain:
        conds.extend(c.conds)
    return Path(conds + list(path.conds), path.events, path.exit, path.env)


def _marker_test(c: Term, pol: bool, markers: Set[str]) -> Optional[str]:
    """marker name if (c, pol) establishes that the marker holds an entry"""
    c = strip_ver(c)
    if c[0] == "cmp" and c[1] == "in" and pol:
        m = _self_attr_of(c[3])
        return m if m in markers else None
    if c[0] == "cmp" and c[1] == "is" and c[3] == NONE and not pol:
        m = _self_attr_of(c[2])
        return m if m in markers else None
    if c[0] in ("attr", "sub", "call") and pol:
        m = _self_attr_of(c)
        return m if m in markers else None
    # the sentinel form: x = marker.pop(k, S) / marker.get(k, S); `x is S` decided false means there was an entry
    if c[0] == "cmp" and c[1] in ("is", "is not", "==", "!="):
        absent_if = pol if c[1] in ("is", "==") else not pol
        for a, b in ((strip_ver(c[2]), strip_ver(c[3])), (strip_ver(c[3]), strip_ver(c[2]))):
            if a[0] == "call" and a[1][0] == "attr" and a[1][2] in ("pop", "get") and len(a[2]) == 2 and strip_ver(a[2][1]) == b and not absent_if:
                m = _self_attr_of(a[1][1])
                return m if m in markers else None
    return None


def _rand_call(t: Term, name: str) -> bool:
    """a call of <something>.<name> / random.<name>: a draw from a random generator, whichever it is"""
    if t[0] != "call":
        return False
    k = key(t[1])
    return k == name or k.endswith("." + name)


def _cap_loop(ctx: Ctx, f, l: Event, cap_attr: str, label: str, outer: Optional[Path] = None) -> None:
    """T7/T5 for one consultation loop: permutation source, cap guard before the call, counter."""
    el = ("sym", f"{l.target[0]}∈{l.loopid}") if l.target else None
    # counter: the loop-carried int whose update is +1, or the length of a list that starts
    # empty and only ever grows by one append per iteration
    counter = None
    for n, ph in l.phi.items():
        for bp in l.paths:
            v = bp.env.get(n)
            if v is not None and v == ("bin", "+", ph, ("const", 1)):
                counter = n
    cap = ("attr", ("sym", "session"), cap_attr)
    lenlist = None
    if counter is None:
        for bp in l.paths:
            for c, pol, _ in bp.conds:
                for t in subterms(strip_ver(c)):
                    if t[0] == "call" and key(t[1]) == "len" and len(t[2]) == 1 and t[2][0][0] == "sym" and t[2][0][1].startswith("new") and cap in list(subterms(strip_ver(c))):
                        lenlist = (t[2][0], t)
    ctx.check(counter is not None or lenlist is not None, f, l.node, f"{label}: a counter grows by one", "n += 1", "no loop-carried counter with +1 update")
    if counter is None and lenlist is None:
        return
    if counter is not None:
        ph = l.phi[counter]
        ctx.check(l.init.get(counter) == ("const", 0), f, l.node, f"{label}: counter starts at 0", "0", short(l.init.get(counter)))

        def grew(bp: Path) -> Optional[bool]:
            v = bp.env.get(counter)
            return True if v == ("bin", "+", ph, ("const", 1)) else (False if v == ph else None)

        def shown(bp: Path) -> str:
            return f"{counter} = {short(bp.env.get(counter))}"
    else:
        L, ph = lenlist
        counter = short(ph)
        lit = alloc_literal(outer, L) if outer is not None else None
        ctx.check(lit is not None and lit[0] == "list" and len(lit[1]) == 0, f, l.node, f"{label}: counter starts at 0", "the counted list starts empty", short(lit))
        before = True
        if outer is not None:
            for e in outer.events:
                if e is l:
                    break
                if e.kind == "call" and (e.recv == L or e.data.get("mutates") == L):
                    before = False
        ctx.check(before, f, l.node, f"{label}: nothing is put in the counted list before the loop", "no mutation before the loop", "list touched before the loop")

        def grew(bp: Path) -> Optional[bool]:
            mut = [e for e in bp.walk_events(True) if e.kind == "call" and (e.recv == L or e.data.get("mutates") == L)]
            top = [e for e in calls(bp, into_loops=False) if e.recv == L]
            if not mut:
                return False
            if len(mut) == 1 and len(top) == 1 and top[0].name == "append" and len(top[0].args) == 1:
                return True
            return None

        def shown(bp: Path) -> str:
            return f"{counter}: " + (", ".join(e.name for e in bp.walk_events(True) if e.kind == "call" and e.recv == L) or "unchanged")
    want = ("<=0", None)
    for bp in l.paths:
        subm = [e for e in calls(bp, into_loops=False) if e.name == "submit_orders"]
        if bp.exit[0] == "raise":
            continue
        if subm:
            ok1 = len(subm) == 1 and subm[0].recv == el
            ctx.check(ok1, f, subm[0].node, f"{label}: each consulted agent is asked once", "one submit_orders on the loop's agent", f"{len(subm)} call(s) on {short(subm[0].recv)}")
            guard = False
            for c, pol, _ in bp.conds:
                try:
                    nf = nf_cmp(strip_ver(c) if pol else ("not", strip_ver(c)), integer=True)
                except Unrecognised:
                    continue
                # continue consulting  <=>  count - cap + 1 <= 0   (count < cap)
                if nf == cmp_nf("<", ph, cap, integer=True):
                    guard = True
            ctx.check(guard, f, subm[0].node, f"{label}: the cap is tested before the agent is consulted", f"`{counter} >= session.{cap_attr}` decided false on the path to submit_orders", "guard present" if guard else "agent consulted without a preceding cap test")
            ne = nonempty_decision(bp, subm[0].term)
            g = grew(bp)
            ok3 = ne is not None and g is not None and ne == g
            ctx.check(ok3, f, subm[0].node, f"{label}: the counter counts agents that produced orders", "count + 1 iff the batch is non-empty", f"non-empty={ne} -> {shown(bp)}")
        elif bp.exit[0] == "break":
            stop = False
            for c, pol, _ in bp.conds:
                try:
                    nf = nf_cmp(strip_ver(c) if pol else ("not", strip_ver(c)), integer=True)
                except Unrecognised:
                    continue
                if nf == cmp_nf("<=", cap, ph, integer=True):
                    stop = True
            ctx.check(stop, f, l.node, f"{label}: consultation stops when the cap is reached", f"break iff {counter} >= session.{cap_attr}", bp.describe()[:120])
    # source: a uniformly random permutation of the population
    it = strip_ver(l.iter) if l.iter is not None else NONE
    while it[0] == "call" and it[1][0] == "name" and it[1][1] in ("iter", "list", "tuple") and len(it[2]) == 1 and not it[3]:
        it = strip_ver(it[2][0])  # iter(x) / list(x) walked once by the loop is x
    # (which generator provides the permutation is C07's concern, not this property's)
    ok = _rand_call(it, "sample") and len(it[2]) == 2 and it[2][1] == ("call", ("name", "len"), (it[2][0],), (), None)
    pop = key(it[2][0]) if ok else "?"
    if not ok and it[0] not in ("attr", "sym", "name"):
        ctx.unrec(f, l.node, f"{label}: agents are visited in a uniformly random permutation of the whole population", "the order of consultation is produced in a form that is not modelled", short(it))
        return
    ctx.check(ok, f, l.node, f"{label}: agents are visited in a uniformly random permutation of the whole population", "<generator>.sample(agents, len(agents))", short(it))
    want_pop = "self.simulator.normal_frequency_agents" if cap_attr == "max_normal_orders" else "self.simulator.high_frequency_agents"
    ctx.check(pop == want_pop, f, l.node, f"{label}: population", want_pop, pop)


def _zip_overdraw(ctx: Ctx, f: Any, cap: str) -> bool:
    """`zip(<lazy consultation>, range(cap))`: zip advances its arguments from the left and notices
    the exhausted range only after it has advanced the consultation once more, so one agent beyond
    the cap is asked (and its orders dropped).  Reported where the lazy argument asks agents."""
    import ast as _ast

    gens = {name: g for name, g in f.nested.items() if any(isinstance(x, (_ast.Yield, _ast.YieldFrom)) for x in _ast.walk(g.node))}
    hit = False
    for node in _ast.walk(f.node):
        if not (isinstance(node, _ast.Call) and isinstance(node.func, _ast.Name) and node.func.id == "zip" and len(node.args) >= 2):
            continue
        for i, a in enumerate(node.args[:-1]):
            lazy = None
            if isinstance(a, _ast.Call) and isinstance(a.func, _ast.Name) and a.func.id in gens:
                lazy = gens[a.func.id].node
            elif isinstance(a, _ast.GeneratorExp):
                lazy = a
            if lazy is None or not any(isinstance(x, _ast.Attribute) and x.attr == "submit_orders" for x in _ast.walk(lazy)):
                continue
            later = node.args[i + 1:]
            bounded = [b for b in later if isinstance(b, _ast.Call) and isinstance(b.func, _ast.Name) and b.func.id == "range" and any(isinstance(x, _ast.Attribute) and x.attr == cap for x in _ast.walk(b))]
            if bounded:
                hit = True
                ctx.violated(f, node, "no agent is consulted once the cap is reached", f"the bound {cap} is tested before the next agent is asked", "zip(<lazy consultation>, range(cap)): zip advances the consultation before it finds the range exhausted, so one more agent is asked and its orders are dropped")
    return hit


@rule("C09.R4", "normal agents: random permutation, each asked at most once, until maxNormalOrders of them produced orders", "T7 comparator normal form + T5", floor=6)
def r4(ctx: Ctx) -> None:
    f = ctx.func(COL)
    n = 0
    for p in normal_paths(ctx.paths(COL)):
        for l in loops(p):
            if any(e.name == "submit_orders" for bp in l.paths for e in calls(bp, into_loops=False)):
                n += 1
                _cap_loop(ctx, f, l, "max_normal_orders", "normal phase", p)
    if n != 1 and _zip_overdraw(ctx, f, "max_normal_orders"):
        return
    ctx.require(n == 1, f"{COL}: expected exactly one consultation loop")


@rule("C09.R5", "after each normal batch high-frequency agents are consulted with the configured probability, in random order, until maxHighFrequencyOrders produced orders", "T7 + T5", floor=7)
def r5(ctx: Ctx) -> None:
    f = ctx.func(HO)
    n = 0
    for p in normal_paths(ctx.paths(HO)):
        outer = [l for l in loops(p) if l.iter is not None and _rand_call(strip_ver(l.iter), "sample")]
        ctx.check(len(outer) == 1 and key(strip_ver(outer[0].iter)[2][0]) == "local_orders", f, f.node, "normal batches are processed in a random order", "<generator>.sample(local_orders, len(local_orders))", ", ".join(short(l.iter) for l in outer))
        for ol in outer:
            for bp in ol.paths:
                if bp.exit[0] == "raise":
                    continue
                inner = [l for l in loops(bp) if any(e.name == "submit_orders" for ip in l.paths for e in calls(ip, into_loops=False))]
                batch = [l for l in loops(bp) if l not in inner]
                gate = None
                for c, pol, _ in bp.conds:
                    c = strip_ver(c)
                    if c[0] == "cmp" and c[1] in ("<", "<=") and any(_rand_call(s, "random") for s in (c[2], c[3])):
                        gate = (c, pol)
                if gate is None:
                    ctx.violated(f, ol.node, "high-frequency phase is gated by a draw against the submission rate", "rate < U -> skip", "no such decision on the path")
                    continue
                c, pol = gate
                u = c[3] if c[3][0] == "call" else c[2]
                # skip <=> rate < U  (strict);  consult <=> U <= rate
                skip_form = c[1] == "<" and key(c[2]) == "session.high_frequency_submission_rate" and c[3] is u
                cons_form = c[1] == "<=" and c[2] is u and key(c[3]) == "session.high_frequency_submission_rate"
                if skip_form:
                    consult = not pol
                elif cons_form:
                    consult = pol
                else:
                    ctx.violated(f, ol.node, "rate gate normal form", "skip <=> session.high_frequency_submission_rate < U", key(c))
                    continue
                n += 1
                ctx.check(not u[2] and not u[3], f, ol.node, "the rate draw is a uniform draw on [0, 1)", "<generator>.random()", short(u))
                ctx.check(bool(inner) == consult and (consult or bp.exit[0] in ("continue", "fall")), f, ol.node, "high-frequency agents are consulted exactly when U <= rate", "consult iff not (rate < U)", f"consult={consult} loops={len(inner)}")
                # the batch's own orders are handled before the high-frequency phase
                if inner and batch:
                    ctx.check(bp.events.index(batch[0]) < bp.events.index(inner[0]), f, ol.node, "a batch is handled before high-frequency agents react to it", "batch loop precedes the high-frequency loop", "order reversed")
                for l in inner:
                    _cap_loop(ctx, f, l, "max_high_frequency_orders", "high-frequency phase", bp)
    ctx.require(n >= 2, f"{HO}: rate gate paths not found")


@rule("C09.H1", "mechanism shared with C18: session switches, caps and the submission rate are read from their configuration keys (new and deprecated spellings alike)", "T8/T9 (same rule as C18.R5)", floor=2)
def h1(ctx: Ctx) -> None:
    from .c18 import r5 as session_keys_rule

    session_keys_rule(ctx)


@rule("C09.R6", "every agent is filed in exactly one of the two populations the phases draw from, and the high-frequency one holds exactly the instances of HighFrequencyAgent (subclasses at any depth included)", "T6 partition by one decision", floor=2)
def r6(ctx: Ctx) -> None:
    q = "Simulator._add_agent"
    f = ctx.func(q)
    HF, NF = "self.high_frequency_agents", "self.normal_frequency_agents"
    n = 0
    for p in normal_paths(ctx.paths(q)):
        app = [e for e in calls(p) if e.name == "append" and e.recv is not None and key(strip_ver(e.recv)) in (HF, NF) and e.args and key(e.args[0]) == "agent"]
        n += 1
        ctx.check(len(app) == 1, f, f.node, "a registered agent enters exactly one population", "one append to high_frequency_agents or normal_frequency_agents", f"{len(app)} append(s)")
        if len(app) != 1:
            continue
        to_hf = key(strip_ver(app[0].recv)) == HF
        dec = []
        for c, pol, node in p.conds:
            c = strip_ver(c)
            if "HighFrequencyAgent" in key(c):
                dec.append((c, pol))
        if len(dec) != 1:
            ctx.unrec(f, app[0].node, "the population is chosen by one test of the agent's class", "isinstance(agent, HighFrequencyAgent)", f"{len(dec)} decision(s) mention HighFrequencyAgent")
            continue
        c, pol = dec[0]
        k = key(c)
        exact = c[0] == "call" and key(c[1]) in ("isinstance",) and len(c[2]) == 2 and key(c[2][0]) == "agent" and key(c[2][1]).endswith("HighFrequencyAgent")
        exact = exact or (c[0] == "call" and key(c[1]) == "issubclass" and len(c[2]) == 2 and key(c[2][0]) in ("type(agent)", "agent.__class__") and key(c[2][1]).endswith("HighFrequencyAgent"))
        shallow = "__bases__" in k or (c[0] == "cmp" and c[1] in ("is", "==") and any(key(x) in ("type(agent)", "agent.__class__") for x in (c[2], c[3])))
        if exact:
            ctx.check(pol == to_hf, f, app[0].node, "instances of HighFrequencyAgent go to the high-frequency population, all others to the normal one", "isinstance -> high_frequency_agents; else normal_frequency_agents", f"isinstance={pol} -> {'high' if to_hf else 'normal'}")
        elif shallow:
            ctx.violated(f, app[0].node, "the class test covers subclasses at any depth", "isinstance(agent, HighFrequencyAgent)", f"{k}: an indirect subclass (e.g. a user class derived from ArbitrageAgent) is filed as a normal agent")
        else:
            ctx.unrec(f, app[0].node, "the population is chosen by an instance test", "isinstance(agent, HighFrequencyAgent)", k)
    ctx.require(n >= 2, f"{q}: registering paths not found")
    for attr in ("high_frequency_agents", "normal_frequency_agents"):
        for w in ctx.cg.writers_of("Simulator", attr):
            ctx.check(caller_ok(ctx, w.func, lambda g: g.qualname in ("Simulator.__init__", q)), w.func, w.node, f"writer of Simulator.{attr}", "Simulator.__init__ | Simulator._add_agent", w.func.qualname)


@rule("C09.H2", "mechanism shared with C03: a matching round that was started really matches: its only early return is `nothing executable`", "T3 guard on early returns (same rule as C03.R4)", floor=1)
def h2(ctx: Ctx) -> None:
    from .c03 import r4 as early_return_rule

    early_return_rule(ctx)


@rule("C09.H3", "mechanism shared with C18: each session is set up from its own entry of the configuration (caps, rate and switches of one session never reach the next)", "T12 loop-carried dataflow (same rule as C18.R8)", floor=3)
def h3(ctx: Ctx) -> None:
    from .c18 import check_no_carry_over

    n = check_no_carry_over(ctx)
    ctx.require(n >= 3, "expansion loops not found")


@rule("C09.H4", "mechanism shared with C13: the step hooks (through which a rule that suspended execution restores it) run at every step of every session, whatever the session prints", "T4 (the step part of C13.R3)", floor=1)
def h4(ctx: Ctx) -> None:
    from .c13 import check_call_sites

    check_call_sites(ctx, {"step"})


@rule("C09.H5", "mechanism shared with C13: every hook an event declares is entered in the table (a second hook of the same event for another market is not taken for a duplicate)", "T3 (same rule as C13.R4)", floor=3)
def h5(ctx: Ctx) -> None:
    from .c13 import r4 as registration_rule

    registration_rule(ctx)
