"""C03 -- a matching round clears every executable pair (necessary conditions only).

Decided here: the executability predicate is the exact complement of the walk's stop
predicate (on books whose best orders include a limit order), the walk can only be left
through exhaustion of a side, the non-crossing stop or a raise, the only early return
is "nothing executable", and popped orders are put back.  NOT decided: termination and
exception-freedom over all reachable books, and the both-sides-market-order arithmetic.
"""
from __future__ import annotations

from typing import Any, Dict, Iterable, List

from ..kit import Case, Ctx, calls, calls_target, loops, normal_paths, product_worlds, rule, short, stores, table_check_cases, weak_orders
from ..paths import Path
from ..terms import NONE, Term, key, strip_ver, substitute, subterms
from .c01 import _is_exhaustion, _pair_cases, _spec as _pair_spec, _worlds as _pair_worlds
from .matching import EXEC, analyse_walk, pop_side, queue_side

REM = "Market.remain_executable_orders"


def _best_term(p: Path, side: str) -> Term:
    for e in calls(p):
        if e.name == "get_best_order" and e.recv is not None and key(strip_ver(e.recv)).endswith(f"{side}_order_book"):
            return e.term
    return NONE


@rule("C03.R1", "executable <=> not (both best orders are limit orders and best bid < best ask), whenever at least one best order is a limit order", "T6 decision table / T8 complement of the walk's stop predicate", floor=1)
def r1(ctx: Ctx) -> None:
    f = ctx.func(REM)
    paths = ctx.paths(REM)
    cases: List[Case] = []
    for p in paths:
        sb, bb = _best_term(p, "sell"), _best_term(p, "buy")
        m = {strip_ver(sb): ("sym", "S"), strip_ver(bb): ("sym", "B")}
        # the length of a book is the length of its queue (OrderBook.__len__), however it is asked for
        for nm_ in ("sell_order_book", "buy_order_book"):
            bk = ("attr", ("sym", "self"), nm_)
            m[("call", ("name", "len"), (("attr", bk, "priority_queue"),), (), None)] = ("call", ("name", "len"), (bk,), (), None)
        conds = []
        for c, pol, _ in p.conds:
            c2 = substitute(strip_ver(c), m)
            conds.append((c2, pol))
        if p.exit[0] == "return":
            rt = substitute(strip_ver(p.exit[1]), m)
            cases.append(Case(conds, (lambda w, rt=rt: ("ret", bool(w.eval(rt)))), p.describe()))
        elif p.exit[0] == "raise":
            cases.append(Case(conds, (lambda w: ("raise",)), p.describe()))
    atoms = {"S.price", "B.price", "len(self.sell_order_book)", "len(self.buy_order_book)"}
    worlds: List[Dict[str, Any]] = []
    prices = [{"B.price": 10, "S.price": None}, {"B.price": None, "S.price": 10}, {"B.price": 0, "S.price": None}, {"B.price": None, "S.price": 0}]
    prices += [{"B.price": 10 + w["a"], "S.price": 10 + w["b"]} for w in weak_orders(["a", "b"])]
    prices += [{"B.price": w["a"], "S.price": w["b"]} for w in weak_orders(["a", "b"])]  # 0 is a legal limit price
    for pw in prices:
        d = dict(pw)
        d.update({"len(self.sell_order_book)": 1, "len(self.buy_order_book)": 1})
        worlds.append(d)
    for ls, lb in ((0, 1), (1, 0), (0, 0)):
        worlds.append({"B.price": 10, "S.price": 10, "len(self.sell_order_book)": ls, "len(self.buy_order_book)": lb})

    def spec(w: Dict[str, Any]) -> Any:
        if w["len(self.sell_order_book)"] == 0 or w["len(self.buy_order_book)"] == 0:
            return ("ret", False)
        stop = w["B.price"] is not None and w["S.price"] is not None and w["B.price"] < w["S.price"]
        return ("ret", not stop)

    table_check_cases(ctx, f, f.node, "executability predicate (some best order is a limit order)", cases, worlds,
                      lambda t: key(t) in atoms, spec)
    # the walk's own stop predicate is checked against the complementary table (C01.R2 spec)
    w = analyse_walk(ctx)
    g = ctx.func(EXEC)
    cases2 = _pair_cases(w)
    from .c01 import _ATOMS

    def spec2(wd: Dict[str, Any]) -> Any:
        s = _pair_spec(wd)
        return ("stop",) if s[0] == "stop" else ("go",)

    for c in cases2:
        orig = c.outcome
        c.outcome = (lambda wd, orig=orig: ("stop",) if orig(wd)[0] == "stop" else ("go",))
    table_check_cases(ctx, g, w.loop.node, "walk stops exactly on a non-crossing limit pair (complement of executability)", cases2,
                      list(_pair_worlds()), lambda t: key(t) in _ATOMS, spec2)


@rule("C03.R2", "the walk is left only when a side is exhausted, at a non-crossing limit pair, or by raising", "T4 exits", floor=3)
def r2(ctx: Ctx) -> None:
    w = analyse_walk(ctx)
    f = ctx.func(EXEC)
    kinds: Dict[str, int] = {}
    bad: List[str] = []
    for bp in w.body:
        ex = bp.exit
        if ex in ("fall", "continue", "raise"):
            kinds[ex] = kinds.get(ex, 0) + 1
            continue
        if ex == "break":
            if _is_exhaustion(bp):
                kinds["break-exhausted"] = kinds.get("break-exhausted", 0) + 1
                # exhaustion may only be tested for a side whose current order is fully allocated
                ok = False
                for side, tmpname in (("B", w.var["btmp"]), ("S", w.var["stmp"])):
                    tmp = w.loop.phi[tmpname]
                    for c, pol, _ in bp.path.conds:
                        if pol and c[0] == "cmp" and c[1] == "==" and ("const", 0) in (c[2], c[3]) and tmp in (c[2], c[3]):
                            ok = True
                if not ok:
                    bad.append("break on an empty queue without the current order being fully allocated")
            elif bp.appended is None:
                kinds["break-noncrossing"] = kinds.get("break-noncrossing", 0) + 1
            else:
                bad.append("break after allocating")
        else:
            bad.append(f"exit {ex} inside the walk")
    ctx.check(not bad, f, w.loop.node, "exit edges of the matching walk", "break(exhausted) | break(non-crossing) | raise",
              "; ".join(sorted(set(bad))) if bad else str(dict(sorted(kinds.items()))))
    ctx.check(kinds.get("break-exhausted", 0) >= 2, f, w.loop.node, "both sides have an exhaustion exit", ">= 2 exhaustion breaks", str(kinds.get("break-exhausted", 0)))
    ctx.check(kinds.get("break-noncrossing", 0) >= 1, f, w.loop.node, "the walk has a non-crossing exit", ">= 1", str(kinds.get("break-noncrossing", 0)))


@rule("C03.R3", "every popped order is put back: popped lists are prepended to the remaining queues after the walk", "T4 pairing", floor=4)
def r3(ctx: Ctx) -> None:
    w = analyse_walk(ctx)
    f = ctx.func(EXEC)
    lists: Dict[str, set] = {"B": set(), "S": set()}

    def check_path(p: Path, label: str) -> None:
        evs = [e for e in p.events if e.kind == "call"]
        for i, e in enumerate(evs):
            s = pop_side(e)
            if not s:
                continue
            saved = [x for x in evs[i + 1:] if x.name == "append" and x.args and x.args[0] == e.term and x.recv is not None]
            ok = len(saved) == 1
            if ok:
                lists[s].add(saved[0].recv)
            ctx.check(ok, f, e.node, f"order popped from the {'buy' if s == 'B' else 'sell'} book is remembered ({label})", "exactly one append of the popped order to the side's popped list", f"{len(saved)} appends")

    pre = Path([], [e for e in w.main.events if e is not w.loop and w.main.events.index(e) < w.main.events.index(w.loop)], ("fall",), {})
    check_path(pre, "before the walk")
    for bp in w.body:
        if bp.exit != "raise":
            check_path(bp.path, "inside the walk")
    for s in ("B", "S"):
        ctx.check(len(lists[s]) == 1, f, f.node, f"one popped list for side {s}", "1", str(len(lists[s])))
    # rebuilding after the walk
    after = w.main.events[w.main.events.index(w.loop) + 1:]
    for s, nm in (("B", "buy_order_book"), ("S", "sell_order_book")):
        sts = [e for e in after if e.kind == "store" and e.attr == "priority_queue" and key(strip_ver(e.target)).endswith(f"{nm}.priority_queue")]
        ok = False
        found = "no rebuild"
        if len(sts) == 1:
            lit = None
            for e in w.main.events:
                if e.kind == "note" and e.data.get("what") == "alloc" and e.data.get("sym") == sts[0].value:
                    lit = e.data["literal"]
            if lit is not None:
                items = [strip_ver(x) for x in lit[1]]
                found = "[" + ", ".join(key(x) for x in items) + "]"
                stars = [x[1] for x in items if x[0] == "star"]
                ok = len(items) == 2 and len(stars) == 2 and lists[s] and next(iter(lists[s])) in [x[1] for x in lit[1] if x[0] == "star"] and any(queue_side(x) == s for x in stars)
        if not sts:
            # the queue is restored in another way (slice assignment, insert, a helper): that it is restored at all is
            # visible from some write to the queue after the walk; how is not decided here
            other = [e for e in after if (e.kind in ("store", "del") and e.attr is None and e.base is not None and nm in key(strip_ver(e.base))) or (e.kind == "call" and e.data.get("mutates") is not None and nm in key(strip_ver(e.data["mutates"])) and e.name != "heapify")]
            if other:
                ctx.unrec(f, other[0].node, f"{nm} queue is rebuilt from popped + remaining orders before the fills", "the queue is restored in place, in a form that is not modelled", ", ".join(sorted({getattr(e, "name", None) or e.kind for e in other})))
                continue
        ctx.check(ok, f, sts[0].node if sts else f.node, f"{nm} queue is rebuilt from popped + remaining orders before the fills", "[*popped, *queue]", found)
    # a round that walked the books and returns without handing pairs over has popped orders too
    for ep in w.early_exits:
        wl = [l for l in loops(ep) if l.loopkind == "while"]
        aft = ep.events[ep.events.index(wl[0]) + 1:] if wl else []
        restored = {nm for nm in ("buy_order_book", "sell_order_book") for e in aft
                    if (e.kind == "store" and e.attr == "priority_queue" and key(strip_ver(e.target)).endswith(f"{nm}.priority_queue"))
                    or (e.kind in ("store", "del") and e.attr is None and e.base is not None and nm in key(strip_ver(e.base)))
                    or (e.kind == "call" and e.data.get("mutates") is not None and nm in key(strip_ver(e.data["mutates"])) and e.name != "heapify")}
        node = next((c_[2] for c_ in reversed(ep.conds)), None) or f.node
        ctx.check(restored == {"buy_order_book", "sell_order_book"}, f, node, "a round that returns after the walk without fills has put the popped orders back", "both queues rebuilt from popped + remaining orders on every way out of the walk",
                  f"returns with {', '.join(sorted({'buy_order_book', 'sell_order_book'} - restored))} not restored: the orders popped during the walk are gone from the book ({ep.describe()[-140:]})")
    # and the fills come after the rebuild
    idx_fill = w.main.events.index(w.fill_call) if w.fill_call in w.main.events else -1
    if idx_fill < 0:  # the fills are made in a for-loop over the pending list
        for i_, e_ in enumerate(w.main.events):
            if e_.kind == "loop" and any(w.fill_call in bp.events for bp in e_.paths):
                idx_fill = i_
    idx_st = max([w.main.events.index(e) for e in after if e.kind == "store" and e.attr == "priority_queue"] or [-1])
    if idx_st < 0:
        return  # no rebinding after the walk: refused or reported above
    ctx.check(0 <= idx_st < idx_fill, f, w.fill_call.node, "books are restored before fills are executed", "rebuild precedes fills", f"rebuild@{idx_st} fills@{idx_fill}")


@rule("C03.R4", "the only way a round ends without walking the books is `nothing executable`", "T3 guard on early returns", floor=1)
def r4(ctx: Ctx) -> None:
    f = ctx.func(EXEC)
    n = 0
    for p in ctx.paths(EXEC):
        if p.exit[0] != "return" or loops(p):
            continue
        n += 1
        conds = [(strip_ver(c), pol) for c, pol, _ in p.conds]
        ok = len(conds) == 1 and not conds[0][1] and conds[0][0][0] == "call" and key(conds[0][0][1]) == "self.remain_executable_orders"
        muts = [e for e in p.events if e.kind in ("store", "del") or (e.kind == "call" and not e.pure and not e.noise)]
        if any(e.kind == "call" and calls_target(e, "Market._execute_orders") for e in p.walk_events(True)):
            ctx.unrec(f, f.node, "early return of a matching round", "this path completes a round (it fills a pair) without the walk: whether it leaves nothing executable behind is not decided", p.describe()[:160])
            continue
        if ok and muts and all(e.kind == "call" and e is not None and e.name == "remain_executable_orders" for e in muts):
            # the only effect on this path is inside the executability test itself (a view it consults keeps a memo, say): whether
            # what is kept can make the test answer wrongly later is a question about that memo (C08), not decided here
            ctx.unrec(f, f.node, "early return of a matching round", "the executability test is not free of effects: what it keeps is not modelled", p.describe()[:160])
            continue
        ctx.check(ok and not muts, f, f.node, "early return of a matching round", "only under `not remain_executable_orders()`, without effects",
                  p.describe()[:200])
    ctx.require(n >= 1, "no early-return path found in Market._execution")
    # every path that walks starts from the executability test being true
    for p in ctx.paths(EXEC):
        if loops(p) and p.exit[0] == "return":
            first = p.conds[0] if p.conds else None
            ok = first is not None and first[1] and key(strip_ver(first[0])).startswith("self.remain_executable_orders(")
            ctx.check(ok, f, f.node, "the walk is entered exactly when something is executable", "first decision: remain_executable_orders() is true", p.describe()[:120])


@rule("C03.H1", "premise shared with C02: book queues are valid heaps whenever they are popped (heap discipline)", "T4 typestate", floor=4)
def h1(ctx: Ctx) -> None:
    from .c02 import r2 as heap_rule

    heap_rule(ctx)


@rule("C03.H2", "premise shared with C02: the order at the top of a queue is the best order (comparison = priority in every world)", "T6 (same rule as C02.R1)", floor=4)
def h2(ctx: Ctx) -> None:
    from .c02 import r1 as order_rule

    order_rule(ctx)


@rule("C03.R5", "progress of the walk (necessary for termination): every iteration that continues has popped an order or allocated a positive volume, and an allocation exhausts at least one side", "T4 progress on every continuing path", floor=2)
def r5(ctx: Ctx) -> None:
    w = analyse_walk(ctx)
    f = ctx.func(EXEC)
    n = 0
    bad = []
    for bp in w.body:
        if bp.exit not in ("fall", "continue"):
            continue
        n += 1
        if not bp.pops and bp.appended is None:
            bad.append(bp.path.describe()[:160])
    ctx.check(not bad, f, w.loop.node, "no iteration continues without consuming from a queue or allocating volume", "pop or allocation on every continuing path", f"{len(bad)} idle path(s): {bad[:1]}" if bad else f"{n} continuing paths all make progress")
    # an allocation of min(b, s) > 0 leaves at least one side at zero, so the next iteration pops or stops
    ok = True
    pos = 0
    for bp in w.body:
        if bp.appended is None:
            continue
        vol = bp.appended[1][0]
        zero_guard = any((not pol) and strip_ver(c)[0] == "cmp" and strip_ver(c)[1] == "==" and ("const", 0) in (strip_ver(c)[2], strip_ver(c)[3]) and strip_ver(vol) in (strip_ver(c)[2], strip_ver(c)[3]) for c, pol, _ in bp.path.conds)
        pos += 1
        ok = ok and zero_guard and vol[0] == "call" and key(vol[1]) == "min"
    ctx.check(ok and pos >= 1, f, w.loop.node, "allocated volume is min(remaining buy, remaining sell) and is checked to be non-zero", "volume = min(b, s); volume == 0 -> raise", f"{pos} allocating path(s), all guarded: {ok}")


@rule("C03.H3", "necessary for `never raises`: a round is started only while the execution switch, read at that moment, is on (the halt rule clears it together with the running flag the round asserts)", "T3 guard (same rule as C09.R2)", floor=8)
def h3(ctx: Ctx) -> None:
    from .c09 import r2 as gate_rule

    gate_rule(ctx)


@rule("C03.H4", "necessary for `never raises`: a market is stopped only together with the session switch and a record that lets it restart", "T3/T7 (same rule as C16.R2)", floor=2)
def h4(ctx: Ctx) -> None:
    from .c16 import r2 as halt_rule

    halt_rule(ctx)


@rule("C03.H5", "necessary for `never raises`: expiry and cancel bookkeeping stay consistent with the queue (the round's removal of a filled order finds its entry)", "T4 (same rule as C04.R6)", floor=4)
def h5(ctx: Ctx) -> None:
    from .c04 import r6 as removal_rule

    removal_rule(ctx)


@rule("C03.H6", "necessary for `never raises`: orders of non-positive volume never reach a book (the walk asserts a positive volume)", "T6 decision table (same rule as C04.R9)", floor=1)
def h6(ctx: Ctx) -> None:
    from .c04 import r9 as ctor_rule

    ctor_rule(ctx)


@rule("C03.H7", "necessary for `never raises`: two orders of a market never share an id (the price rule of the walk asserts it on equal acceptance times)", "T1 + T7 (same rule as C02.R7)", floor=2)
def h7(ctx: Ctx) -> None:
    from .c02 import check_order_ids

    check_order_ids(ctx)


@rule("C03.H8", "necessary for `never raises`: a round that matched a pair with a limit order ends with a price (the walk raises on `price is None`); the price of a pair is the limit order's own, whatever its value, 0 included", "T6 decision table (same rule as C01.R2)", floor=1)
def h8(ctx: Ctx) -> None:
    from .c01 import r2 as price_table_rule

    price_table_rule(ctx)



@rule("C03.H9", "necessary for the stop condition: the kind of an order (market / limit) is decided by value, so an order that is equal to a limit order is treated as one by the executability test and by the walk", "T13 lint over Market, OrderBook, Order, OrderKind", floor=1)
def h9(ctx: Ctx) -> None:
    from .events import check_identity_comparisons

    check_identity_comparisons(ctx, ["Market", "OrderBook", "Order", "OrderKind"], floor=40)


def check_kind_price(ctx: Ctx) -> None:
    """The constructor of Order ties the kind to the price (market order <=> no price).  The executability
    test and the walk read the kind in some places and the price in others, so a later writer that moves
    one without the other leaves an order that ranks as one kind and is priced as the other."""
    fs = {}
    for attr in ("kind", "price"):
        for w in ctx.cg.writers_of("Order", attr, kinds=("store", "aug", "del")):
            if w.recv and "Order" not in w.recv:
                continue
            if not w.recv and not (w.func.name == "hooked_before_order"):
                continue
            fs[w.func.qualname] = w.func
    ctx.require("Order.__init__" in fs, "check_kind_price: Order.__init__ no longer stores kind/price")
    ini = ctx.func("Order.__init__")
    guards = set()
    for p in ctx.paths("Order.__init__"):
        if p.exit[0] != "raise":
            continue
        ks = " & ".join(sorted(key(strip_ver(c)) + ("" if pol else "!") for c, pol, _ in p.conds))
        guards.add(ks)
    ok = any("MARKET_ORDER" in g and "price is None" in g for g in guards) and any("LIMIT_ORDER" in g and "price is None" in g for g in guards)
    if not ok:
        ctx.unrec(ini, ini.node, "constructor ties kind and price", "the two refusals (market order with a price, limit order without) were not found in this form", "; ".join(sorted(guards))[:200])
    else:
        ctx.holds(ini, ini.node, "constructor ties kind and price", expected="market order <=> price is None, refused otherwise", found="two refusals")
    for q, f in sorted(fs.items()):
        if q == "Order.__init__" or f.outer is not None:
            continue
        bad: List[str] = []
        odd: List[str] = []
        n = 0
        for p in ctx.paths(q):
            if p.exit[0] == "raise":
                continue
            per: Dict[str, Dict[str, Term]] = {}
            for e in p.walk_events():
                if e.kind == "store" and e.attr in ("kind", "price") and e.base is not None:
                    per.setdefault(key(strip_ver(e.base)), {})[e.attr] = strip_ver(e.value)
            for b, got in per.items():
                n += 1
                K, P = got.get("kind"), got.get("price")
                if K is not None and key(K) == f"{b}.kind":
                    K = None
                if K is None:
                    if P is not None and P == NONE:
                        odd.append(f"{b}.price = None with the kind left as it is")
                    continue
                kk = key(K)
                lim = kk.endswith("LIMIT_ORDER")
                mar = kk.endswith("MARKET_ORDER")
                if not lim and not mar:
                    for c, pol, _ in p.conds:
                        c = strip_ver(c)
                        if c[0] == "cmp" and c[1] in ("==", "is") and kk in (key(c[2]), key(c[3])):
                            other = key(c[3]) if key(c[2]) == kk else key(c[2])
                            if other.endswith("LIMIT_ORDER"):
                                lim, mar = pol, not pol
                            elif other.endswith("MARKET_ORDER"):
                                mar, lim = pol, not pol
                if P is None:
                    bad.append(f"{b}.kind = {kk[:60]} while {b}.price keeps whatever the order had ({p.describe()[:100]})")
                elif lim and P == NONE:
                    bad.append(f"{b}.kind = LIMIT_ORDER with {b}.price = None")
                elif mar and P != NONE:
                    bad.append(f"{b}.kind = MARKET_ORDER with {b}.price = {key(P)[:60]}")
                elif not lim and not mar:
                    odd.append(f"{b}.kind = {kk[:60]}: which kind that is on this path is not decided")
        construct = f"{q} rewrites the kind / price of an order"
        if bad:
            ctx.violated(f, f.node, construct, "kind and price are written together and agree (LIMIT_ORDER with a price, MARKET_ORDER with None), as Order.__init__ demands", "; ".join(sorted(set(bad)))[:400])
        elif odd:
            ctx.unrec(f, f.node, construct, "; ".join(sorted(set(odd)))[:300])
        else:
            ctx.holds(f, f.node, construct, expected="kind and price written together and agreeing", found=f"{n} write set(s) on normal paths agree")


@rule("C03.H10", "necessary for the stop condition: an order is a market order exactly when it has no price (the executability test reads the price, the ranking reads the kind); the constructor refuses anything else and every later writer of the kind or the price keeps the two together", "T1 writers + T6 per path", floor=2)
def h10(ctx: Ctx) -> None:
    check_kind_price(ctx)
